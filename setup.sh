#!/bin/sh
# nothing to build: the framework is python3 (stdlib) + the pre-installed verus. Warm up verus once.
cd "$(dirname "$0")"
mkdir -p build .cache evidence replay
verus --version >/dev/null 2>&1 || { echo "verus not on PATH"; exit 1; }
exit 0
