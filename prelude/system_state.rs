// ---------------------------------------------------------------------------
// prelude/system_state.rs -- ASSUMED contract of `System` and its `File` for the code that persists ruler's own
// state (unit H, C11).  Every mutating primitive is a crash point: its precondition says that the state it
// leaves behind is one in which no state file is empty or half written (O-H-atomic-*).
// ---------------------------------------------------------------------------

// 0: not a state file; 1: a rule-history file (history/<rule ticket>); 2: the file-state table (current_file_states)
uninterp spec fn state_kind(p: Seq<char>) -> int;
// the bytes decode as a RuleHistory / as a file-state table (bincode + serde are external: uninterpreted)
uninterp spec fn decodes_h(b: Seq<u8>) -> bool;
uninterp spec fn decodes_c(b: Seq<u8>) -> bool;
spec fn decodes_as(kind: int, b: Seq<u8>) -> bool { if kind == 1 { decodes_h(b) } else if kind == 2 { decodes_c(b) } else { true } }
spec fn tmp_suffix() -> Seq<char> { seq!['.', 't', 'm', 'p'] }
// ASSUMED (names): `<state file>.tmp` is not itself a state file (history files are named by 43 alphanumerics;
// "current_file_states.tmp" is not "current_file_states"); an empty file does not decode (bincode needs a length prefix)
#[verifier::external_body] proof fn tmp_is_not_state(p: Seq<char>) ensures state_kind(p + tmp_suffix()) == 0 {}
#[verifier::external_body] proof fn empty_does_not_decode() ensures !decodes_h(Seq::<u8>::empty()), !decodes_c(Seq::<u8>::empty()) {}

// STATE_OK: every state file that exists decodes -- so a build that starts now is not wedged
spec fn state_ok(w: World) -> bool {
    forall|p: Seq<char>| #![trigger w.files[p]] w.files.contains_key(p) ==> decodes_as(state_kind(p), w.files[p].content)
}
// nothing but p and q changed
spec fn only_changed(a: World, b: World, p: Seq<char>, q: Seq<char>) -> bool {
    &&& same_consts(a, b) && a.dirs == b.dirs && a.execs == b.execs
    &&& forall|x: Seq<char>| #![trigger b.files[x]] #![trigger b.files.contains_key(x)] x != p && x != q ==>
            (a.files.contains_key(x) == b.files.contains_key(x) && (a.files.contains_key(x) ==> a.files[x] == b.files[x]))
}

// the primitive failed: nothing changed but the count of failed primitives
spec fn failed_step(a: World, b: World) -> bool { b == (World { faults: a.faults + 1, ..a }) }

struct IoError { x: u8 }

trait FileOps : Sized {
    spec fn path(&self) -> Seq<char>;
    spec fn content(&self) -> Seq<u8>;        // for files opened for reading: the bytes at open time
    // appends to the file this handle was created for; a failed write leaves a prefix of the data (torn write)
    fn write_all(&mut self, buf: &[u8], Tracked(w): Tracked<&mut World>) -> (r: Result<(), IoError>)
        requires state_kind(old(self).path()) == 0,     //# O-H-atomic-write [C11]
            old(w).files.contains_key(old(self).path()),
        ensures final(self).path() == old(self).path(), only_changed(*old(w), *final(w), old(self).path(), old(self).path()),
            final(w).files.contains_key(old(self).path()),
            r is Ok ==> final(w).files[old(self).path()].content == old(w).files[old(self).path()].content + buf@ && final(w).faults == old(w).faults,
            r is Err ==> final(w).faults == old(w).faults + 1;
    fn read_to_end(&mut self, buf: &mut Vec<u8>) -> (r: Result<usize, IoError>)
        ensures r is Ok ==> final(buf)@ == old(buf)@ + old(self).content();
}

trait System : Sized + Clone
{
    type File: FileOps;

    fn open(&self, path: &str, Tracked(w): Tracked<&mut World>) -> (r: Result<Self::File, SystemError>)
        ensures *final(w) == *old(w),
            r matches Ok(f) ==> old(w).files.contains_key(path@) && f.content() == old(w).files[path@].content,
            old(w).files.contains_key(path@) || r is Err;     // (an existing file may still fail to open)

    // creates or TRUNCATES: right after this call the file exists and is empty
    fn create_file(&mut self, path: &str, Tracked(w): Tracked<&mut World>) -> (r: Result<Self::File, SystemError>)
        requires state_kind(path@) == 0,     //# O-H-atomic-create [C11]
        ensures only_changed(*old(w), *final(w), path@, path@),
            r matches Ok(f) ==> f.path() == path@ && final(w).files.contains_key(path@) && final(w).files[path@].content == Seq::<u8>::empty() && final(w).faults == old(w).faults,
            r is Err ==> failed_step(*old(w), *final(w));

    fn is_file(&self, path: &str, Tracked(w): Tracked<&mut World>) -> (r: bool)
        ensures *final(w) == *old(w), r == old(w).files.contains_key(path@);

    fn is_dir(&self, path: &str, Tracked(w): Tracked<&mut World>) -> (r: bool)
        ensures *final(w) == *old(w), r == old(w).dirs.contains(path@);

    // a crash point that leaves every file as it was: only the set of directories may grow, by this one path
    fn create_dir(&mut self, path: &str, Tracked(w): Tracked<&mut World>) -> (r: Result<(), SystemError>)
        ensures same_consts(*old(w), *final(w)), final(w).files == old(w).files, final(w).execs == old(w).execs,
            r is Ok ==> final(w).dirs == old(w).dirs.insert(path@) && final(w).faults == old(w).faults,
            r is Err ==> final(w).dirs == old(w).dirs && final(w).faults == old(w).faults + 1;

    fn rename(&mut self, from: &str, to: &str, Tracked(w): Tracked<&mut World>) -> (r: Result<(), SystemError>)
        requires old(w).files.contains_key(from@) ==> decodes_as(state_kind(to@), old(w).files[from@].content),     //# O-H-atomic-rename [C11]
        ensures only_changed(*old(w), *final(w), from@, to@),
            r is Ok ==> old(w).files.contains_key(from@) && final(w).files.contains_key(to@) && final(w).files[to@] == old(w).files[from@] && (from@ != to@ ==> !final(w).files.contains_key(from@)) && final(w).faults == old(w).faults,
            r is Err ==> failed_step(*old(w), *final(w));
}
