// ---------------------------------------------------------------------------
// prelude/world.rs -- ghost world and spec vocabulary shared by units D, D', H, E.
// No repo code here.  Everything marked ASSUMED is part of the trusted base and
// is listed by tools/scan_assumptions in every evidence file.
// ---------------------------------------------------------------------------

struct FileEntry { content: Seq<u8>, mtime: u64, executable: bool }

struct World {
    files: Map<Seq<char>, FileEntry>,      // regular files by path
    dirs: Set<Seq<char>>,                  // directories by path
    cache_dir: Seq<char>,                  // ghost constant: the directory INV_CACHE speaks about
    targets: Set<Seq<char>>,               // ghost constant: declared target paths of the rules in scope
    execs: Seq<Seq<Seq<char>>>,            // command scripts executed so far (one entry per execute_command)
    faults: nat,                           // how many mutating System primitives have FAILED so far (tracked by prelude/system_state.rs only)
}

// SHA-256 as an uninterpreted function (collision freedom is NOT assumed anywhere;
// statements are "equal hash", never "equal bytes", unless stated).
uninterp spec fn sha256_raw(c: Seq<u8>) -> Seq<u8>;
// ... normalised to 32 bytes, so that `sha256(c).len() == 32` needs no axiom
spec fn sha256(c: Seq<u8>) -> Seq<u8> { if sha256_raw(c).len() == 32 { sha256_raw(c) } else { Seq::new(32, |i: int| 0u8) } }
// text form of a 32-byte hash; defined and proved injective in unit A
uninterp spec fn enc62_sha(s: Seq<u8>) -> Seq<char>;
// clock model 1 ("distinct writes carry distinct mtimes"): the mtime determines the bytes
uninterp spec fn wc(t: u64) -> Seq<u8>;

spec fn cpath(dir: Seq<char>, sha: Seq<u8>) -> Seq<char> { dir + seq!['/'] + enc62_sha(sha) }
// p lies directly or indirectly under directory dir (textually: starts with dir + "/")
spec fn under(dir: Seq<char>, p: Seq<char>) -> bool {
    p.len() > dir.len() && p.subrange(0, dir.len() as int + 1) == dir + seq!['/']
}

// INV_CACHE: every file under the cache directory is stored under the name encoding the hash of its bytes
spec fn inv_cache(w: World) -> bool {
    forall|p: Seq<char>| #![trigger w.files[p]] w.files.contains_key(p) && under(w.cache_dir, p)
        ==> p == cpath(w.cache_dir, sha256(w.files[p].content))
}
// MT: clock model 1
spec fn mt(w: World) -> bool {
    forall|p: Seq<char>| #![trigger w.files[p]] w.files.contains_key(p) ==> w.files[p].content == wc(w.files[p].mtime)
}
// a path ruler may move files from/to: a declared target in scope, or inside the cache directory
spec fn owned(w: World, p: Seq<char>) -> bool { w.targets.contains(p) || under(w.cache_dir, p) }

// content with hash h is held at a declared target path or somewhere in the cache
spec fn holds(w: World, h: Seq<u8>) -> bool {
    exists|q: Seq<char>| #![trigger w.files[q]] w.files.contains_key(q) && owned(w, q) && sha256(w.files[q].content) == h
}
proof fn holds_intro(w: World, h: Seq<u8>, q: Seq<char>)
    requires w.files.contains_key(q), owned(w, q), sha256(w.files[q].content) == h
    ensures holds(w, h)
{ let e = w.files[q]; }

// C08: no content held at a target path or in the cache before is lost afterwards
spec fn kept(a: World, b: World) -> bool {
    forall|h: Seq<u8>| #![trigger holds(a, h)] holds(a, h) ==> holds(b, h)
}

// content with hash h is in the cache under its proper name
spec fn in_cache(w: World, h: Seq<u8>) -> bool {
    w.files.contains_key(cpath(w.cache_dir, h)) && sha256(w.files[cpath(w.cache_dir, h)].content) == h
}

spec fn same_consts(a: World, b: World) -> bool {
    a.cache_dir == b.cache_dir && a.targets == b.targets
}

// every file outside the cache directory and different from the listed paths is untouched (whole entry:
// bytes, mtime, executable bit); directories untouched
spec fn frame_except(a: World, b: World, keep: Seq<Seq<char>>) -> bool {
    &&& a.dirs == b.dirs
    &&& same_consts(a, b)
    &&& forall|p: Seq<char>| #![trigger b.files[p]] #![trigger a.files[p]] #![trigger b.files.contains_key(p)] !keep.contains(p) && !under(a.cache_dir, p) ==>
            (a.files.contains_key(p) == b.files.contains_key(p) && (a.files.contains_key(p) ==> a.files[p] == b.files[p]))
}
// the same with a single exempt path
spec fn frame_except1(a: World, b: World, t: Seq<char>) -> bool {
    &&& a.dirs == b.dirs
    &&& same_consts(a, b)
    &&& forall|p: Seq<char>| #![trigger b.files[p]] #![trigger a.files[p]] #![trigger b.files.contains_key(p)] p != t && !under(a.cache_dir, p) ==>
            (a.files.contains_key(p) == b.files.contains_key(p) && (a.files.contains_key(p) ==> a.files[p] == b.files[p]))
}
proof fn frame1_to_n(a: World, b: World, t: Seq<char>, keep: Seq<Seq<char>>)
    requires frame_except1(a, b, t), keep.contains(t) ensures frame_except(a, b, keep) {}
proof fn frame_trans(a: World, b: World, c: World, keep: Seq<Seq<char>>)
    requires frame_except(a, b, keep), frame_except(b, c, keep) ensures frame_except(a, c, keep)
{
    assert forall|p: Seq<char>| #![trigger c.files[p]] #![trigger a.files[p]] #![trigger c.files.contains_key(p)] !keep.contains(p) && !under(a.cache_dir, p) implies
            (a.files.contains_key(p) == c.files.contains_key(p) && (a.files.contains_key(p) ==> a.files[p] == c.files[p])) by {
        assert(a.files.contains_key(p) == b.files.contains_key(p));
        assert(b.files.contains_key(p) == c.files.contains_key(p));
    }
}
// C09: only declared targets in scope and the cache directory are touched
spec fn frame_ok(a: World, b: World) -> bool {
    &&& a.dirs == b.dirs
    &&& same_consts(a, b)
    &&& forall|p: Seq<char>| #![trigger b.files[p]] #![trigger a.files[p]] #![trigger b.files.contains_key(p)] !a.targets.contains(p) && !under(a.cache_dir, p) ==>
            (a.files.contains_key(p) == b.files.contains_key(p) && (a.files.contains_key(p) ==> a.files[p] == b.files[p]))
}

// Crash-step obligation for rename(a -> b), required by the `System::rename` contract at every call site:
//  C09  both ends are declared targets in scope or inside the cache directory;
//  C08  the destination is absent or already holds equal-hash content (nothing is overwritten and lost);
//  C07  a destination inside the cache gets the name encoding the hash of the bytes moved there.
spec fn step_ok_rename(w: World, a: Seq<char>, b: Seq<char>) -> bool {
    &&& owned(w, a) && owned(w, b)
    &&& w.files.contains_key(a) ==> {
        &&& (w.files.contains_key(b) ==> sha256(w.files[b].content) == sha256(w.files[a].content))
        &&& (under(w.cache_dir, b) ==> b == cpath(w.cache_dir, sha256(w.files[a].content)))
    }
}

// crash-step obligation of removing a file: what it holds is held by another owned file as well (nothing is lost, C08)
spec fn step_ok_remove(w: World, a: Seq<char>) -> bool {
    owned(w, a) && (w.files.contains_key(a) ==> exists|q: Seq<char>| #![trigger w.files[q]] q != a && w.files.contains_key(q) && owned(w, q) && sha256(w.files[q].content) == sha256(w.files[a].content))
}
proof fn remove_keeps(w: World, w2: World, a: Seq<char>)
    requires step_ok_remove(w, a), w.files.contains_key(a), same_consts(w, w2), w2.files == w.files.remove(a),
    ensures kept(w, w2), inv_cache(w) ==> inv_cache(w2)
{
    let q0 = choose|q: Seq<char>| #![trigger w.files[q]] q != a && w.files.contains_key(q) && owned(w, q) && sha256(w.files[q].content) == sha256(w.files[a].content);
    assert forall|h: Seq<u8>| #![trigger holds(w, h)] holds(w, h) implies holds(w2, h) by {
        let q = choose|q: Seq<char>| #![trigger w.files[q]] w.files.contains_key(q) && owned(w, q) && sha256(w.files[q].content) == h;
        if q == a { assert(w2.files.contains_key(q0) && w2.files[q0] == w.files[q0]); assert(owned(w2, q0)); holds_intro(w2, h, q0); }
        else { assert(w2.files.contains_key(q) && w2.files[q] == w.files[q]); assert(owned(w2, q)); holds_intro(w2, h, q); }
    }
}

// a successful rename under the step obligation loses nothing (C08) and keeps the cache invariant (C07)
proof fn rename_keeps(w: World, w2: World, a: Seq<char>, b: Seq<char>)
    requires step_ok_rename(w, a, b), w.files.contains_key(a), same_consts(w, w2),
        w2.files == w.files.remove(a).insert(b, w.files[a]),
    ensures kept(w, w2), inv_cache(w) ==> inv_cache(w2), mt(w) ==> mt(w2),
{
    assert forall|h: Seq<u8>| #![trigger holds(w, h)] holds(w, h) implies holds(w2, h) by {
        let q = choose|q: Seq<char>| #![trigger w.files[q]] w.files.contains_key(q) && owned(w, q) && sha256(w.files[q].content) == h;
        if q == a || q == b { holds_intro(w2, h, b); } else { assert(w2.files[q] == w.files[q]); holds_intro(w2, h, q); }
    }
    if inv_cache(w) {
        assert forall|p: Seq<char>| #![trigger w2.files[p]] w2.files.contains_key(p) && under(w2.cache_dir, p)
            implies p == cpath(w2.cache_dir, sha256(w2.files[p].content)) by {
            if p != b { assert(w.files[p] == w2.files[p]); }
        }
    }
    if mt(w) {
        assert forall|p: Seq<char>| #![trigger w2.files[p]] w2.files.contains_key(p) implies w2.files[p].content == wc(w2.files[p].mtime) by {
            if p != b { assert(w.files[p] == w2.files[p]); } else { assert(w2.files[p] == w.files[a]); }
        }
    }
}
proof fn kept_refl(a: World) ensures kept(a, a) {}
proof fn kept_trans(a: World, b: World, c: World) requires kept(a, b), kept(b, c) ensures kept(a, c) {}


// ASSUMED here, PROVED in unit A (lemma_enc62_injective, label L-A-injective): the text form is injective on 32-byte hashes
#[verifier::external_body]
proof fn enc62_injective(a: Seq<u8>, b: Seq<u8>) requires a.len() == 32, b.len() == 32, enc62_sha(a) == enc62_sha(b) ensures a == b {}

proof fn cpath_inj(dir: Seq<char>, a: Seq<u8>, b: Seq<u8>) requires a.len() == 32, b.len() == 32, cpath(dir, a) == cpath(dir, b) ensures a == b
{
    let pa = cpath(dir, a); let pb = cpath(dir, b);
    let k = dir.len() as int + 1;
    assert(pa.subrange(k, pa.len() as int) =~= enc62_sha(a));
    assert(pb.subrange(k, pb.len() as int) =~= enc62_sha(b));
    enc62_injective(a, b);
}
// the same as a broadcast lemma, for places where a hint cannot be placed (match arms)
broadcast proof fn cpath_inj_b(dir: Seq<char>, a: Seq<u8>, b: Seq<u8>) requires a.len() == 32, b.len() == 32, #[trigger] cpath(dir, a) == #[trigger] cpath(dir, b) ensures a == b
{ cpath_inj(dir, a, b); }
proof fn cpath_under(dir: Seq<char>, sha: Seq<u8>) ensures under(dir, cpath(dir, sha))
{ let p = cpath(dir, sha); assert(p.subrange(0, dir.len() as int + 1) =~= dir + seq!['/']); }
