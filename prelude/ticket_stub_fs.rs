// ticket.rs functions that read the file system (ASSUMED here; from_file is PROVED in unit A: shared/from_file.spec)
impl TicketFactory {
    #[verifier::external_body]
    fn from_file<FSType: System>(file_system: &FSType, path : &str, Tracked(w): Tracked<&mut World>) -> (res: Result<TicketFactory, ReadWriteError>)
//@ include shared/from_file.spec
    { unimplemented!() }
    // ASSUMED: directory hashing (outside every claim: targets are regular files)
    #[verifier::external_body]
    fn from_directory<FSType: System>(system: &FSType, path : &str, Tracked(w): Tracked<&mut World>) -> (r: Result<TicketFactory, ReadWriteError>)
        ensures *final(w) == *old(w),
    { unimplemented!() }
}
