// ---------------------------------------------------------------------------
// prelude/system_rely.rs -- ASSUMED contract of the `System` trait UNDER INTERFERENCE (unit Di, C06):
// between any two of my calls other rule threads may add or remove cache entries.  Every
// method first lets the world move by `rely` and then acts on the moved world `mid`.
// ---------------------------------------------------------------------------

// what other threads may do between two of my steps: anything inside the cache directory (keeping it
// content-addressed); nothing outside it, in particular nothing at my own target paths
spec fn rely(a: World, b: World) -> bool {
    &&& same_consts(a, b) && a.dirs == b.dirs && a.execs == b.execs
    &&& forall|p: Seq<char>| #![trigger b.files[p]] #![trigger a.files[p]] #![trigger b.files.contains_key(p)] !under(a.cache_dir, p) ==>
            (a.files.contains_key(p) == b.files.contains_key(p) && (a.files.contains_key(p) ==> a.files[p] == b.files[p]))
    &&& (inv_cache(a) ==> inv_cache(b))
}
proof fn rely_refl(a: World) ensures rely(a, a) {}
proof fn rely_trans(a: World, b: World, c: World) requires rely(a, b), rely(b, c) ensures rely(a, c)
{
    assert forall|p: Seq<char>| #![trigger c.files[p]] #![trigger a.files[p]] #![trigger c.files.contains_key(p)] !under(a.cache_dir, p) implies
            (a.files.contains_key(p) == c.files.contains_key(p) && (a.files.contains_key(p) ==> a.files[p] == c.files[p])) by {
        assert(a.files.contains_key(p) == b.files.contains_key(p));
        assert(b.files.contains_key(p) == c.files.contains_key(p));
    }
}

// error kinds by which `rename` reports that its source did not exist (RealSystem: NotFound; FakeSystem: RenameFromNonExistent)
spec fn src_missing_kind(e: SystemError) -> bool { e is NotFound || e is RenameFromNonExistent }

trait System : Sized
{
    fn is_dir(&self, path: &str, Tracked(w): Tracked<&mut World>) -> (r: bool)
        ensures rely(*old(w), *final(w)), r == final(w).dirs.contains(path@);

    fn is_file(&self, path: &str, Tracked(w): Tracked<&mut World>) -> (r: bool)
        ensures rely(*old(w), *final(w)), r == final(w).files.contains_key(path@);

    fn rename(&mut self, from: &str, to: &str, Tracked(w): Tracked<&mut World>) -> (r: Result<(), SystemError>)
        ensures
            exists|mid: World| #![trigger rely(*old(w), mid)] rely(*old(w), mid) && same_consts(mid, *final(w)) && final(w).dirs == mid.dirs && final(w).execs == mid.execs && (
                (r is Ok && mid.files.contains_key(from@) && final(w).files == mid.files.remove(from@).insert(to@, mid.files[from@]))
             || (r matches Err(e) && final(w).files == mid.files && (src_missing_kind(e) <==> !mid.files.contains_key(from@)))
            );

    // (test-only in the pinned trait; contracted so that code which starts to use it is checked, not skipped)
    fn remove_file(&mut self, path: &str, Tracked(w): Tracked<&mut World>) -> (r: Result<(), SystemError>)
        ensures
            exists|mid: World| #![trigger rely(*old(w), mid)] rely(*old(w), mid) && same_consts(mid, *final(w)) && final(w).dirs == mid.dirs && final(w).execs == mid.execs && (
                (r is Ok && mid.files.contains_key(path@) && final(w).files == mid.files.remove(path@))
             || (r is Err && final(w).files == mid.files && !mid.files.contains_key(path@))
            );

    fn set_is_executable(&mut self, path: &str, executable : bool, Tracked(w): Tracked<&mut World>) -> (r: Result<(), SystemError>)
        ensures rely(*old(w), *final(w));
}
