// ---------------------------------------------------------------------------
// prelude/system_seq.rs -- ASSUMED contract of the `System` trait (sequential: no other
// thread touches the file system between two of my calls).  RealSystem / FakeSystem are
// not verified against it.  Method list and signatures are compared mechanically with
// src/system/mod.rs by tools/driver.py (modulo the ghost parameter).
// ---------------------------------------------------------------------------

// stands for std::time::SystemTime
struct SystemTime { micros: u64, before_epoch: bool }
struct SystemTimeError { x: u8 }

// ASSUMED: system/util.rs::get_timestamp -- microseconds since the epoch
#[verifier::external_body]
fn get_timestamp(system_time: SystemTime) -> (r: Result<u64, SystemTimeError>)
    ensures r matches Ok(t) ==> t == system_time.micros && !system_time.before_epoch,
            r is Err ==> system_time.before_epoch,
{ unimplemented!() }

spec fn script_view(s: CommandScript) -> Seq<Seq<char>> { s.lines@.map_values(|l: String| l@) }

// What a command does is uninterpreted; the environment hypotheses the properties state
// (commands do not write into the ruler directory; the clock model) are in `cmd_respects`.
uninterp spec fn cmd_files(script: Seq<Seq<char>>, w: World) -> Map<Seq<char>, FileEntry>;
uninterp spec fn cmd_dirs(script: Seq<Seq<char>>, w: World) -> Set<Seq<char>>;
// ASSUMED environment hypothesis on user commands (stated in C01/C07/C08/C09 as "apart from what
// the user's commands do" / "commands write only ... "): a command never writes under the
// cache directory, never removes that directory, and obeys clock model 1.
spec fn cmd_respects(a: World, b: World) -> bool {
    &&& same_consts(a, b)
    &&& (a.dirs.contains(a.cache_dir) ==> b.dirs.contains(a.cache_dir))
    &&& forall|p: Seq<char>| #![trigger b.files[p]] #![trigger a.files[p]] under(a.cache_dir, p) ==>
            (a.files.contains_key(p) == b.files.contains_key(p) && (a.files.contains_key(p) ==> a.files[p] == b.files[p]))
    &&& (mt(a) ==> mt(b))
    // targets are regular files: a command leaves no directory at a declared target path
    &&& forall|p: Seq<char>| #![trigger b.dirs.contains(p)] a.targets.contains(p) && !a.dirs.contains(p) ==> !b.dirs.contains(p)
}

// error kinds by which `rename` reports that its source did not exist
spec fn src_missing_kind(e: SystemError) -> bool { e is NotFound || e is RenameFromNonExistent }

trait System : Sized
{
    type File;

    // read-only: which file is opened, nothing changes
    fn open(&self, path: &str, Tracked(w): Tracked<&mut World>) -> (r: Result<Self::File, SystemError>)
        ensures *final(w) == *old(w), r is Ok ==> old(w).files.contains_key(path@);

    fn is_dir(&self, path: &str, Tracked(w): Tracked<&mut World>) -> (r: bool)
        ensures *final(w) == *old(w), r == old(w).dirs.contains(path@);

    fn is_file(&self, path: &str, Tracked(w): Tracked<&mut World>) -> (r: bool)
        ensures *final(w) == *old(w), r == old(w).files.contains_key(path@);

    // Every mutating primitive is a crash point: its precondition is the crash-step obligation.
    fn rename(&mut self, from: &str, to: &str, Tracked(w): Tracked<&mut World>) -> (r: Result<(), SystemError>)
        requires step_ok_rename(*old(w), from@, to@),     //# O-step-rename [C07,C08,C09,C11]
        ensures
            same_consts(*old(w), *final(w)), final(w).execs == old(w).execs, final(w).dirs == old(w).dirs,
            r is Ok ==> old(w).files.contains_key(from@)
                && final(w).files == old(w).files.remove(from@).insert(to@, old(w).files[from@]),
            r is Err ==> *final(w) == *old(w),
            // the error kind tells whether the source existed (RealSystem: NotFound, FakeSystem: RenameFromNonExistent).
            // On a real file system NotFound can also mean a missing destination directory; the contract is used for
            // destinations whose parent exists (a target path, or the cache directory whose existence is checked first).
            r matches Err(e) ==> (src_missing_kind(e) <==> !old(w).files.contains_key(from@)),
            // derived consequences of the three lines above and the precondition (lemma rename_keeps in
            // prelude/world.rs proves them; repeated here so that call sites need no hint)
            kept(*old(w), *final(w)), inv_cache(*old(w)) ==> inv_cache(*final(w)), mt(*old(w)) ==> mt(*final(w));

    // (test-only in the pinned trait; contracted so that code which starts to use it is checked, not skipped)
    fn remove_file(&mut self, path: &str, Tracked(w): Tracked<&mut World>) -> (r: Result<(), SystemError>)
        requires step_ok_remove(*old(w), path@),     //# O-step-remove [C08]
        ensures same_consts(*old(w), *final(w)), final(w).execs == old(w).execs, final(w).dirs == old(w).dirs,
            r is Ok ==> old(w).files.contains_key(path@) && final(w).files == old(w).files.remove(path@),
            r is Err ==> *final(w) == *old(w),
            kept(*old(w), *final(w)), inv_cache(*old(w)) ==> inv_cache(*final(w)), mt(*old(w)) ==> mt(*final(w));

    fn get_modified(&self, path: &str, Tracked(w): Tracked<&mut World>) -> (r: Result<SystemTime, SystemError>)
        ensures *final(w) == *old(w),
            r matches Ok(st) ==> (old(w).files.contains_key(path@) || old(w).dirs.contains(path@))
                && (old(w).files.contains_key(path@) ==> st.micros == old(w).files[path@].mtime && !st.before_epoch),
            (!old(w).files.contains_key(path@) && !old(w).dirs.contains(path@)) ==> r is Err;

    fn is_executable(&self, path: &str, Tracked(w): Tracked<&mut World>) -> (r: Result<bool, SystemError>)
        ensures *final(w) == *old(w),
            r matches Ok(b) ==> (old(w).files.contains_key(path@) ==> b == old(w).files[path@].executable);

    fn set_is_executable(&mut self, path: &str, executable : bool, Tracked(w): Tracked<&mut World>) -> (r: Result<(), SystemError>)
        ensures
            same_consts(*old(w), *final(w)), final(w).execs == old(w).execs, final(w).dirs == old(w).dirs,
            r is Ok ==> old(w).files.contains_key(path@)
                && final(w).files == old(w).files.insert(path@, FileEntry { executable: executable, ..old(w).files[path@] }),
            r is Err ==> *final(w) == *old(w);

    fn execute_command(&mut self, command_script: CommandScript, Tracked(w): Tracked<&mut World>) -> (r: Vec<Result<CommandLineOutput, SystemError>>)
        ensures
            final(w).execs == old(w).execs.push(script_view(command_script)),
            final(w).files == cmd_files(script_view(command_script), *old(w)),
            final(w).dirs == cmd_dirs(script_view(command_script), *old(w)),
            cmd_respects(*old(w), *final(w));
}
