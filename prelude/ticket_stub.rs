// ---------------------------------------------------------------------------
// prelude/ticket_stub.rs -- ASSUMED contracts of ticket.rs as seen from units D/H/E.
// Each is the contract that unit A proves on the real text of ticket.rs
// (tools/driver.py compares the clause text of the marked contracts across units).
// ---------------------------------------------------------------------------
impl Ticket {
    spec fn bytes(&self) -> Seq<u8> { self.sha@ }
}
// R7: derived PartialEq / Clone / Hash of Ticket are structural
impl PartialEqSpecImpl for Ticket {
    open spec fn obeys_eq_spec() -> bool { true }
    closed spec fn eq_spec(&self, other: &Ticket) -> bool { self.bytes() == other.bytes() }
}
impl PartialEq for Ticket { #[verifier::external_body] fn eq(&self, other: &Ticket) -> (r: bool) { self.sha == other.sha } }
impl Eq for Ticket {}
impl Clone for Ticket { #[verifier::external_body] fn clone(&self) -> (r: Ticket) ensures r == *self { Ticket{sha: self.sha} } }
impl std::hash::Hash for Ticket { #[verifier::external_body] fn hash<H: std::hash::Hasher>(&self, state: &mut H) { self.sha[..8].hash(state); } }
// ASSUMED: Ticket's hand-written Hash (first 8 bytes) is consistent with its Eq, so HashMap<Ticket,_> behaves as a map
#[verifier::external_body]
broadcast proof fn ticket_key_model() ensures #[trigger] obeys_key_model::<Ticket>() {}

proof fn ticket_ext(a: Ticket, b: Ticket) requires a.bytes() == b.bytes() ensures a == b
{ assert(a.sha@ =~= b.sha@); assert(a.sha == b.sha); }

impl Ticket {
    // ASSUMED here, PROVED in unit A: the contract text is shared/human_readable.spec
    #[verifier::external_body]
    fn human_readable(&self) -> (res: String)
//@ include shared/human_readable.spec
    { unimplemented!() }
}

// stands for TicketFactory{dig: Sha256}; `acc` = bytes fed so far
struct TicketFactory { ghost_acc: Ghost<Seq<u8>> }
impl TicketFactory {
    spec fn acc(&self) -> Seq<u8> { self.ghost_acc@ }
    // The contract texts below are the files under shared/ -- the very text unit A proves on the real ticket.rs.
    #[verifier::external_body]
    fn new() -> (res: TicketFactory)
//@ include shared/new.spec
    { unimplemented!() }
    #[verifier::external_body]
    fn result(&mut self) -> (res: Ticket)
//@ include shared/result.spec
    { unimplemented!() }
    #[verifier::external_body]
    fn input_ticket(&mut self, input: Ticket)
//@ include shared/input_ticket.spec
    { unimplemented!() }
}
