#!/usr/bin/env python3
"""Regenerate MANIFEST.json from config.json + manifest_texts.json (claimed checks and not_applicable)."""
import json, os
V = os.path.dirname(os.path.dirname(os.path.abspath(__file__)))
cfg = json.load(open(os.path.join(V, "config.json")))
txt = json.load(open(os.path.join(V, "manifest_texts.json")))
props = [json.loads(l)["id"] for l in open(os.path.join(V, "properties.jsonl"))]
checks = []
na = []
for p in props:
    if p in cfg["properties"]:
        t = txt["claimed"][p]
        checks.append({
            "property_id": p,
            "quick_cmd": "./check %s --tier quick" % p,
            "thorough_cmd": "./check %s --tier thorough" % p,
            "evidence_file": "/verif/evidence/%s.json" % p,
            "replay_cmd_template": "./check %s --replay {path}" % p,
            "engine": "verus-contracts",
            "level_claimed": {"category": t.get("category", "proof"), "text": t["text"], "design_ref": t.get("design_ref", "DESIGN.md section 7")},
            "level_note": t["note"],
            "technique": t.get("technique", "contract-based deductive verification (Verus) of functions extracted mechanically from /repo/src on every run"),
        })
    else:
        na.append({"property_id": p, "reason": txt["not_applicable"].get(p, "unit not built; design in DESIGN.md section 7")})
m = {
    "version": 1,
    "setup_cmd": "./setup.sh",
    "hooks": txt["hooks"],
    "engines": [{"name": "verus-contracts", "path": "/verif/tools/driver.py", "serves_properties": [c["property_id"] for c in checks],
                 "kind_free_text": "extract real functions from /repo/src (tools/assemble.py), splice side-car contracts (units/*.rs), discharge with Verus/Z3; vacuity twins; assumption scan"}],
    "checks": checks,
    "notes": txt.get("notes", ""),
    "not_applicable": na,
}
json.dump(m, open(os.path.join(V, "MANIFEST.json"), "w"), indent=1)
print("MANIFEST.json: %d checks, %d not applicable" % (len(checks), len(na)))
