#!/bin/sh
cd /verif
for n in 1 2 3 4 5 6 7 8 9 10; do
  P=/verif/seeded-benign/b$n/patch.diff
  [ -f $P ] || { echo "benign $n: no patch"; continue; }
  git -C /repo status --short | grep -q . && { echo "/repo not clean"; exit 2; }
  git -C /repo apply $P || { echo "benign $n: patch does not apply"; continue; }
  for c in $(python3 -c "import json;print(' '.join(x['property_id'] for x in json.load(open('MANIFEST.json'))['checks']))"); do
    out=$(./check $c 2>&1); rc=$?
    v=$(echo "$out" | grep "^VIOLATION" | head -2 | cut -c1-260)
    u=$(echo "$out" | grep "^UNDECIDED" | head -1 | cut -c1-160)
    echo "benign $n $c exit=$rc $v $u"
  done
  git -C /repo checkout -- . ; git -C /repo clean -fdq -e target
done
