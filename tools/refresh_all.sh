#!/bin/sh
# run every claimed check on the current (must be unchanged) tree, validate MANIFEST + evidence; use before committing evidence
cd "$(dirname "$0")/.."
if [ -n "$(git -C /repo status --porcelain)" ]; then echo "/repo has uncommitted changes: refusing"; exit 2; fi
rc=0
for p in $(python3 -c "import json; print(' '.join(c['property_id'] for c in json.load(open('MANIFEST.json'))['checks']))"); do
  out=$(./check $p | tail -1); echo "$out"; case "$out" in OK*) ;; *) rc=1;; esac
done
python3-vt tools/validate.py || rc=1
python3 - <<'PY'
import json,glob
for f in sorted(glob.glob('/verif/evidence/*.json')):
    e=json.load(open(f))
    if e['level']!='proof' or e['coverage']['discharged']!=e['coverage']['obligations']: print("BAD EVIDENCE", f, e['level'])
PY
exit $rc
