#!/usr/bin/env python3
"""BOUNDED stand-in for C12 (labelled bounded, never counted as proved): builds a scratch copy of /repo's working tree
with witness/sort_witness.rs added as a test module and runs it.  Prints the WITNESS / SUMMARY lines.
usage: bounded_sort.py [max_rules]"""
import os, shutil, subprocess, sys, tempfile, re
VERIF = os.path.dirname(os.path.dirname(os.path.abspath(__file__)))
REPO = os.environ.get("RULER_REPO", "/repo")   # (the registered commands never set it: they work on /repo; tools/par_seeds.sh does)
def main():
    max_rules = sys.argv[1] if len(sys.argv) > 1 else "4"
    scratch = tempfile.mkdtemp(prefix="ruler_sortwit_", dir=os.environ.get("TMPDIR", "/tmp"))
    try:
        for item in ("src", "Cargo.toml", "Cargo.lock"):
            s = os.path.join(REPO, item); d = os.path.join(scratch, item)
            if os.path.isdir(s): shutil.copytree(s, d)
            else: shutil.copy(s, d)
        if os.path.isdir(os.path.join(REPO, "target")):
            subprocess.run(["cp", "-r", os.path.join(REPO, "target"), os.path.join(scratch, "target")], check=False)
        shutil.copy(os.path.join(VERIF, "witness", "sort_witness.rs"), os.path.join(scratch, "src", "verif_sort_witness.rs"))
        mp = os.path.join(scratch, "src", "main.rs")
        with open(mp, "a") as f: f.write("\n#[cfg(test)]\nmod verif_sort_witness;\n")
        env = dict(os.environ, CARGO_NET_OFFLINE="true", VERIF_SORT_MAX_RULES=max_rules)
        r = subprocess.run(["cargo", "test", "--offline", "--release" if os.environ.get("VERIF_SORT_RELEASE") else "--quiet", "verif_sort_witness", "--", "--nocapture", "--test-threads", "1"],
                           cwd=scratch, env=env, stdout=subprocess.PIPE, stderr=subprocess.STDOUT, text=True)
        out = r.stdout
        lines = [l for l in out.split("\n") if l.startswith("WITNESS") or l.startswith("SUMMARY")]
        print("\n".join(lines))
        if not any(l.startswith("SUMMARY") for l in lines):
            print("HARNESS-ERROR\n" + out[-3000:])
            return 2
        return 0
    finally:
        shutil.rmtree(scratch, ignore_errors=True)
if __name__ == "__main__":
    sys.exit(main())
