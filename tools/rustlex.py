"""Minimal Rust lexer + item locator (python3 stdlib only).

Only what the extractor needs: tell code from comments / strings / chars, match
brackets, find `fn` / `struct` / `enum` / `impl` items by name, find loops and
closures inside a function body.  It never rewrites anything by itself.
"""
import re

class LexError(Exception):
    pass

IDENT_START = set("abcdefghijklmnopqrstuvwxyzABCDEFGHIJKLMNOPQRSTUVWXYZ_")
IDENT_CONT = IDENT_START | set("0123456789")


def tokenize(src):
    """Return list of (kind, start, end).  kind in: ws, comment, str, char, lifetime,
    ident, num, punct.  Every byte of src is covered by exactly one token."""
    toks = []
    i, n = 0, len(src)
    while i < n:
        c = src[i]
        if c in " \t\r\n":
            j = i + 1
            while j < n and src[j] in " \t\r\n":
                j += 1
            toks.append(("ws", i, j)); i = j; continue
        if src.startswith("//", i):
            j = src.find("\n", i)
            if j < 0: j = n
            toks.append(("comment", i, j)); i = j; continue
        if src.startswith("/*", i):
            depth, j = 1, i + 2
            while j < n and depth > 0:
                if src.startswith("/*", j): depth += 1; j += 2
                elif src.startswith("*/", j): depth -= 1; j += 2
                else: j += 1
            if depth: raise LexError("unterminated block comment at %d" % i)
            toks.append(("comment", i, j)); i = j; continue
        # raw strings r"..", r#".."#, br#".."#
        m = re.compile(r'b?r(#*)"').match(src, i)
        if m:
            close = '"' + m.group(1)
            j = src.find(close, m.end())
            if j < 0: raise LexError("unterminated raw string at %d" % i)
            j += len(close)
            toks.append(("str", i, j)); i = j; continue
        if c == '"' or (c == 'b' and i + 1 < n and src[i + 1] == '"'):
            j = i + (2 if c == 'b' else 1)
            while j < n and src[j] != '"':
                j += 2 if src[j] == '\\' else 1
            if j >= n: raise LexError("unterminated string at %d" % i)
            toks.append(("str", i, j + 1)); i = j + 1; continue
        if c == "'" or (c == 'b' and i + 1 < n and src[i + 1] == "'"):
            k = i + (1 if c == 'b' else 0)
            # char literal or lifetime
            if k + 1 < n and src[k + 1] == '\\':
                j = k + 2
                while j < n and src[j] != "'": j += 1
                toks.append(("char", i, j + 1)); i = j + 1; continue
            if k + 2 < n and src[k + 2] == "'":
                toks.append(("char", i, k + 3)); i = k + 3; continue
            # multi-byte char literal, e.g. 'é'
            mm = re.compile(r"'[^'\\\n]'").match(src, k)
            if mm:
                toks.append(("char", i, mm.end())); i = mm.end(); continue
            j = k + 1
            while j < n and src[j] in IDENT_CONT: j += 1
            toks.append(("lifetime", i, j)); i = j; continue
        if c in IDENT_START:
            j = i + 1
            while j < n and src[j] in IDENT_CONT: j += 1
            toks.append(("ident", i, j)); i = j; continue
        if c.isdigit():
            j = i + 1
            while j < n and (src[j] in IDENT_CONT or (src[j] == '.' and j + 1 < n and src[j + 1].isdigit())): j += 1
            toks.append(("num", i, j)); i = j; continue
        toks.append(("punct", i, i + 1)); i += 1
    return toks


class Src:
    def __init__(self, text, name="<src>"):
        self.text = text
        self.name = name
        self.toks = tokenize(text)
        # indices of significant tokens
        self.sig = [k for k, t in enumerate(self.toks) if t[0] not in ("ws", "comment")]
        self._match = None

    def ttext(self, k):
        t = self.toks[k]
        return self.text[t[1]:t[2]]

    def line_of(self, off):
        return self.text.count("\n", 0, off) + 1

    def matching(self):
        """map from token index of an opening ( [ { to its closing token index (and back)."""
        if self._match is None:
            m = {}
            stack = []
            pairs = {"(": ")", "[": "]", "{": "}"}
            for k in self.sig:
                t = self.toks[k]
                if t[0] != "punct": continue
                ch = self.text[t[1]]
                if ch in pairs:
                    stack.append((ch, k))
                elif ch in ")]}":
                    if not stack: raise LexError("%s: unbalanced %s at line %d" % (self.name, ch, self.line_of(t[1])))
                    o, ko = stack.pop()
                    if pairs[o] != ch: raise LexError("%s: mismatched %s/%s at line %d" % (self.name, o, ch, self.line_of(t[1])))
                    m[ko] = k; m[k] = ko
            if stack: raise LexError("%s: unclosed bracket" % self.name)
            self._match = m
        return self._match

    def next_sig(self, k):
        """next significant token index after token index k (or None)."""
        import bisect
        p = bisect.bisect_right(self.sig, k)
        return self.sig[p] if p < len(self.sig) else None

    def prev_sig(self, k):
        import bisect
        p = bisect.bisect_left(self.sig, k) - 1
        return self.sig[p] if p >= 0 else None

    def is_punct(self, k, ch):
        t = self.toks[k]
        return t[0] == "punct" and self.text[t[1]] == ch

    def is_ident(self, k, word=None):
        t = self.toks[k]
        return t[0] == "ident" and (word is None or self.text[t[1]:t[2]] == word)


class Item:
    """A located item: [start, end) offsets in src text (attributes included in attr_start)."""
    def __init__(self, src, kind, name, kw_tok, start_tok, attr_start_off, body_open_tok, end_tok):
        self.src = src; self.kind = kind; self.name = name
        self.kw_tok = kw_tok              # token index of fn/struct/enum/impl keyword
        self.start_tok = start_tok        # first token of the item proper (pub / fn ...)
        self.attr_start = attr_start_off  # offset where attributes start
        self.body_open = body_open_tok    # token index of `{` (or None for `;` items)
        self.end_tok = end_tok            # token index of closing `}` or `;`

    @property
    def start(self): return self.src.toks[self.start_tok][1]
    @property
    def end(self): return self.src.toks[self.end_tok][2]
    @property
    def text(self): return self.src.text[self.start:self.end]
    @property
    def attrs(self): return self.src.text[self.attr_start:self.start]


def _scan_items(src, lo_tok, hi_tok):
    """Yield Items found at nesting depth 0 within token range (lo_tok, hi_tok) exclusive."""
    m = src.matching()
    k = src.next_sig(lo_tok) if lo_tok is not None else (src.sig[0] if src.sig else None)
    pending_attr_off = None
    pending_start = None
    while k is not None and (hi_tok is None or k < hi_tok):
        if src.is_punct(k, "#"):
            # attribute  #[...] or #![...]
            if pending_attr_off is None: pending_attr_off = src.toks[k][1]
            k2 = src.next_sig(k)
            if k2 is not None and src.is_punct(k2, "!"): k2 = src.next_sig(k2)
            if k2 is not None and src.is_punct(k2, "["):
                k = src.next_sig(m[k2]); continue
            k = k2; continue
        if src.is_ident(k, "pub"):
            if pending_start is None: pending_start = k
            k2 = src.next_sig(k)
            if k2 is not None and src.is_punct(k2, "("):
                k2 = src.next_sig(m[k2])
            k = k2; continue
        if src.toks[k][0] == "ident" and src.ttext(k) in ("fn", "struct", "enum", "impl", "trait", "mod", "const", "static", "type", "use", "extern", "unsafe", "async", "macro_rules"):
            kw = src.ttext(k)
            start_tok = pending_start if pending_start is not None else k
            attr_off = pending_attr_off if pending_attr_off is not None else src.toks[start_tok][1]
            if kw == "const":
                k2 = src.next_sig(k)
                if k2 is not None and src.toks[k2][0] == "ident" and src.ttext(k2) in ("fn", "unsafe", "async", "extern"):
                    # `const fn`: a modifier, not a const item
                    if pending_start is None: pending_start = k
                    k = k2; continue
            if kw in ("unsafe", "async", "extern") :
                # modifier: keep scanning; treat `extern crate x;` as an item ending at ;
                k2 = src.next_sig(k)
                if kw == "extern" and k2 is not None and src.is_ident(k2, "crate"):
                    j = k2
                    while j is not None and not src.is_punct(j, ";"): j = src.next_sig(j)
                    pending_attr_off = pending_start = None
                    k = src.next_sig(j) if j is not None else None
                    continue
                if pending_start is None: pending_start = k
                if k2 is not None and src.toks[k2][0] == "str": k2 = src.next_sig(k2)
                k = k2; continue
            # find end: first `{` or `;` at depth 0 (skipping (...) [...] <...> is implicit since we only skip bracket pairs)
            j = src.next_sig(k)
            name = None
            if kw in ("fn", "struct", "enum", "trait", "mod", "const", "static", "type") and j is not None and src.toks[j][0] == "ident":
                name = src.ttext(j)
            body_open = None; end_tok = None
            while j is not None:
                if src.is_punct(j, "(") or src.is_punct(j, "["):
                    j = src.next_sig(m[j]); continue
                if src.is_punct(j, "{"):
                    body_open = j; end_tok = m[j]; break
                if src.is_punct(j, ";"):
                    end_tok = j; break
                j = src.next_sig(j)
            if end_tok is None: raise LexError("%s: item without end at line %d" % (src.name, src.line_of(src.toks[k][1])))
            if kw == "struct" and body_open is not None:
                pass
            if kw in ("const", "static", "type", "use") and body_open is not None:
                # e.g. const X : [u8; 3] = [..]; or blocks in initialiser: find the terminating ;
                j = src.next_sig(end_tok)
                while j is not None and not src.is_punct(j, ";"):
                    if src.is_punct(j, "(") or src.is_punct(j, "[") or src.is_punct(j, "{"):
                        j = src.next_sig(m[j]); continue
                    j = src.next_sig(j)
                end_tok = j; body_open = None
            if kw == "struct" and body_open is None:
                pass
            if kw == "impl":
                name = src.text[src.toks[k][2]:src.toks[body_open][1]].strip() if body_open is not None else ""
                name = re.sub(r"\s+", " ", name)
            yield Item(src, kw, name, k, start_tok, attr_off, body_open, end_tok)
            pending_attr_off = pending_start = None
            k = src.next_sig(end_tok); continue
        # anything else at depth 0 (macro invocations etc.): skip token / bracket group
        pending_attr_off = pending_start = None
        if src.is_punct(k, "(") or src.is_punct(k, "[") or src.is_punct(k, "{"):
            k = src.next_sig(m[k])
        else:
            k = src.next_sig(k)


def is_cfg_test(item):
    return re.search(r"#\s*\[\s*cfg\s*\(\s*test\s*\)\s*\]", item.attrs) is not None


def top_items(src):
    return list(_scan_items(src, None, None))


def inner_items(src, item):
    return list(_scan_items(src, item.body_open, item.end_tok))


class FnParts:
    """Token positions of the pieces of a fn item."""
    def __init__(self, src, item):
        m = src.matching()
        self.src = src; self.item = item
        k = src.next_sig(item.kw_tok)          # name
        self.name_tok = k
        k = src.next_sig(k)
        self.generics = None
        if src.is_punct(k, "<"):
            depth = 0; g0 = k
            while True:
                if src.is_punct(k, "<"): depth += 1
                elif src.is_punct(k, ">"):
                    # ignore -> inside generics (Fn(..) -> T): previous char '-'
                    if src.text[src.toks[k][1] - 1] != "-": depth -= 1
                    if depth == 0: break
                elif src.is_punct(k, "("): k = m[k]
                k = src.next_sig(k)
            self.generics = (g0, k)
            k = src.next_sig(k)
        if not src.is_punct(k, "("):
            raise LexError("fn %s: expected ( at line %d" % (item.name, src.line_of(src.toks[k][1])))
        self.paren_open = k; self.paren_close = m[k]
        k = src.next_sig(self.paren_close)
        self.ret = None        # (first_tok, last_tok) of the return type
        if src.is_punct(k, "-") and src.text[src.toks[k][1]:src.toks[k][1] + 2] == "->":
            k = src.next_sig(src.next_sig(k))
            r0 = k
            last = k
            while not (src.is_punct(k, "{") and k == item.body_open) and not src.is_ident(k, "where"):
                if src.is_punct(k, "(") or src.is_punct(k, "["):
                    last = m[k]; k = src.next_sig(m[k]); continue
                last = k
                k = src.next_sig(k)
            self.ret = (r0, last)
        self.body_open = item.body_open
        self.body_close = item.end_tok


def find_loops(src, open_tok, close_tok):
    """Loops (for / while / loop) inside token range, in source order.
    Returns list of dicts: kw, kw_tok, in_tok (for `for`), body_open."""
    m = src.matching()
    out = []
    k = src.next_sig(open_tok)
    while k is not None and k < close_tok:
        if src.toks[k][0] == "ident" and src.ttext(k) in ("for", "while", "loop"):
            kw = src.ttext(k)
            prev = src.prev_sig(k)
            # skip `for<'a>` HRTB and `impl X for Y` (not inside fn bodies normally)
            j = src.next_sig(k)
            in_tok = None
            while j is not None and j < close_tok:
                if src.is_punct(j, "(") or src.is_punct(j, "["):
                    j = src.next_sig(m[j]); continue
                if kw == "for" and in_tok is None and src.is_ident(j, "in"):
                    in_tok = j
                if src.is_punct(j, "{"):
                    break
                j = src.next_sig(j)
            out.append({"kw": kw, "kw_tok": k, "in_tok": in_tok, "body_open": j, "body_close": m[j]})
        k = src.next_sig(k)
    return out


def find_closures(src, open_tok, close_tok):
    """`move |...|` closures with a brace body inside a token range, in source order."""
    m = src.matching()
    out = []
    k = src.next_sig(open_tok)
    prev = open_tok
    while k is not None and k < close_tok:
        # a closure starts with `move |` or with a `|` in argument / initialiser position (after `(`, `,` or `=`)
        bare = src.is_punct(k, "|") and (src.is_punct(prev, "(") or src.is_punct(prev, ",") or src.is_punct(prev, "=")) and not src.is_ident(prev, "move")
        if src.is_ident(k, "move") or bare:
            j = k if bare else src.next_sig(k)
            if src.is_punct(j, "|"):
                j2 = src.next_sig(j)
                # `||` lexes as two puncts; parameters otherwise
                while not src.is_punct(j2, "|"):
                    j2 = src.next_sig(j2)
                p_open, p_close = j, j2
                j = src.next_sig(j2)
                # optional -> Type; a closure whose body is a bare expression (no `-> T`, no brace) is not lifted
                if not src.is_punct(j, "{") and not src.is_punct(j, "-"):
                    prev = k; k = src.next_sig(k); continue
                while not src.is_punct(j, "{"):
                    if src.is_punct(j, "(") or src.is_punct(j, "["):
                        j = m[j]
                    j = src.next_sig(j)
                    if j is None or j >= close_tok: break
                if j is not None and j < close_tok and src.is_punct(j, "{"):
                    out.append({"move_tok": k, "p_open": p_open, "p_close": p_close, "body_open": j, "body_close": m[j]})
        prev = k
        k = src.next_sig(k)
    return out
