#!/bin/sh
# usage: try_seed.sh <patch.diff> <Cxx> [Cyy ...]   -- apply a seeded change to /repo, run the checks, undo it straight afterwards
P=$1; shift
git -C /repo status --short | grep -q . && { echo "/repo not clean"; exit 2; }
git -C /repo apply "$P" || exit 2
for c in "$@"; do echo "== $c"; /verif/check $c 2>&1 | grep -E "^(VIOLATION|UNDECIDED|OK|KNOWN)|undecided|exit" | head -8; echo "exit=$?"; done
git -C /repo checkout -- . ; git -C /repo clean -fdq -e target
git -C /repo status --short | head -3
