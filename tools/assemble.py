"""Assemble one Verus file per verification unit.

A unit template (units/<U>.rs) is Verus text with `//@` directives.  Between
`//@ extract ...` and `//@ end` it names one item of /repo/src; the item's text is
copied from the repo's working tree *now* and only the edits declared in the
directive block are applied to it.  Everything else in the template is literal
(prelude, assumed contracts, lemmas, verified clients).

Edits that add ghost/spec text: ret, param, spec, loop invariant/binder, hint, addarg.
Edits that change executable text (reported as rewrites): rewrite, retype, sig (lifting).

Failure to locate an item / anchor / expected count raises LostAnchor; the driver
turns that into "undecided" (exit 2), never into a violation.
"""
import hashlib, json, os, re, sys
sys.path.insert(0, os.path.dirname(os.path.abspath(__file__)))
import rustlex
from rustlex import Src, FnParts, LexError

REPO_SRC = os.environ.get("RULER_SRC", os.path.join(os.environ.get("RULER_REPO", "/repo"), "src"))
VERIF = os.path.dirname(os.path.dirname(os.path.abspath(__file__)))


class LostAnchor(Exception):
    pass


TAG_RE = re.compile(r"//#\s*([A-Za-z0-9_.'\-]+)?\s*(?:\[([A-Za-z0-9, ]*)\])?")


def parse_tag(line):
    """returns (label, props) if the line carries a //# tag, else None"""
    p = line.find("//#")
    if p < 0: return None
    m = TAG_RE.match(line, p)
    label = m.group(1)
    props = [x.strip() for x in m.group(2).split(",") if x.strip()] if m.group(2) is not None else None
    return (label, props)


def split_regex_directive(rest):
    """parse `/regex/ tail` ; regex may contain escaped \\/ . returns (regex, tail)"""
    rest = rest.strip()
    if not rest.startswith("/"): raise ValueError("expected /regex/: " + rest)
    i = 1
    while i < len(rest):
        if rest[i] == "\\": i += 2; continue
        if rest[i] == "/": break
        i += 1
    return rest[1:i].replace("\\/", "/"), rest[i + 1:].strip()


class ItemSpec:
    def __init__(self, locator, lineno):
        self.locator = locator
        self.lineno = lineno
        self.props = None
        self.ret = None
        self.params = []
        self.rename = None
        self.addargs = []     # (count, regex, text)
        self.rewrites = []    # (count, regex, repl, kind)
        self.spec = None      # list of lines
        self.loops = {}       # k -> {"binder":..., "inv": [lines]}
        self.hints = []       # (where, n, m, regex, lines)
        self.inserts = []     # (where, n, m, regex, text)  executable text inserted (reported as rewrite)
        self.sig = None       # for lifted closures / blocks
        self.keep_attrs = False
        self.attrs = []       # verifier attributes put in front of the emitted fn (ghost: no effect on executable code)
        self.vac = True       # emit vacuity probe
        self.close = None     # closing text of a lifted `range` (reported as a rewrite)
        self.closure_calls = []   # (n, text): the n-th closure of the lifted region is replaced by `text` (its body is verified as its own item)


def parse_template(path):
    """returns list of chunks: ("text", [lines], first_lineno) | ("item", ItemSpec) | ("include", path)"""
    chunks = []
    cur_text = []
    cur_text_line = 1
    item = None
    payload = None       # list being filled by a multi-line directive
    with open(path) as f:
        lines = f.read().split("\n")
    for ln, line in enumerate(lines, 1):
        s = line.strip()
        if s.startswith("//@"):
            d = s[3:].strip()
            word = d.split(" ", 1)[0] if d else ""
            rest = d[len(word):].strip()
            if item is None:
                if word == "extract":
                    if cur_text: chunks.append(("text", cur_text, cur_text_line)); cur_text = []
                    item = ItemSpec(rest, ln); payload = None
                elif word == "include":
                    if cur_text: chunks.append(("text", cur_text, cur_text_line)); cur_text = []
                    chunks.append(("include", rest))
                    cur_text_line = ln + 1
                elif word in ("unit", "default-props", "note", "world-calls", "unit-rewrite"):
                    chunks.append(("meta", word, rest))
                else:
                    raise ValueError("%s:%d unknown directive %s" % (path, ln, word))
                continue
            payload = None
            if word == "end":
                chunks.append(("item", item)); item = None; cur_text_line = ln + 1
            elif word == "props": item.props = rest.split()
            elif word == "ret": item.ret = rest
            elif word == "param": item.params.append(rest)
            elif word == "rename": item.rename = rest
            elif word == "keep-attrs": item.keep_attrs = True
            elif word == "attr": item.attrs.append(rest)
            elif word == "no-vac": item.vac = False
            elif word == "sig": item.sig = rest
            elif word == "close": item.close = rest
            elif word == "closure-call":
                n, r = rest.split(" ", 1)
                if not r.strip().startswith("=>"): raise ValueError("%s:%d closure-call needs =>" % (path, ln))
                item.closure_calls.append((int(n), r.strip()[2:].strip()))
            elif word == "addarg":
                cnt, r = rest.split(" ", 1)
                rx, text = split_regex_directive(r)
                item.addargs.append((None if cnt == "*" else int(cnt), rx, text))
            elif word in ("rewrite", "retype"):
                cnt, r = rest.split(" ", 1)
                rx, tail = split_regex_directive(r)
                if not tail.startswith("=>"): raise ValueError("%s:%d rewrite needs =>" % (path, ln))
                repl = tail[2:].strip()
                if repl == "<empty>": repl = ""
                item.rewrites.append((None if cnt == "*" else int(cnt), rx, repl, word))
            elif word == "insert":
                where = rest.split(" ", 1)[0]
                nm, r = rest[len(where):].strip().split(" ", 1)
                n, m = nm.split("/")
                rx, tail = split_regex_directive(r)
                if not tail.startswith("=>"): raise ValueError("%s:%d insert needs =>" % (path, ln))
                item.inserts.append((where, int(n), int(m), rx, tail[2:].strip()))
            elif word == "spec":
                item.spec = []; payload = item.spec
            elif word == "spec-file":
                # contract text shared verbatim with the units that ASSUME this contract (cross-unit sync by construction)
                with open(os.path.join(VERIF, rest)) as sf:
                    item.spec = [l for l in sf.read().split("\n") if l.strip()]
                payload = item.spec
            elif word == "loop":
                k, what = rest.split(" ", 1)
                k = int(k)
                lp = item.loops.setdefault(k, {"binder": None, "inv": None})
                if what.startswith("binder"): lp["binder"] = what.split()[1]
                elif what.startswith("invariant"):
                    lp["inv"] = []; payload = lp["inv"]
                else: raise ValueError("%s:%d bad loop directive" % (path, ln))
            elif word == "hint":
                where = rest.split(" ", 1)[0]
                lines_ = []
                if where == "start":
                    item.hints.append(("start", 1, 1, None, lines_))
                else:
                    nm, r = rest[len(where):].strip().split(" ", 1)
                    n, m = nm.split("/")
                    rx, _ = split_regex_directive(r)
                    item.hints.append((where, int(n), int(m), rx, lines_))
                payload = lines_
            else:
                raise ValueError("%s:%d unknown item directive %s" % (path, ln, word))
            continue
        if item is not None:
            if payload is None:
                if s == "": continue
                raise ValueError("%s:%d payload line outside a multi-line directive: %s" % (path, ln, line))
            payload.append(line)
        else:
            if not cur_text: cur_text_line = ln
            cur_text.append(line)
    if item is not None: raise ValueError("%s: missing //@ end" % path)
    if cur_text: chunks.append(("text", cur_text, cur_text_line))
    return chunks


_src_cache = {}


def load_src(relpath):
    p = os.path.join(REPO_SRC, relpath)
    key = (p, os.path.getmtime(p) if os.path.exists(p) else None)
    if key not in _src_cache:
        if not os.path.exists(p): raise LostAnchor("source file missing: " + relpath)
        with open(p) as f: text = f.read()
        try:
            _src_cache[key] = Src(text, relpath)
        except LexError as e:
            raise LostAnchor("cannot lex %s: %s" % (relpath, e))
    return _src_cache[key]


# The derives a stub of a real type stands for (R6/R7: "derived PartialEq / Eq / Clone / Hash / Ord are structural").  The ledger
# shared/derives.json holds, per extracted struct / enum, the semantic derives of the pinned tree; a type that no longer derives one of
# them (a hand-written impl took its place) is outside what the stubs assume: lost anchor (undecided), never an alarm.
SEMANTIC_DERIVES = ("PartialEq", "Eq", "Clone", "Hash", "PartialOrd", "Ord")
_DERIVES = None
def derive_list(attrs):
    out = []
    for m in re.finditer(r"#\s*\[\s*derive\s*\(([^)]*)\)\s*\]", attrs):
        out += [w.strip().split("::")[-1] for w in m.group(1).split(",") if w.strip()]
    return out
def check_derives(locator, kind, it):
    global _DERIVES
    if _DERIVES is None:
        try: _DERIVES = json.load(open(os.path.join(VERIF, "shared", "derives.json")))
        except Exception: _DERIVES = {}
    key = " ".join(locator.split()[:3])
    have = derive_list(it.attrs)
    for d in _DERIVES.get(key, []):
        if d not in have:
            raise LostAnchor("%s no longer derives %s: the stubs assume the DERIVED (structural) %s of this type (R6/R7)" % (key, d, d))


def locate(locator):
    """returns (src, kind, item, extra) ; kind in fn/struct/enum/closure/block"""
    parts = locator.split()
    relpath = parts[0]
    src = load_src(relpath)
    rest = locator[len(relpath):].strip()
    try:
        items = [it for it in rustlex.top_items(src) if not rustlex.is_cfg_test(it)]
        m = re.match(r"impl\s+/((?:[^/\\]|\\.)*)/\s+(.*)$", rest)
        if m:
            hdr = re.compile(m.group(1).replace("\\/", "/"))
            impls = [it for it in items if it.kind == "impl" and hdr.search(it.name)]
            if len(impls) != 1:
                raise LostAnchor("%s: %d impl blocks match /%s/" % (relpath, len(impls), m.group(1)))
            items = [it for it in rustlex.inner_items(src, impls[0]) if not rustlex.is_cfg_test(it)]
            rest = m.group(2)
        m = re.match(r"(fn|struct|enum)\s+(\w+)\s*(.*)$", rest)
        if not m: raise ValueError("bad locator: " + locator)
        kind, name, tail = m.group(1), m.group(2), m.group(3).strip()
        found = [it for it in items if it.kind == kind and it.name == name]
        if len(found) != 1:
            raise LostAnchor("%s: %d items match %s %s" % (relpath, len(found), kind, name))
        it = found[0]
        if not tail:
            return src, kind, it, None
        m = re.match(r"closure\s+(\d+)$", tail)
        if m:
            cl = rustlex.find_closures(src, it.body_open, it.end_tok)
            n = int(m.group(1))
            if n > len(cl): raise LostAnchor("%s fn %s: closure %d not found (%d closures)" % (relpath, name, n, len(cl)))
            return src, "closure", it, cl[n - 1]
        m = re.match(r"tail\s+(.*)$", tail)
        if m:
            # the rest of the function body, from the anchor to the closing brace (lifted as a function body)
            rx, _ = split_regex_directive(m.group(1))
            body = src.text[src.toks[it.body_open][1]:src.toks[it.end_tok][2]]
            ms = list(re.finditer(rx, body))
            if len(ms) != 1: raise LostAnchor("%s fn %s: tail anchor /%s/ matches %d times" % (relpath, name, rx, len(ms)))
            off = src.toks[it.body_open][1] + ms[0].start()
            first = None
            for k in src.sig:
                if src.toks[k][1] >= off: first = k; break
            return src, "tail", it, {"body_open": src.prev_sig(first), "body_close": it.end_tok, "start_off": off}
        m = re.match(r"range\s+(.*)$", tail)
        if m:
            # a run of statements of the function body: from the first anchor up to (not including) the second one
            rx1, rest2 = split_regex_directive(m.group(1))
            if not rest2.startswith(".."): raise ValueError("range needs /a/ .. /b/")
            rx2, _ = split_regex_directive(rest2[2:])
            body = src.text[src.toks[it.body_open][1]:src.toks[it.end_tok][2]]
            ms2 = list(re.finditer(rx2, body))
            if len(ms2) != 1: raise LostAnchor("%s fn %s: range anchor /%s/ matches %d times" % (relpath, name, rx2, len(ms2)))
            if rx1.startswith("\\A"):
                # `\A...` as first anchor: the range starts with the FIRST statement of the body (so that the lifted pieces of a
                # function cover every statement of it: nothing may stand before the first piece)
                off1 = src.toks[src.next_sig(it.body_open)][1]
                if not re.match(rx1[2:], src.text[off1:]):
                    raise LostAnchor("%s fn %s: the body does not start with /%s/ (a statement before the first lifted piece is in no verified piece)" % (relpath, name, rx1[2:]))
            else:
                ms1 = list(re.finditer(rx1, body))
                if len(ms1) != 1: raise LostAnchor("%s fn %s: range anchor /%s/ matches %d times" % (relpath, name, rx1, len(ms1)))
                off1 = src.toks[it.body_open][1] + ms1[0].start()
            off2 = src.toks[it.body_open][1] + ms2[0].start()
            if off2 <= off1: raise LostAnchor("%s fn %s: range anchors out of order" % (relpath, name))
            first = last = None
            for k in src.sig:
                if first is None and src.toks[k][1] >= off1: first = k
                if src.toks[k][1] >= off2: last = k; break
            # the range must be a run of whole statements at the top level of the function body
            mt = src.matching(); depth = 0; k = first
            while k is not None and k < last:
                if src.toks[k][0] == "punct" and src.ttext(k) in "([{": k = mt[k]
                elif src.toks[k][0] == "punct" and src.ttext(k) in ")]}": raise LostAnchor("%s fn %s: range is not balanced" % (relpath, name))
                k = src.next_sig(k)
            return src, "tail", it, {"body_open": src.prev_sig(first), "body_close": last, "start_off": off1, "end_off": off2}
        m = re.match(r"block\s+(.*)$", tail)
        if m:
            rx, _ = split_regex_directive(m.group(1))
            body = src.text[src.toks[it.body_open][1]:src.toks[it.end_tok][2]]
            ms = list(re.finditer(rx, body))
            if len(ms) != 1: raise LostAnchor("%s fn %s: block anchor /%s/ matches %d times" % (relpath, name, rx, len(ms)))
            off = src.toks[it.body_open][1] + ms[0].start()
            mt = src.matching()
            for k in src.sig:
                if src.toks[k][1] >= off and src.is_punct(k, "{"):
                    return src, "block", it, {"body_open": k, "body_close": mt[k]}
            raise LostAnchor("no block after anchor")
        raise ValueError("bad locator tail: " + tail)
    except LexError as e:
        raise LostAnchor("%s: %s" % (relpath, e))


class Seg:
    __slots__ = ("text", "kind", "label", "props")
    def __init__(self, text, kind, label=None, props=None):
        self.text = text; self.kind = kind; self.label = label; self.props = props


def payload_segments(lines, kind, indent="    "):
    """Turn payload lines into segments (one per line) carrying //# labels forward."""
    segs = []
    label, props = None, None
    for line in lines:
        t = parse_tag(line)
        if t is not None: label, props = t
        segs.append(Seg(line + "\n", kind, label, props))
    return segs


def build_item(spec, vacuity=False, unit_calls=None):
    """returns (segments, report) for one extracted item"""
    src, kind, it, extra = locate(spec.locator)
    text = src.text
    toks = src.toks
    edits = []   # (start, end, [Seg...], order)
    report = {"locator": spec.locator, "kind": kind, "rewrites": [], "ghost_insertions": []}

    def add(s, e, segs):
        edits.append((s, e, segs, len(edits)))

    if kind in ("struct", "enum"):
        lo, hi = it.start, it.end
        # drop visibility (single-module file) ; attributes are dropped unless keep-attrs
        region_start = it.attr_start if spec.keep_attrs else it.start
        if toks[it.start_tok][0] == "ident" and src.ttext(it.start_tok) == "pub":
            add(it.start, toks[it.kw_tok][1], [])
        # drop `pub` on fields
        k = src.next_sig(it.body_open) if it.body_open is not None else None
        m = src.matching()
        while k is not None and k < it.end_tok:
            if src.is_ident(k, "pub"):
                k2 = src.next_sig(k)
                e = toks[k2][1]
                if src.is_punct(k2, "("):
                    e = toks[src.next_sig(m[k2])][1]
                add(toks[k][1], e, [])
            k = src.next_sig(k)
        body_lo, body_hi = region_start, hi
        orig = text[it.attr_start:hi]
        out_start = region_start
        report["dropped_attrs"] = "" if spec.keep_attrs else it.attrs.strip()
        check_derives(spec.locator, kind, it)
        for (cnt, rx, repl, rkind) in spec.rewrites:
            region = text[it.start:hi]
            ms = list(re.finditer(rx, region))
            if cnt is not None and len(ms) != cnt:
                raise LostAnchor("%s: rewrite /%s/ matched %d times, expected %d" % (spec.locator, rx, len(ms), cnt))
            for mm in ms:
                new = mm.expand(repl)
                add(it.start + mm.start(), it.start + mm.end(), [Seg(new, "rewrite")])
                report["rewrites"].append({"kind": rkind, "from": mm.group(0), "to": new})
    elif kind == "fn":
        fp = FnParts(src, it)
        lo, hi = it.start, it.end
        out_start = it.start
        orig = text[lo:hi]
        if src.is_ident(it.start_tok, "pub"):
            add(it.start, toks[it.kw_tok][1], [])
        if spec.attrs:
            add(toks[it.kw_tok][1], toks[it.kw_tok][1], [Seg("\n".join(spec.attrs) + "\n", "attr")])
        if spec.rename:
            add(toks[fp.name_tok][1], toks[fp.name_tok][2], [Seg(spec.rename, "rename")])
            report["rewrites"].append({"kind": "rename", "to": spec.rename})
        if spec.params:
            prev = src.prev_sig(fp.paren_close)
            lead = "" if (src.is_punct(prev, ",") or prev == fp.paren_open) else ", "
            add(toks[fp.paren_close][1], toks[fp.paren_close][1], [Seg(lead + ", ".join(spec.params), "param")])
            report["ghost_insertions"].append("params: " + ", ".join(spec.params))
        if spec.ret:
            if fp.ret is None: raise LostAnchor("%s: `ret` given but function has no return type" % spec.locator)
            add(toks[fp.ret[0]][1], toks[fp.ret[0]][1], [Seg("(" + spec.ret + ": ", "ret")])
            add(toks[fp.ret[1]][2], toks[fp.ret[1]][2], [Seg(")", "ret")])
        sig_end = toks[fp.body_open][1]
        body_open, body_close = fp.body_open, fp.body_close
    else:
        # lifted closure / block: emitted text = declared signature + body
        if not spec.sig: raise ValueError("%s: lifted item needs //@ sig" % spec.locator)
        body_open, body_close = extra["body_open"], extra["body_close"]
        if kind == "tail":
            lo, hi = extra["start_off"], extra.get("end_off", toks[body_close][2])
        else:
            lo, hi = toks[body_open][1], toks[body_close][2]
        out_start = lo
        orig = text[lo:hi]
        sig_end = lo
        add(lo, lo, [Seg(spec.sig + "\n", "sig")])
        report["rewrites"].append({"kind": "lift", "signature": spec.sig,
                                   "enclosing_fn": it.name})
    if kind in ("fn", "closure", "block", "tail"):
        if spec.spec is not None:
            add(sig_end, sig_end, payload_segments(spec.spec, "spec"))
        if kind == "tail":
            add(lo, lo, [Seg("{\n", "sig")])
            b_lo, b_hi = lo, hi
            if "end_off" in extra:
                if spec.close is None: raise ValueError("%s: a lifted range needs //@ close" % spec.locator)
                report["rewrites"].append({"kind": "lift-close", "text": spec.close})
        else:
            b_lo, b_hi = toks[body_open][1], toks[body_close][2]
        body = text[b_lo:b_hi]
        # loops
        if spec.loops:
            loops = rustlex.find_loops(src, body_open, body_close)
            if spec.closure_calls:
                # loops inside a closure that is replaced by a call text are not loops of this item
                cls1 = rustlex.find_closures(src, body_open, body_close)
                rng = [(cls1[n - 1]["move_tok"], cls1[n - 1]["body_close"]) for (n, _t) in spec.closure_calls if n <= len(cls1)]
                loops = [L for L in loops if not any(a <= L["body_open"] <= b for (a, b) in rng)]
            for kk, lp in sorted(spec.loops.items()):
                if kk > len(loops): raise LostAnchor("%s: loop %d not found (%d loops)" % (spec.locator, kk, len(loops)))
                L = loops[kk - 1]
                if lp["binder"]:
                    if L["in_tok"] is None: raise LostAnchor("%s: loop %d is not a for-in loop" % (spec.locator, kk))
                    p = toks[L["in_tok"]][2]
                    add(p, p, [Seg(" " + lp["binder"] + ":", "binder")])
                if lp["inv"] is not None:
                    p = toks[L["body_open"]][1]
                    add(p, p, [Seg("\n", "inv")] + payload_segments(lp["inv"], "inv"))
        # hints
        for (where, n, mcount, rx, lines_) in spec.hints:
            if where == "start":
                p = toks[body_open][2] if kind != "tail" else lo
            else:
                ms = list(re.finditer(rx, body))
                if len(ms) != mcount:
                    raise LostAnchor("%s: hint anchor /%s/ matches %d times, expected %d" % (spec.locator, rx, len(ms), mcount))
                mm = ms[n - 1]
                p = b_lo + (mm.start() if where == "before" else mm.end())
            add(p, p, [Seg("\n", "hint")] + payload_segments(lines_, "hint"))
        for (where, n, mcount, rx, itext) in spec.inserts:
            ms = list(re.finditer(rx, body))
            if len(ms) != mcount:
                raise LostAnchor("%s: insert anchor /%s/ matches %d times, expected %d" % (spec.locator, rx, len(ms), mcount))
            mm = ms[n - 1]
            p = b_lo + (mm.start() if where == "before" else mm.end())
            add(p, p, [Seg(" " + itext + " ", "rewrite")])
            report["rewrites"].append({"kind": "insert", "at": mm.group(0), "text": itext})
        if vacuity and spec.vac:
            p = toks[body_open][2] if kind != "tail" else lo
            add(p, p, [Seg(" proof { assert(false); } // VACUITY-PROBE\n", "vacuity")])
        # addarg (item-level first, then the unit-level `world-calls` for every call site not yet handled)
        m = src.matching()
        done_calls = set()
        skip = []
        if spec.closure_calls:
            cls0 = rustlex.find_closures(src, body_open, body_close)
            for (n, _t) in spec.closure_calls:
                if n <= len(cls0): skip.append((cls0[n - 1]["move_tok"], cls0[n - 1]["body_close"]))
        all_addargs = list(spec.addargs)
        for (rx, argtext) in (unit_calls or []):
            all_addargs.append((None, rx, argtext))
        for (cnt, rx, argtext) in all_addargs:
            cre = re.compile(rx)
            hits = 0
            k = src.next_sig(body_open)
            while k is not None and k < body_close:
                if src.is_punct(k, "(") and k not in done_calls and not any(a <= k <= b for (a, b) in skip):
                    pre = text[max(b_lo, toks[k][1] - 120):toks[k][1]]
                    mm = re.search(r"[A-Za-z_][A-Za-z0-9_:.]*$", pre)
                    if mm and cre.fullmatch(mm.group(0)):
                        done_calls.add(k)
                        close = m[k]
                        prev = src.prev_sig(close)
                        lead = "" if (prev == k or src.is_punct(prev, ",")) else ", "
                        p = toks[close][1]
                        add(p, p, [Seg(lead + argtext, "addarg")])
                        hits += 1
                k = src.next_sig(k)
            if cnt is not None and hits != cnt:
                raise LostAnchor("%s: addarg /%s/ matched %d call sites, expected %d" % (spec.locator, rx, hits, cnt))
            report["ghost_insertions"].append("addarg /%s/ %s x%d" % (rx, argtext, hits))
        # closures of the region replaced by a call text (their bodies are items of their own)
        if spec.closure_calls:
            cls = rustlex.find_closures(src, body_open, body_close)
            for (n, ctext) in spec.closure_calls:
                if n > len(cls): raise LostAnchor("%s: closure %d not found (%d closures)" % (spec.locator, n, len(cls)))
                c = cls[n - 1]
                cs, ce = toks[c["move_tok"]][1], toks[c["body_close"]][2]
                add(cs, ce, [Seg(ctext, "rewrite")])
                report["rewrites"].append({"kind": "closure-call", "closure": n, "to": ctext,
                                           "sha256_closure_text": hashlib.sha256(text[cs:ce].encode()).hexdigest()})
        # rewrites of executable text
        for (cnt, rx, repl, rkind) in spec.rewrites:
            region_lo = lo if kind == "fn" else b_lo
            region = text[region_lo:b_hi]
            ms = list(re.finditer(rx, region))
            if cnt is not None and len(ms) != cnt:
                raise LostAnchor("%s: rewrite /%s/ matched %d times, expected %d" % (spec.locator, rx, len(ms), cnt))
            for mm in ms:
                new = mm.expand(repl)
                add(region_lo + mm.start(), region_lo + mm.end(), [Seg(new, "rewrite")])
                report["rewrites"].append({"kind": rkind, "from": mm.group(0), "to": new})
    # apply edits
    edits.sort(key=lambda e: (e[0], e[3]))
    segs = []
    pos = out_start
    for (s, e, new, _o) in edits:
        if s < pos:
            raise LostAnchor("%s: overlapping edits at offset %d" % (spec.locator, s))
        if s > pos: segs.append(Seg(text[pos:s], "orig"))
        segs.extend(new)
        pos = e
    if pos < hi: segs.append(Seg(text[pos:hi], "orig"))
    if kind == "tail" and "end_off" in extra:
        segs.append(Seg("\n    " + spec.close + "\n}\n", "sig"))
    segs.append(Seg("\n", "sep"))
    report.update({
        "file": src.name,
        "lines": [src.line_of(lo), src.line_of(hi)],
        "sha256_repo_text": hashlib.sha256(orig.encode()).hexdigest(),
        "name": spec.rename or (it.name if kind in ("fn", "struct", "enum") else re.match(r"\s*fn\s+(\w+)", spec.sig).group(1)),
        "props": spec.props,
    })
    # round trip: undo the edits on the produced text and compare with the repo text
    produced = "".join(s.text for s in segs[:-1])
    undone = []
    cur = out_start
    for (s, e, new, _o) in edits:
        undone.append(text[cur:s]); undone.append(text[s:e]); cur = e
    undone.append(text[cur:hi])
    if "".join(undone) != text[out_start:hi]:
        raise LostAnchor("%s: round trip failed" % spec.locator)
    report["sha256_emitted"] = hashlib.sha256(produced.encode()).hexdigest()
    return segs, report


def assemble(unit, vacuity=False, outdir=None):
    """Assemble units/<unit>.rs -> build/<unit>[.vac].rs ; returns (path, linemap, reports, meta)"""
    outdir = outdir or os.path.join(VERIF, "build")
    os.makedirs(outdir, exist_ok=True)
    tpath = os.path.join(VERIF, "units", unit + ".rs")
    segs = []
    reports = []
    meta = {"default-props": []}
    item_of_seg = []

    def do_chunks(chunks, origin):
        for ch in chunks:
            if ch[0] == "text":
                label, props = None, None
                for line in ch[1]:
                    if "/*VACPROBE*/" in line:
                        line = line.replace("/*VACPROBE*/", "proof { assert(false); } // VACUITY-PROBE" if vacuity else "")
                    if "/*VACPROBE-PROOF*/" in line:
                        line = line.replace("/*VACPROBE-PROOF*/", "assert(false); // VACUITY-PROBE" if vacuity else "")
                    t = parse_tag(line)
                    if t is not None: label, props = t
                    elif line.strip() == "" or line.startswith("}"): label, props = None, None   # a literal tag's scope ends with its item
                    segs.append(Seg(line + "\n", "literal", label, props)); item_of_seg.append(None)
            elif ch[0] == "include":
                ip = os.path.join(VERIF, ch[1])
                if ch[1].endswith(".spec"):
                    # shared contract text used as an ASSUMED contract here: labels are dropped (no obligation arises)
                    with open(ip) as sf:
                        for line in sf.read().split("\n"):
                            if not line.strip(): continue
                            line = re.sub(r"//#.*$", "// (assumed here; proved in the unit that extracts this function)", line)
                            segs.append(Seg(line + "\n", "literal", None, None)); item_of_seg.append(None)
                else:
                    do_chunks(parse_template(ip), ch[1])
            elif ch[0] == "meta":
                if ch[1] == "default-props": meta["default-props"] = ch[2].split()
                if ch[1] == "world-calls":
                    rx, text = split_regex_directive(ch[2])
                    meta.setdefault("world-calls", []).append((rx, text))
                if ch[1] == "unit-rewrite":
                    # a rewrite applied to every function-like item of the unit (any number of matches, also none)
                    rx, tail = split_regex_directive(ch[2])
                    repl = tail[2:].strip() if tail.startswith("=>") else tail
                    if repl == "<empty>": repl = ""
                    meta.setdefault("unit-rewrites", []).append((rx, repl))
            elif ch[0] == "item":
                for (rx, repl) in meta.get("unit-rewrites", []):
                    if not any(r[1] == rx for r in ch[1].rewrites): ch[1].rewrites.append((None, rx, repl, "rewrite"))
                s, rep = build_item(ch[1], vacuity=vacuity, unit_calls=meta.get("world-calls"))
                rep["template_line"] = ch[1].lineno
                rep["has_spec"] = ch[1].spec is not None
                rep["vac"] = ch[1].vac and rep["kind"] in ("fn", "closure", "block", "tail")
                idx = len(reports)
                reports.append(rep)
                for x in s:
                    segs.append(x); item_of_seg.append(idx)

    do_chunks(parse_template(tpath), tpath)
    # line map
    out = []
    linemap = {}   # line -> {"item": idx|None, "label":..., "props":..., "kind":...}
    line = 1
    for sg, idx in zip(segs, item_of_seg):
        parts = sg.text.split("\n")
        for pi, part in enumerate(parts):
            if pi > 0: line += 1
            if part == "" and pi == len(parts) - 1 and pi > 0: continue
            ent = linemap.setdefault(line, {"item": None, "label": None, "props": None, "kind": None})
            if idx is not None: ent["item"] = idx
            if sg.kind not in ("orig", "sep"): ent["kind"] = sg.kind
            elif ent["kind"] is None: ent["kind"] = sg.kind
            if sg.label is not None or sg.props is not None:
                ent["label"] = sg.label; ent["props"] = sg.props
        out.append(sg.text)
    path = os.path.join(outdir, unit + ("_vac" if vacuity else "") + ".rs")
    with open(path, "w") as f: f.write("".join(out))
    return path, linemap, reports, meta


if __name__ == "__main__":
    u = sys.argv[1]
    p, lm, reps, meta = assemble(u, vacuity=("--vac" in sys.argv))
    print(p)
    for r in reps:
        print(" ", r["name"], r["file"], r["lines"], len(r["rewrites"]), "rewrites")
