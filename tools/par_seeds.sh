#!/bin/sh
# regression over every kept seeded change, N at a time: each worker has its OWN copy of /repo's tree (with its .git) and its own copy
# of /verif (own build/ and cache), applies one change to its copy, runs the check of the property it breaks with RULER_REPO pointing
# at the copy, and undoes the change.  (tools/all_seeds.sh does the same one at a time on /repo itself; single changes are tried on
# /repo with tools/try_seed.sh.)  The copies live under $PAR (default /tmp/par) and are removed at the end.
# usage: par_seeds.sh [N] > log
N=${1:-4}; PAR=${PAR:-/tmp/par}
git -C /repo status --short | grep -q . && { echo "/repo not clean"; exit 2; }
rm -rf $PAR; mkdir -p $PAR
ls -d /verif/seeded/*/ > $PAR/all.txt
k=0; while [ $k -lt $N ]; do
  cp -r /repo $PAR/repo$k
  mkdir $PAR/verif$k; rsync -a --exclude .git --exclude replay --exclude build /verif/ $PAR/verif$k/
  awk -v n=$N -v k=$k 'NR % n == k' $PAR/all.txt > $PAR/list$k.txt
  ( for d in $(cat $PAR/list$k.txt); do
      id=$(basename $d)
      python3 -c "import json,sys;m=json.load(open('$d/meta.json'));sys.exit(0 if (m.get('obsolete') or m.get('outside_model')) else 1)" && { echo "$id: obsolete or outside the stated model (see meta.json), skipped"; continue; }
      prop=$(python3 -c "import json;m=json.load(open('$d/meta.json'));print(m.get('detected_under') or m['breaks_property'])")
      git -C $PAR/repo$k apply $d/patch.diff || { echo "$id: patch does not apply"; continue; }
      out=$(RULER_REPO=$PAR/repo$k $PAR/verif$k/check $prop 2>&1); rc=$?
      git -C $PAR/repo$k checkout -- . ; git -C $PAR/repo$k clean -fdq -e target
      [ $rc -eq 1 ] || { mkdir -p ${PAR}_logs; echo "$out" > ${PAR}_logs/$id.txt; }     # keep the full output of anything but a detection
      v=$(echo "$out" | grep -c "^VIOLATION"); first=$(echo "$out" | grep -E "^(VIOLATION|UNDECIDED)" | head -1 | cut -c1-170)
      echo "$id prop=$prop exit=$rc violations=$v :: $first"
    done > $PAR/out$k.log 2>&1 ) &
  k=$((k+1))
done
wait
cat $PAR/out*.log | sort
rm -rf $PAR
