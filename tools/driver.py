#!/usr/bin/env python3
"""check driver: decide one property by re-extracting the real functions and running Verus.

exit 0  property held on every obligation generated from /repo's current sources
        (KNOWN-FINDING lines are printed for listed findings that were reproduced)
exit 1  after `VIOLATION property=<id> replay=<path> [no-failing-input-found]` lines
exit 2  undecided: lost anchor, construct Verus does not accept, resource limit, vacuous
        precondition, unregistered assumption -- never an alarm
"""
import concurrent.futures, hashlib, json, os, re, subprocess, sys, time

HERE = os.path.dirname(os.path.abspath(__file__))
VERIF = os.path.dirname(HERE)
sys.path.insert(0, HERE)
import assemble
from assemble import LostAnchor

CONFIG = json.load(open(os.path.join(VERIF, "config.json")))
VERUS = os.environ.get("VERUS", "verus")
CACHE_DIR = os.path.join(VERIF, ".cache")
BUILD_DIR = os.path.join(VERIF, "build")


def sh(cmd, **kw):
    return subprocess.run(cmd, stdout=subprocess.PIPE, stderr=subprocess.PIPE, text=True, **kw)


def verus_version():
    r = sh([VERUS, "--version"])
    m = re.search(r"Version:\s*(\S+)", r.stdout)
    return m.group(1) if m else "unknown"


_VV = None


def split_clauses(text):
    """count top-level comma separated clauses in a requires/ensures/invariant payload"""
    # strip comments
    text = re.sub(r"//[^\n]*", "", text)
    n = 0
    depth = 0
    in_bar = False
    cur = ""
    i = 0
    clauses = []
    while i < len(text):
        c = text[i]
        if c in "([{": depth += 1
        elif c in ")]}": depth -= 1
        elif c == "|" and depth >= 0:
            # closure / quantifier binder bars: `forall|i: int, j: int|` ; `||` and `|||` are operators
            if text.startswith("|||", i): cur += "|||"; i += 3; continue
            if text.startswith("||", i): cur += "||"; i += 2; continue
            in_bar = not in_bar
        if c == "," and depth == 0 and not in_bar:
            if cur.strip(): clauses.append(cur.strip())
            cur = ""
        else:
            cur += c
        i += 1
    if cur.strip(): clauses.append(cur.strip())
    return clauses


def count_spec(lines):
    """returns dict kind -> number of clauses for a spec payload (requires/ensures/decreases/invariant)"""
    text = "\n".join(lines)
    text_nc = re.sub(r"//[^\n]*", "", text)
    out = {"requires": 0, "ensures": 0, "invariant": 0, "decreases": 0}
    # split by keywords at line starts
    parts = re.split(r"\b(requires|ensures|invariant|decreases|recommends)\b", text_nc)
    i = 1
    while i < len(parts):
        kw, body = parts[i], parts[i + 1]
        if kw in out: out[kw] += len(split_clauses(body))
        i += 2
    return out


def run_verus(path, rlimit=None, extra=None):
    cmd = [VERUS, path, "--output-json", "--time", "--multiple-errors", "20", "--triggers-mode", "silent"]
    if rlimit: cmd += ["--rlimit", str(rlimit)]
    if extra: cmd += extra
    cmd += ["--", "--error-format=json"]
    t0 = time.time()
    r = sh(cmd, cwd=os.path.dirname(path))
    wall = time.time() - t0
    diags = []
    raw_err = []
    for line in r.stderr.split("\n"):
        line = line.strip()
        if not line: continue
        try:
            d = json.loads(line)
            if isinstance(d, dict) and d.get("$message_type") == "diagnostic": diags.append(d)
            else: raw_err.append(line)
        except Exception:
            raw_err.append(line)
    try:
        out = json.loads(r.stdout)
    except Exception:
        out = None
    return {"cmd": " ".join(cmd), "returncode": r.returncode, "diags": diags, "raw_err": raw_err[:50], "out": out, "wall_s": wall}


VERIF_FAIL_PATTERNS = [
    "postcondition not satisfied", "precondition not satisfied", "invariant not satisfied",
    "assertion failed", "decreases not satisfied", "possible arithmetic underflow/overflow",
    "possible division by zero", "unreachable", "recommendation not met", "index out of bounds",
    "constructed value may fail to meet its declared type invariant", "could not show termination",
    "possible bit shift underflow/overflow", "function body check", "loop invariant",
    "cannot show invariant", "may be out of bounds", "arithmetic",
]
NOTE_ONLY = ["not all errors may have been reported", "aborting due to", "while loop:"]


def classify(res):
    """-> dict(status: ok|fail|undecided, failures:[...], reason)"""
    out = res["out"]
    errs = [d for d in res["diags"] if d.get("level") == "error" and not any(n in d["message"] for n in NOTE_ONLY)]
    if out is None:
        return {"status": "undecided", "reason": "verus produced no JSON: " + " | ".join(res["raw_err"][:3]), "failures": []}
    vr = out.get("verification-results", {})
    if vr.get("encountered-vir-error") or (vr.get("encountered-error") and vr.get("verified", 0) == 0 and vr.get("errors", 0) == 0):
        msg = errs[0]["message"] if errs else "compile error"
        return {"status": "undecided", "reason": "rustc/VIR error (construct not accepted or extraction broke): " + msg,
                "failures": [], "compile_errors": [e.get("rendered", e["message"])[:600] for e in errs[:5]]}
    failures = []
    rlimit_hit = False
    for d in errs:
        msg = d["message"]
        if "rlimit" in msg.lower() or "resource limit" in msg.lower() or "timed out" in msg.lower():
            rlimit_hit = True
            failures.append({"kind": "rlimit", "message": msg, "spans": d["spans"], "rendered": d.get("rendered", "")})
            continue
        failures.append({"kind": "verification", "message": msg, "spans": d["spans"], "rendered": d.get("rendered", "")})
    if vr.get("success"):
        return {"status": "ok", "failures": [], "verified": vr.get("verified", 0)}
    if not failures:
        return {"status": "undecided", "reason": "verus failed without diagnostics", "failures": []}
    return {"status": "fail", "failures": failures, "rlimit": rlimit_hit, "verified": vr.get("verified", 0), "errors": vr.get("errors", 0)}


def close_props(reports, linemap, meta, text):
    """Verification is modular: a property that counts a function also depends on the contracts of the functions it calls.  The
    function-level `props` of every extracted function is therefore closed under 'is called by' inside the unit (labelled clauses
    keep their own lists).  The own list is kept as props_own."""
    fn_kinds = ("fn", "closure", "block", "tail")
    default = meta.get("default-props", [])
    lines = text.split("\n")
    body = {}
    for ln, e in linemap.items():
        i = e.get("item")
        if i is None: continue
        k = int(ln)
        if 1 <= k <= len(lines): body.setdefault(i, []).append(lines[k - 1])
    names = {}
    for i, r in enumerate(reports):
        if r["kind"] in fn_kinds:
            nm = r["name"]
            m = re.search(r"\bfn\s+(\w+)", r.get("locator", "")) if r["kind"] != "fn" else None
            names[i] = nm
            r["props_own"] = list(r.get("props") or default)
    # lifted closures / tails are emitted under the name given in their `sig`: find it in the emitted text
    for i in list(names):
        if reports[i]["kind"] != "fn":
            m = re.search(r"\bfn\s+(\w+)\s*[<(]", "\n".join(body.get(i, [])))
            if m: names[i] = m.group(1)
    calls = {i: set() for i in names}
    for i in names:
        txt = re.sub(r"//[^\n]*", "", "\n".join(body.get(i, [])))
        for j, nm in names.items():
            if j != i and re.search(r"(?<![\w])%s\s*(::<[^>]*>)?\(" % re.escape(nm), txt): calls[i].add(j)
    cur = {i: set(reports[i]["props_own"]) for i in names}
    changed = True
    while changed:
        changed = False
        for i in names:
            for j in calls[i]:
                if not cur[i] <= cur[j]:
                    cur[j] |= cur[i]; changed = True
    for i in names:
        order = sorted(cur[i])
        reports[i]["props"] = order
        reports[i]["props_inherited"] = sorted(cur[i] - set(reports[i]["props_own"]))


def unit_result(unit, tier, vacuity=False, use_cache=True):
    """assemble + verify one unit; returns a dict (never raises)"""
    global _VV
    if _VV is None: _VV = verus_version()
    try:
        path, linemap, reports, meta = assemble.assemble(unit, vacuity=vacuity, outdir=BUILD_DIR)
    except LostAnchor as e:
        return {"unit": unit, "status": "undecided", "reason": "lost anchor: %s" % e, "failures": [], "reports": [], "linemap": {}, "meta": {}}
    except Exception as e:
        return {"unit": unit, "status": "undecided", "reason": "extraction error: %r" % e, "failures": [], "reports": [], "linemap": {}, "meta": {}}
    text = open(path).read()
    key = hashlib.sha256((text + "\0" + _VV + "\0v3").encode()).hexdigest()
    cpath = os.path.join(CACHE_DIR, key + ".json")
    cached = False
    res = None
    if use_cache and os.path.exists(cpath):
        try:
            res = json.load(open(cpath)); cached = True
        except Exception:
            res = None
    if res is None:
        res = run_verus(path)
        cl = classify(res)
        if cl["status"] == "fail" and cl.get("rlimit"):
            res2 = run_verus(path, rlimit=40)
            cl2 = classify(res2)
            res, cl = res2, cl2
            if cl["status"] == "fail" and any(f["kind"] == "rlimit" for f in cl["failures"]):
                cl = {"status": "undecided", "reason": "resource limit exceeded after retry", "failures": cl["failures"]}
        res["classified"] = cl
        os.makedirs(CACHE_DIR, exist_ok=True)
        slim = {k: res[k] for k in ("cmd", "returncode", "wall_s", "classified")}
        slim["times"] = (res["out"] or {}).get("times-ms", {})
        tmp = cpath + ".tmp%d" % os.getpid()
        with open(tmp, "w") as f: json.dump(slim, f)
        os.replace(tmp, cpath)
        res = slim
    cl = res["classified"]
    fb = []
    try:
        for m in res["times"]["smt"]["smt-run-module-times"]:
            fb += m.get("function-breakdown", [])
    except Exception:
        pass
    close_props(reports, linemap, meta, text)
    return {"unit": unit, "status": cl["status"], "reason": cl.get("reason"), "failures": cl.get("failures", []),
            "compile_errors": cl.get("compile_errors"), "verified": cl.get("verified"),
            "reports": reports, "linemap": linemap, "meta": meta, "path": path, "cached": cached, "key": key,
            "cmd": res["cmd"], "wall_s": res["wall_s"], "function_breakdown": fb,
            "smt_ms": (res.get("times") or {}).get("smt", {}).get("total"), "total_ms": (res.get("times") or {}).get("total")}


def locate_failure(ur, f):
    """map a failure to (item report|None, label, props, role)"""
    lm = ur["linemap"]
    fname = os.path.basename(ur["path"])
    prim = [s for s in f["spans"] if s.get("is_primary") and os.path.basename(s["file_name"]) == fname]
    sec = [s for s in f["spans"] if not s.get("is_primary") and os.path.basename(s["file_name"]) == fname]
    def ent(s):
        for ln in range(s["line_start"], s["line_end"] + 1):
            e = lm.get(ln) or lm.get(str(ln))
            if e and (e.get("label") or e.get("props")): return e, ln
        e = lm.get(s["line_start"]) or lm.get(str(s["line_start"])) or {}
        return e, s["line_start"]
    where = None
    # precondition failures: the clause is the secondary span ("failed precondition")
    if "precondition" in f["message"]:
        for s in sec:
            if (s.get("label") or "").startswith("failed precondition"):
                e, ln = ent(s)
                if e.get("label") or e.get("props"):
                    where = (e, ln, "callee-requires")
                    break
    if where is None and prim:
        e, ln = ent(prim[0]); where = (e, ln, "primary")
    if where is None and sec:
        e, ln = ent(sec[0]); where = (e, ln, "secondary")
    if where is None:
        return None, None, None, "unmapped", None
    e, ln, role = where
    # the function the failure occurred in = item of primary span
    fn_item = None
    if prim:
        pe, _ = ent(prim[0])
        if pe.get("item") is not None: fn_item = ur["reports"][pe["item"]]
    item = ur["reports"][e["item"]] if e.get("item") is not None else None
    props = e.get("props")
    if props is None and item is not None: props = item.get("props")
    if props is None and fn_item is not None: props = fn_item.get("props")
    return (fn_item or item), e.get("label"), props, role, ln


SCAN_PATTERNS = [
    ("external_body", re.compile(r"#\[verifier::external_body\]")),
    ("assume_specification", re.compile(r"\bassume_specification\b")),
    ("uninterp", re.compile(r"\buninterp\s+spec\s+fn\s+(\w+)")),
    ("external", re.compile(r"#\[verifier::external\]")),
    ("assume", re.compile(r"\bassume\s*\(")),
    ("admit", re.compile(r"\badmit\s*\(")),
    ("exec_allows_no_decreases", re.compile(r"exec_allows_no_decreases_clause")),
]


def scan_assumptions(path):
    """list every trusted / assumed item of an assembled file"""
    out = []
    lines = open(path).read().split("\n")
    forbidden = []
    for i, line in enumerate(lines):
        code = line.split("//")[0]
        for name, rx in SCAN_PATTERNS:
            if rx.search(code):
                # describe by the next fn/proof fn name
                desc = code.strip()
                for j in range(i, min(i + 6, len(lines))):
                    m = re.search(r"\b(?:proof\s+|spec\s+)?fn\s+(\w+)", lines[j])
                    if m: desc = m.group(1); break
                    m = re.search(r"assume_specification[^\[]*\[([^\]]+)\]", lines[j])
                    if m: desc = m.group(1).strip(); break
                out.append("%s: %s (line %d)" % (name, desc, i + 1))
                if name in ("assume", "admit"): forbidden.append((i + 1, code.strip()))
    return out, forbidden


def check_system_trait(path):
    """the System methods the assumed contract names must exist in src/system/mod.rs with the same
    non-ghost parameters; returns list of problems"""
    problems = []
    try:
        src = assemble.load_src("system/mod.rs")
    except LostAnchor as e:
        return ["system/mod.rs: %s" % e]
    real = {}
    m = re.search(r"pub trait System[^{]*\{(.*?)\n\}", src.text, re.S)
    if not m: return ["trait System not found in system/mod.rs"]
    for mm in re.finditer(r"fn\s+(\w+)\s*\(([^)]*)\)\s*(?:->\s*([^;]+))?;", m.group(1)):
        real[mm.group(1)] = (re.sub(r"\s+", "", mm.group(2)), re.sub(r"\s+", "", mm.group(3) or ""))
    text = open(path).read()
    if re.search(r"\ntrait System[^{\n]*\{\s*\}", text): return []
    m = re.search(r"\ntrait System[^{]*\{(.*?)\n\}", text, re.S)
    if not m: return []
    for mm in re.finditer(r"fn\s+(\w+)\s*\(([^;{]*?)\)\s*->\s*\((\w+)\s*:\s*([^\n]+?)\)\s*\n", m.group(1)):
        name = mm.group(1)
        params = re.sub(r",?\s*Tracked\(\w+\)\s*:\s*Tracked<[^>]*>", "", mm.group(2))
        params = re.sub(r"\s+", "", params)
        ret = re.sub(r"\s+", "", mm.group(4))
        if name not in real:
            problems.append("assumed System::%s not in src/system/mod.rs" % name); continue
        rp, rr = real[name]
        rr = rr.replace("Self::File", "SystemType::File")
        if rp != params: problems.append("System::%s parameters differ: repo `%s` vs assumed `%s`" % (name, rp, params))
        if rr.replace("Self::", "") != ret.replace("Self::", "") and not (name == "open" or name == "create_file"):
            problems.append("System::%s return type differs: repo `%s` vs assumed `%s`" % (name, rr, ret))
    return problems


def obligations_for(ur, prop):
    """count clauses serving `prop` in this unit (measured from the assembled template + extraction)"""
    total = 0
    per_fn = []
    tpath = os.path.join(VERIF, "units", ur["unit"] + ".rs")
    # re-parse the template to get the spec payloads
    chunks = assemble.parse_template(tpath)
    def walk(chs):
        for ch in chs:
            if ch[0] == "include":
                yield from walk(assemble.parse_template(os.path.join(VERIF, ch[1])))
            else:
                yield ch
    default_props = ur["meta"].get("default-props", [])
    for ch in walk(chunks):
        if ch[0] != "item": continue
        sp = ch[1]
        if sp.spec is None and not sp.loops: continue
        iprops = sp.props or default_props
        for r in ur["reports"]:
            if r.get("locator") == sp.locator and r.get("props"): iprops = r["props"]
        n = 0
        groups = []
        if sp.spec: groups.append(sp.spec)
        for k, lp in sp.loops.items():
            if lp["inv"]: groups.append(lp["inv"])
        for g in groups:
            # walk lines, tracking labels
            label, props = None, None
            buf = []
            lastkw = ["ensures"]
            def flush(buf, props):
                if not buf: return 0
                txt = "\n".join(buf)
                if not re.match(r"\s*(requires|ensures|invariant|decreases)\b", re.sub(r"//[^\n]*", "", txt).lstrip()):
                    buf = [lastkw[0]] + buf
                kws = re.findall(r"\b(requires|ensures|invariant|decreases)\b", re.sub(r"//[^\n]*", "", "\n".join(buf)))
                if kws: lastkw[0] = kws[-1]
                c = count_spec(buf)
                serves = (props if props is not None else iprops)
                if prop in serves:
                    return c["ensures"] + c["invariant"] + c["decreases"] + c["requires"]
                return 0
            curprops = None
            for line in g:
                t = assemble.parse_tag(line)
                if t is not None:
                    n += flush(buf, curprops); buf = []
                    # a tag on a line applies to that line onward
                    curprops = t[1]
                buf.append(line)
            n += flush(buf, curprops)
        if prop in iprops: n += 1   # the body's native safety / termination check
        if n:
            total += n
            per_fn.append((sp.locator, n))
    # labelled literal lemmas / clients
    lit = 0
    for ln, e in ur["linemap"].items():
        if e.get("kind") == "literal" and e.get("props") and prop in e["props"]: lit += 1
    return total, per_fn, lit


def run_bounded(b, tier, use_cache):
    """run a BOUNDED stand-in against the real code (scratch copy of /repo); returns dict"""
    n = b["thorough"] if tier == "thorough" else b["quick"]
    h = hashlib.sha256()
    for root, _d, files in sorted(os.walk(os.path.join(os.environ.get("RULER_REPO", "/repo"), "src"))):
        for fn in sorted(files):
            if fn.endswith(".rs"):
                h.update(fn.encode()); h.update(open(os.path.join(root, fn), "rb").read())
    for fn in b.get("files", []): h.update(open(os.path.join(VERIF, fn), "rb").read())
    h.update(str(n).encode())
    key = "bounded_" + b.get("cache_name", b["name"]) + "_" + h.hexdigest()
    cp = os.path.join(CACHE_DIR, key + ".json")
    raw = None
    if use_cache and os.path.exists(cp):
        try:
            raw = json.load(open(cp)); raw["cached"] = True
            if "out" not in raw: raw = None
        except Exception: raw = None
    if raw is None:
        t0 = time.time()
        cmd = [x.replace("{n}", str(n)) for x in b["cmd"]]
        pr = sh(cmd, cwd=VERIF)
        raw = {"out": pr.stdout, "err": pr.stderr[-500:], "cmd": " ".join(cmd), "wall_s": round(time.time() - t0, 1), "cached": False}
        os.makedirs(CACHE_DIR, exist_ok=True)
        json.dump(raw, open(cp, "w"))
    out = raw["out"]
    want = b.get("oracles")
    def mine(l):
        if not want: return True
        parts = l.split()
        return len(parts) > 1 and parts[1] in want
    summ = [l for l in out.split("\n") if l.startswith("SUMMARY") and mine(l)]
    wit = [l for l in out.split("\n") if l.startswith("WITNESS") and mine(l)]
    complete = bool(summ) and (not want or len(summ) == len(want))
    ok = complete and not wit and all(" disagreements=0" in (x + " ") for x in summ)
    return {"name": b["name"], "bound": ("%s <= %d" % (b["bound_what"], n)) if "{n}" in " ".join(b["cmd"]) else b["bound_what"], "cmd": raw["cmd"], "wall_s": raw["wall_s"],
            "summary": " | ".join(summ) if summ else None, "witnesses": wit[:40], "ok": ok,
            "harness_error": None if complete else (out[-1500:] + raw.get("err", "")), "cached": raw["cached"]}


def decide(prop, tier="quick", seed=0):
    t0 = time.time()
    pc = CONFIG["properties"].get(prop)
    if pc is None:
        print("property %s is not claimed (see MANIFEST.json not_applicable)" % prop); return 2
    units = pc["units"]
    use_cache = (tier == "quick") and not os.environ.get("VERIF_NOCACHE")
    results = {}
    with concurrent.futures.ThreadPoolExecutor(max_workers=8) as ex:
        futs = {}
        for u in units:
            futs[(u, False)] = ex.submit(unit_result, u, tier, False, use_cache)
            futs[(u, True)] = ex.submit(unit_result, u, tier, True, use_cache)
        for k, fu in futs.items():
            results[k] = fu.result()
    known = json.load(open(os.path.join(VERIF, "known_findings.json")))["findings"]
    undecided = []
    violations = []
    known_hits = []
    evidence_units = []
    obligations = 0
    failed_obl = 0
    fn_list = []
    assumptions = []
    trusted = set(CONFIG.get("trusted_base_common", []))
    samples = []
    smt_ms = 0
    for u in units:
        ur = results[(u, False)]
        uv = results[(u, True)]
        info = {"unit": u, "status": ur["status"], "cached": ur.get("cached"), "verus_cmd": ur.get("cmd"), "wall_s": ur.get("wall_s"),
                "smt_ms": ur.get("smt_ms"), "items_verified": ur.get("verified")}
        if ur["status"] == "undecided":
            undecided.append("%s: %s" % (u, ur["reason"]))
            if ur.get("compile_errors"): info["compile_errors"] = ur["compile_errors"]
            evidence_units.append(info); continue
        # assumption scan + forbidden constructs
        scan, forbidden = scan_assumptions(ur["path"])
        if forbidden:
            undecided.append("%s: assume/admit present in assembled file: %s" % (u, forbidden[:3]))
        for a in scan: assumptions.append("%s: %s" % (u, a))
        probs = check_system_trait(ur["path"])
        if probs: undecided.append("%s: assumed System contract out of date: %s" % (u, "; ".join(probs)))
        # vacuity twin: every probe must fail
        if uv["status"] == "undecided":
            undecided.append("%s (vacuity twin): %s" % (u, uv["reason"]))
        else:
            probe_lines = set()
            for f in uv["failures"]:
                for s in f["spans"]:
                    for t in s.get("text", []):
                        if "VACUITY-PROBE" in t.get("text", ""): probe_lines.add(s["line_start"])
            expected = [ln for ln, line in enumerate(open(uv["path"]).read().split("\n"), 1) if "VACUITY-PROBE" in line]
            missing = [ln for ln in expected if ln not in probe_lines]
            info["vacuity_probes"] = len(expected); info["vacuity_probes_failed_as_required"] = len(expected) - len(missing)
            if missing:
                undecided.append("%s: vacuity probe(s) at line(s) %s of %s verified -- contradictory precondition" % (u, missing[:5], os.path.basename(uv["path"])))
        if tier == "thorough" and ur["status"] == "ok":
            # proof stability: two more solver seeds; a disagreement means an unstable proof (undecided), not a violation
            for sd in (11, 23):
                r2 = classify(run_verus(ur["path"], extra=["--smt-option", "smt.random_seed=%d" % sd]))
                info.setdefault("extra_seeds", []).append({"seed": sd, "status": r2["status"]})
                if r2["status"] != "ok":
                    undecided.append("%s: proof unstable under solver seed %d (%s)" % (u, sd, r2.get("reason") or "verification failure"))
        n, per_fn, lit = obligations_for(ur, prop)
        obligations += n + lit
        fn_list += [{"unit": u, "item": loc, "clauses": c} for loc, c in per_fn]
        smt_ms += ur.get("smt_ms") or 0
        for rep in ur["reports"]:
            if rep["kind"] in ("fn", "closure", "block", "tail") and prop in (rep.get("props") or ur["meta"].get("default-props", [])):
                if len(samples) < 6:
                    samples.append({"unit": u, "function": rep["name"], "repo": "%s:%d-%d" % (rep["file"], rep["lines"][0], rep["lines"][1]),
                                    "sha256_repo_text": rep["sha256_repo_text"][:16], "rewrites": rep["rewrites"][:4]})
        # failures
        if ur["status"] == "fail":
            for f in ur["failures"]:
                item, label, props, role, ln = locate_failure(ur, f)
                if props is None: props = ur["meta"].get("default-props", [])
                if prop not in props: continue
                fname = item["name"] if item else "(prelude/lemma)"
                if f["kind"] == "rlimit":
                    undecided.append("%s: resource limit in %s" % (u, fname)); continue
                failed_obl += 1
                ob = label or ("%s:%s" % (fname, f["message"].replace(" ", "-")))
                hit = None
                for k in known:
                    if k["property"] == prop and k.get("status") == "known" and k["obligation"] == ob and k.get("function", fname) == fname:
                        hit = k
                if hit:
                    known_hits.append((hit, f)); continue
                violations.append({"unit": u, "function": fname, "obligation": ob, "message": f["message"], "line": ln,
                                   "rendered": f["rendered"], "item": item})
        evidence_units.append(info)
    # ---------------- bounded stand-ins (labelled bounded; never counted as proved)
    bounded_results = []
    bounded_violations = []
    for b in pc.get("bounded_runs", []):
        # bounded runs are cached in every tier: the key is the content of /repo/src, of the witness files and of the bound, so a
        # cached result is the result of this very tree (VERIF_NOCACHE=1 forces a re-run)
        br = run_bounded(b, tier, not os.environ.get("VERIF_NOCACHE"))
        bounded_results.append({k: br[k] for k in ("name", "bound", "cmd", "wall_s", "summary", "cached")} | {"exhaustive_within_bound": True, "what": b["what"]})
        if br["harness_error"]:
            undecided.append("bounded stand-in %s did not run: %s" % (b["name"], br["harness_error"][-300:]))
        elif not br["ok"]:
            hit = None
            for k in known:
                if k["property"] == prop and k.get("status") == "known" and k["obligation"] == b["name"]: hit = k
            if hit: known_hits.append((hit, None))
            else: bounded_violations.append((b, br))
    wall = time.time() - t0
    # ---------------- report
    rc = 0
    for b, br in bounded_violations:
        os.makedirs(os.path.join(VERIF, "replay"), exist_ok=True)
        h = hashlib.sha256("\n".join(br["witnesses"]).encode()).hexdigest()[:10]
        rp = os.path.join(VERIF, "replay", "%s-%s-%s.json" % (prop, b["name"], h))
        with open(rp, "w") as fo:
            json.dump({"property": prop, "obligation": b["name"], "kind": "bounded stand-in on the real code (not a proof)", "bound": br["bound"],
                       "failing_inputs": br["witnesses"], "summary": br["summary"], "rerun": br["cmd"]}, fo, indent=1)
        print("VIOLATION property=%s replay=%s obligation=%s failing-input=%s" % (prop, rp, b["name"], (br["witnesses"][0] if br["witnesses"] else "see replay")[:160]))
        rc = 1
    os.makedirs(os.path.join(VERIF, "replay"), exist_ok=True)
    for k, f in known_hits:
        print("KNOWN-FINDING: property=%s %s" % (prop, k["what"]))
    for v in violations:
        h = hashlib.sha256((v["obligation"] + v["function"] + v["rendered"]).encode()).hexdigest()[:10]
        rp = os.path.join(VERIF, "replay", "%s-%s-%s.json" % (prop, re.sub(r"[^A-Za-z0-9_.-]", "_", v["obligation"])[:60], h))
        with open(rp, "w") as fo:
            json.dump({"property": prop, "obligation": v["obligation"], "unit": v["unit"], "repo_function": v["function"],
                       "extraction": v["item"], "verus_message": v["message"], "verus_diagnostic": v["rendered"],
                       "assembled_file": "build/%s.rs" % v["unit"], "assembled_line": v["line"],
                       "counterexample": None,
                       "note": "Verus gives no counterexample; the failed obligation is named above. Re-run: ./check %s" % prop}, fo, indent=1)
        print("VIOLATION property=%s replay=%s obligation=%s function=%s no-failing-input-found" % (prop, rp, v["obligation"], v["function"]))
        rc = 1
    if undecided and rc == 0:
        for uu in undecided: print("UNDECIDED property=%s %s" % (prop, uu))
        rc = 2
    # evidence
    discharged = max(obligations - failed_obl, 0)
    ev = {
        "property_id": prop, "tier": tier, "seed": seed, "level": "proof",
        "coverage": {
            "obligations": obligations, "discharged": discharged if rc != 2 else 0,
            "checker_cmd": "; ".join(sorted(set(i["verus_cmd"] for i in evidence_units if i.get("verus_cmd")))),
            "trusted_base": sorted(trusted | set(pc.get("trusted", []))),
            "back_end": "Verus %s (Z3)" % _VV,
            "units": evidence_units,
            "functions_under_contract": fn_list,
            "samples": samples,
            "solver_time_ms": smt_ms,
            "obligation_counting_rule": "per extracted function serving this property: number of requires/ensures/invariant/decreases clauses labelled with the property (or unlabelled in a function that serves it -- by its own property list, or because a function that serves it calls it inside the unit: the lists are closed under 'is called by') + 1 for Verus' native body check (index bounds, unwrap, overflow, panic!, termination); plus labelled lemma/client lines. A clause counts as discharged when Verus reports no failure mapped to it.",
            "not_covered": pc.get("not_covered", []),
            "bounded_parts": bounded_results,
            "known_findings_reproduced": [k["what"] for k, _ in known_hits],
            "undecided": undecided,
        },
        "assumptions": sorted(set(assumptions)) + pc.get("assumptions", []),
        "wall_s": round(wall, 2),
        "violations": len(violations) + len(bounded_violations),
    }
    if rc == 2 or obligations == 0 or discharged == 0:
        # nothing was decided by this run: do not present it as proof-level evidence
        ev["level"] = "other"
        ev["coverage"]["explanation"] = "this run decided nothing (undecided or every obligation failed): " + "; ".join(undecided or ["see violations"])
    os.makedirs(os.path.join(VERIF, "evidence"), exist_ok=True)
    with open(os.path.join(VERIF, "evidence", prop + ".json"), "w") as fo:
        json.dump(ev, fo, indent=1)
    if rc == 0:
        print("OK property=%s obligations=%d discharged=%d units=%s wall=%.1fs" % (prop, obligations, discharged, ",".join(units), wall))
    return rc


def main():
    args = sys.argv[1:]
    if not args:
        print(__doc__); return 2
    prop = args[0]
    tier = os.environ.get("VERIF_TIER", "quick")
    if "--tier" in args: tier = args[args.index("--tier") + 1]
    seed = int(os.environ.get("VERIF_SEED", "0") or 0)
    if "--replay" in args:
        rp = args[args.index("--replay") + 1]
        d = json.load(open(rp))
        print("replaying obligation %s of %s (re-verifying unit %s on the current tree)" % (d["obligation"], d["repo_function"], d["unit"]))
    return decide(prop, tier, seed)


if __name__ == "__main__":
    sys.exit(main())
