#!/usr/bin/env python3
"""BOUNDED stand-ins on the real code (labelled bounded, never counted as proved): build a scratch copy of /repo's working
tree with a witness module from /verif/witness added as a test module, run the named tests, print WITNESS / SUMMARY lines.
usage: run_witness.py <witness-file> <test-name-filter> [ENV=VALUE ...]"""
import os, shutil, subprocess, sys, tempfile
VERIF = os.path.dirname(os.path.dirname(os.path.abspath(__file__)))
REPO = os.environ.get("RULER_REPO", "/repo")   # (the registered commands never set it: they work on /repo; tools/par_seeds.sh does)
def main():
    wfile, flt = sys.argv[1], sys.argv[2]
    extra = dict(a.split("=", 1) for a in sys.argv[3:])
    modname = "verif_" + os.path.splitext(os.path.basename(wfile))[0]
    scratch = tempfile.mkdtemp(prefix="ruler_wit_", dir=os.environ.get("TMPDIR", "/tmp"))
    try:
        for item in ("src", "Cargo.toml", "Cargo.lock"):
            s = os.path.join(REPO, item); d = os.path.join(scratch, item)
            if os.path.isdir(s): shutil.copytree(s, d)
            else: shutil.copy(s, d)
        if os.path.isdir(os.path.join(REPO, "target")):
            subprocess.run(["cp", "-r", os.path.join(REPO, "target"), os.path.join(scratch, "target")], check=False)
        shutil.copy(os.path.join(VERIF, wfile), os.path.join(scratch, "src", modname + ".rs"))
        with open(os.path.join(scratch, "src", "main.rs"), "a") as f: f.write("\n#[cfg(test)]\nmod %s;\n" % modname)
        env = dict(os.environ, CARGO_NET_OFFLINE="true", **extra)
        r = subprocess.run(["cargo", "test", "--offline", "--quiet", flt, "--", "--nocapture", "--test-threads", "1"],
                           cwd=scratch, env=env, stdout=subprocess.PIPE, stderr=subprocess.STDOUT, text=True)
        lines = []
        for l in r.stdout.split("\n"):
            l = l.lstrip(".")
            if l.startswith("WITNESS") or l.startswith("SUMMARY"): lines.append(l)
        print("\n".join(lines))
        if not any(l.startswith("SUMMARY") for l in lines):
            print("HARNESS-ERROR\n" + r.stdout[-3000:]); return 2
        if "panicked" in r.stdout and "test result: FAILED" in r.stdout:
            print("HARNESS-PANIC\n" + "\n".join(l for l in r.stdout.split("\n") if "panicked" in l)[:1500])
        return 0
    finally:
        shutil.rmtree(scratch, ignore_errors=True)
if __name__ == "__main__":
    sys.exit(main())
