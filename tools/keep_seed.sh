#!/bin/sh
# usage: keep_seed.sh <seed-id> <property> <outdir> "<needs>" "<detected-by>"
ID=$1; PROP=$2; OUT=$3; NEEDS=$4; DET=$5
D=/verif/seeded/$ID; mkdir -p $D
cp $OUT/patch.diff $D/patch.diff; cp $OUT/demo.diff $D/demo.diff; cp $OUT/notes.md $D/notes.md 2>/dev/null
python3 - "$ID" "$PROP" "$NEEDS" "$DET" "$OUT" <<'PY'
import json,sys
i,p,needs,det,out=sys.argv[1:6]
def rd(f):
    try: return open(out+'/'+f).read().strip().split('\n')
    except Exception: return []
json.dump({"id":i,"breaks_property":p,"needs_to_manifest":needs,
 "confirmed":{"demo_only_on_pinned_tree":rd('run_demo_only.txt'),"patch_only_existing_suite":rd('run_patch_only.txt'),"patch_plus_demo":rd('run_patch_demo.txt'),
  "how":"tools/confirm_seed.sh in a scratch worktree under /tmp (removed afterwards): cargo test --offline"},
 "checks_run":det},open('/verif/seeded/%s/meta.json'%i,'w'),indent=1)
PY
echo kept $D
