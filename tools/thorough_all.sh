#!/bin/sh
# runs the THOROUGH tier of every claimed check on the clean tree (no cache, extra solver seeds, deeper bounds); slow (hours).
# The evidence it leaves is that of the thorough tier: run tools/refresh_all.sh afterwards before committing evidence.
cd /verif || exit 2
git -C /repo status --short | grep -q . && { echo "/repo not clean"; exit 2; }
rc=0
for c in $(python3 -c "import json;print(' '.join(x['property_id'] for x in json.load(open('MANIFEST.json'))['checks']))"); do
  s=$(date +%s); out=$(./check $c --tier thorough 2>&1 | tail -1); e=$(date +%s)
  echo "$out  [$((e-s)) s]"
  echo "$out" | grep -q "^OK" || rc=1
done
exit $rc
