#!/bin/sh
# false-alarm test, N at a time (see tools/par_seeds.sh for the set-up): every behaviour-preserving change of seeded-benign/ is applied
# to a worker's own copy of /repo and ALL claimed checks are run on it.  No run may exit 1.
N=${1:-5}; PAR=${PAR:-/tmp/parb}
git -C /repo status --short | grep -q . && { echo "/repo not clean"; exit 2; }
rm -rf $PAR; mkdir -p $PAR
ls -d /verif/seeded-benign/b*/ > $PAR/all.txt
CHECKS=$(python3 -c "import json;print(' '.join(x['property_id'] for x in json.load(open('/verif/MANIFEST.json'))['checks']))")
k=0; while [ $k -lt $N ]; do
  cp -r /repo $PAR/repo$k
  mkdir $PAR/verif$k; rsync -a --exclude .git --exclude replay --exclude build /verif/ $PAR/verif$k/
  awk -v n=$N -v k=$k 'NR % n == k' $PAR/all.txt > $PAR/list$k.txt
  ( for d in $(cat $PAR/list$k.txt); do
      n=$(basename $d)
      git -C $PAR/repo$k apply $d/patch.diff || { echo "benign $n: patch does not apply"; continue; }
      for c in $CHECKS; do
        out=$(RULER_REPO=$PAR/repo$k $PAR/verif$k/check $c 2>&1); rc=$?
        v=$(echo "$out" | grep "^VIOLATION" | head -2 | cut -c1-260)
        u=$(echo "$out" | grep "^UNDECIDED" | head -1 | cut -c1-160)
        echo "benign $n $c exit=$rc $v $u"
      done
      git -C $PAR/repo$k checkout -- . ; git -C $PAR/repo$k clean -fdq -e target
    done > $PAR/out$k.log 2>&1 ) &
  k=$((k+1))
done
wait
cat $PAR/out*.log | sort
rm -rf $PAR
