#!/bin/sh
# usage: confirm_seed.sh <worktree> <outdir>   -- confirms a seeded change independently in the scratch worktree
# 1. pinned tree + demo only: all tests pass (demo passes without the change)
# 2. pinned tree + patch: the 209 existing tests pass
# 3. pinned tree + patch + demo: exactly the demo test(s) fail
WT=$1; OUT=$2
cd $WT || exit 2
git reset -q --hard && git clean -fdq -e target
git apply $OUT/demo.diff || { echo "demo.diff does not apply"; exit 2; }
CARGO_NET_OFFLINE=true cargo test --offline 2>&1 | grep -E "^test result|FAILED|failed" | head -5 > $OUT/run_demo_only.txt
git reset -q --hard && git clean -fdq -e target
git apply $OUT/patch.diff || { echo "patch.diff does not apply"; exit 2; }
CARGO_NET_OFFLINE=true cargo build --offline 2>&1 | grep -E "^error|Finished" | head -3 > $OUT/run_patch_build.txt
CARGO_NET_OFFLINE=true cargo test --offline 2>&1 | grep -E "^test result|FAILED|failed" | head -5 > $OUT/run_patch_only.txt
git apply $OUT/demo.diff || { echo "demo.diff does not apply on patch"; exit 2; }
CARGO_NET_OFFLINE=true cargo test --offline 2>&1 | grep -E "^test result|FAILED|failed|^test .* FAILED" | head -8 > $OUT/run_patch_demo.txt
git reset -q --hard && git clean -fdq -e target
echo "--- demo only (expect all pass)"; cat $OUT/run_demo_only.txt
echo "--- patch only: cargo build + suite (expect Finished, 209 pass)"; cat $OUT/run_patch_build.txt $OUT/run_patch_only.txt
echo "--- patch + demo (expect demo fails)"; cat $OUT/run_patch_demo.txt
