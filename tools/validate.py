import json, sys, glob, jsonschema
jsonschema.validate(json.load(open('/verif/MANIFEST.json')), json.load(open('/root/.vp/MANIFEST.schema.json')))
es = json.load(open('/root/.vp/EVIDENCE.schema.json'))
for f in glob.glob('/verif/evidence/*.json'):
    jsonschema.validate(json.load(open(f)), es)
print("valid:", len(glob.glob('/verif/evidence/*.json')), "evidence files")
