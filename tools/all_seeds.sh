#!/bin/sh
# regression over every kept seeded change: apply, run the check of the property it breaks, undo.  Prints one line per seed.
for d in /verif/seeded/*/; do
  id=$(basename $d)
  python3 -c "import json,sys;m=json.load(open('$d/meta.json'));sys.exit(0 if (m.get('obsolete') or m.get('outside_model')) else 1)" && { echo "$id: obsolete or outside the stated model (see meta.json), skipped"; continue; }
  prop=$(python3 -c "import json;m=json.load(open('$d/meta.json'));print(m.get('detected_under') or m['breaks_property'])")
  git -C /repo status --short | grep -q . && { echo "/repo not clean"; exit 2; }
  git -C /repo apply $d/patch.diff || { echo "$id: patch does not apply"; continue; }
  out=$(/verif/check $prop 2>&1); rc=$?
  git -C /repo checkout -- . ; git -C /repo clean -fdq -e target
  v=$(echo "$out" | grep -c "^VIOLATION"); first=$(echo "$out" | grep -E "^(VIOLATION|UNDECIDED)" | head -1 | cut -c1-170)
  echo "$id prop=$prop exit=$rc violations=$v :: $first"
done
