/*  BOUNDED stand-in for the part of C12 that is not (yet) discharged by Verus: the real topological_sort /
    topological_sort_all, run on EVERY rule graph up to a stated size, against an oracle written from the
    property text.  Built by tools/bounded_sort.py into a scratch copy of /repo's working tree; never part of
    the repository.  Output: one line `WITNESS ...` per disagreement and a final `SUMMARY ...` line. */
use crate::rule::Rule;
use crate::sort::{topological_sort, topological_sort_all, NodePack, SourceIndex, TopologicalSortError};
use std::collections::{BTreeSet, BTreeMap};

fn name(i: usize) -> String { format!("t{}", i) }

/*  rule i has targets targs[i], rule-sources deps[i] (indices of target names) and one private leaf  */
fn make_rules(targs: &Vec<Vec<String>>, deps: &Vec<Vec<String>>, leaves: &Vec<Vec<String>>) -> Vec<Rule>
{
    (0..targs.len()).map(|i| {
        let mut s = deps[i].clone(); s.extend(leaves[i].iter().cloned());
        Rule::new(targs[i].clone(), s, vec![format!("cmd-{}", targs[i].join("+"))])
    }).collect()
}

#[derive(Debug, PartialEq)]
enum Expect { Dup, Missing, Cycle, Plan(BTreeSet<usize>) }

fn oracle(targs: &Vec<Vec<String>>, deps: &Vec<Vec<String>>, goal: &Option<String>) -> Expect
{
    let n = targs.len();
    let mut owner : BTreeMap<String, usize> = BTreeMap::new();
    for i in 0..n { for t in targs[i].iter() { if owner.insert(t.clone(), i).is_some() { return Expect::Dup; } } }
    let roots : Vec<usize> = match goal {
        Some(g) => match owner.get(g) { Some(i) => vec![*i], None => return Expect::Missing },
        None => (0..n).collect(),
    };
    let succ = |i: usize| -> Vec<usize> { deps[i].iter().filter_map(|d| owner.get(d).cloned()).collect() };
    let mut reach = BTreeSet::new();
    let mut work = roots.clone();
    while let Some(i) = work.pop() { if reach.insert(i) { work.extend(succ(i)); } }
    /*  a cycle among reachable rules?  (Kahn on the induced subgraph) */
    let mut indeg : BTreeMap<usize, usize> = reach.iter().map(|i| (*i, 0)).collect();
    for i in reach.iter() { for j in succ(*i) { *indeg.get_mut(&j).unwrap() += 1; } }
    let mut ready : Vec<usize> = indeg.iter().filter(|(_, d)| **d == 0).map(|(i, _)| *i).collect();
    let mut seen = 0;
    while let Some(i) = ready.pop() { seen += 1; for j in succ(i) { let d = indeg.get_mut(&j).unwrap(); *d -= 1; if *d == 0 { ready.push(j); } } }
    if seen != reach.len() { return Expect::Cycle; }
    Expect::Plan(reach)
}

/*  checks an Ok plan against the property; returns a complaint or None */
fn check_plan(pack: &NodePack, rules: &Vec<Rule>, reach: &BTreeSet<usize>) -> Option<String>
{
    let mut owner : BTreeMap<String, usize> = BTreeMap::new();
    for (i, r) in rules.iter().enumerate() { for t in r.targets.iter() { owner.insert(t.clone(), i); } }
    if pack.nodes.len() != reach.len() { return Some(format!("plan has {} nodes, expected {}", pack.nodes.len(), reach.len())); }
    let mut seen = BTreeSet::new();
    let mut sorted_leaves = pack.leaves.clone(); sorted_leaves.sort(); sorted_leaves.dedup();
    if sorted_leaves != pack.leaves { return Some("leaves not sorted / distinct".to_string()); }
    let mut used_leaves = BTreeSet::new();
    for (pos, node) in pack.nodes.iter().enumerate()
    {
        let mut ts = node.targets.clone(); ts.sort();
        if ts != node.targets { return Some("node targets not sorted".to_string()); }
        let ri = match node.targets.get(0).and_then(|t| owner.get(t)) { Some(i) => *i, None => return Some("node with unknown target".to_string()) };
        if !reach.contains(&ri) { return Some(format!("rule {} in plan but not in scope", ri)); }
        if !seen.insert(ri) { return Some(format!("rule {} twice in plan", ri)); }
        let rule = &rules[ri];
        let mut rts = rule.targets.clone(); rts.sort();
        if rts != node.targets || rule.command != node.command { return Some("node is not the input rule".to_string()); }
        if node.rule_ticket != rule.get_ticket() { return Some("rule ticket differs from Rule::get_ticket".to_string()); }
        let mut srcs = rule.sources.clone(); srcs.sort();
        if srcs.len() != node.source_indices.len() { return Some("source count differs".to_string()); }
        for (k, si) in node.source_indices.iter().enumerate()
        {
            match si
            {
                SourceIndex::Leaf(i) =>
                {
                    if *i >= pack.leaves.len() || pack.leaves[*i] != srcs[k] { return Some(format!("source {} bound to wrong leaf", srcs[k])); }
                    if owner.contains_key(&srcs[k]) { return Some(format!("source {} is a target but bound to a leaf", srcs[k])); }
                    used_leaves.insert(*i);
                },
                SourceIndex::Pair(i, sub) =>
                {
                    if *i >= pos { return Some(format!("producer of {} does not precede its consumer", srcs[k])); }
                    if pack.nodes[*i].targets.get(*sub) != Some(&srcs[k]) { return Some(format!("source {} bound to wrong producing target", srcs[k])); }
                },
            }
        }
    }
    if used_leaves.len() != pack.leaves.len() { return Some("a leaf in the plan is no node's source".to_string()); }
    None
}

fn permutations(n: usize, all: bool) -> Vec<Vec<usize>>
{
    let mut out = vec![];
    let mut p : Vec<usize> = (0..n).collect();
    fn rec(k: usize, p: &mut Vec<usize>, out: &mut Vec<Vec<usize>>) {
        if k == p.len() { out.push(p.clone()); return; }
        for i in k..p.len() { p.swap(k, i); rec(k + 1, p, out); p.swap(k, i); }
    }
    if all { rec(0, &mut p, &mut out); }
    else { out.push(p.clone()); let mut r = p.clone(); r.reverse(); out.push(r); if n > 1 { let mut q = p.clone(); q.rotate_left(1); out.push(q); } }
    out
}

fn describe(targs: &Vec<Vec<String>>, deps: &Vec<Vec<String>>, goal: &Option<String>) -> String
{
    let rs : Vec<String> = (0..targs.len()).map(|i| format!("{}<-{{{}}}", targs[i].join("+"), deps[i].join(","))).collect();
    format!("rules [{}] goal {:?}", rs.join("; "), goal)
}

/*  runs one case; returns complaints */
fn run_case(targs: &Vec<Vec<String>>, deps: &Vec<Vec<String>>, leaves: &Vec<Vec<String>>, goal: &Option<String>, all_perms: bool, calls: &mut u64) -> Vec<String>
{
    let rules = make_rules(targs, deps, leaves);
    let expect = oracle(targs, deps, goal);
    let mut complaints = vec![];
    let mut first_plan : Option<NodePack> = None;
    for perm in permutations(rules.len(), all_perms)
    {
        let permuted : Vec<Rule> = perm.iter().map(|i| rules[*i].clone()).collect();
        *calls += 1;
        let caught = std::panic::catch_unwind(std::panic::AssertUnwindSafe(|| match goal { Some(g) => topological_sort(permuted, g), None => topological_sort_all(permuted) }));
        let result = match caught { Ok(r) => r, Err(_) => { complaints.push(format!("the sorter PANICKED (permutation {:?})", perm)); continue; } };
        let verdict = match (&expect, &result)
        {
            (Expect::Dup, Err(TopologicalSortError::TargetInMultipleRules(t))) =>
                if targs.iter().map(|ts| ts.iter().filter(|x| *x == t).count()).sum::<usize>() >= 2 { None } else { Some(format!("names {} which is not a duplicated target", t)) },
            (Expect::Missing, Err(TopologicalSortError::TargetMissing(g))) => if Some(g) == goal.as_ref() { None } else { Some("TargetMissing names the wrong goal".to_string()) },
            (Expect::Cycle, Err(TopologicalSortError::CircularDependence(_))) => None,
            (Expect::Cycle, Err(TopologicalSortError::SelfDependentRule(_))) => None,
            (Expect::Plan(reach), Ok(pack)) =>
            {
                let c = check_plan(pack, &rules, reach);
                if c.is_none() { match &first_plan { None => {}, Some(p) => if p != pack { complaints.push(format!("plan depends on the order of the rules in the input (permutation {:?})", perm)); } } }
                c
            },
            (e, r) => Some(format!("expected {:?}, got {}", e, match r { Ok(_) => "Ok(plan)".to_string(), Err(err) => format!("Err({:?})", err) })),
        };
        if let Some(v) = verdict { complaints.push(format!("{} (permutation {:?})", v, perm)); }
        if first_plan.is_none() { if let Ok(p) = result { first_plan = Some(p); } }
    }
    complaints
}

#[test]
fn verif_sort_witness_exhaustive()
{
    std::panic::set_hook(Box::new(|_| {}));   /* panics of the code under test are reported as WITNESS lines, not as noise */
    let max_rules : usize = std::env::var("VERIF_SORT_MAX_RULES").ok().and_then(|s| s.parse().ok()).unwrap_or(4);
    let mut calls = 0u64; let mut cases = 0u64; let mut bad = 0u64;
    let mut kinds : BTreeMap<String, u64> = BTreeMap::new();
    for n in 0..=max_rules
    {
        /*  single-target rules t0..t(n-1); rule i may depend on any subset of the n target names (self-dependence included) */
        let targs : Vec<Vec<String>> = (0..n).map(|i| vec![name(i)]).collect();
        let leaves : Vec<Vec<String>> = (0..n).map(|i| vec![format!("leaf{}", i)]).collect();
        let combos : u64 = 1u64 << (n * n);
        for code in 0..combos
        {
            let deps : Vec<Vec<String>> = (0..n).map(|i| (0..n).filter(|j| (code >> (i * n + j)) & 1 == 1).map(|j| name(j)).collect()).collect();
            let mut goals : Vec<Option<String>> = vec![None];
            for g in 0..n { goals.push(Some(name(g))); }
            goals.push(Some("nosuch".to_string()));
            for goal in goals
            {
                cases += 1;
                *kinds.entry(format!("{:?}", oracle(&targs, &deps, &goal)).split('(').next().unwrap().to_string()).or_insert(0) += 1;
                for c in run_case(&targs, &deps, &leaves, &goal, n <= 3, &mut calls)
                {
                    bad += 1;
                    if bad <= 40 { println!("WITNESS {} :: {}", describe(&targs, &deps, &goal), c); }
                }
            }
        }
    }
    /*  a rule that arrives twice identically (e.g. carried by two rules files): the duplicated target must be reported */
    for n in 1..=3usize
    {
        let combos : u64 = 1u64 << (n * n);
        for code in 0..combos
        {
            for dup in 0..n
            {
                let mut targs : Vec<Vec<String>> = (0..n).map(|i| vec![name(i)]).collect();
                let mut leaves : Vec<Vec<String>> = (0..n).map(|i| vec![format!("leaf{}", i)]).collect();
                let mut deps : Vec<Vec<String>> = (0..n).map(|i| (0..n).filter(|j| (code >> (i * n + j)) & 1 == 1).map(|j| name(j)).collect()).collect();
                targs.push(targs[dup].clone()); leaves.push(leaves[dup].clone()); deps.push(deps[dup].clone());
                let mut goals : Vec<Option<String>> = vec![None];
                for g in 0..n { goals.push(Some(name(g))); }
                for goal in goals
                {
                    cases += 1;
                    for c in run_case(&targs, &deps, &leaves, &goal, n <= 2, &mut calls)
                    {
                        bad += 1;
                        if bad <= 40 { println!("WITNESS {} :: {}", describe(&targs, &deps, &goal), c); }
                    }
                }
            }
        }
    }
    /*  multi-target and duplicate-target shapes: 3 rules, rule 0 has two targets, rule 2 may duplicate a target of rule 0; shared leaf */
    for code in 0..(1u64 << 9)
    {
        for dup in 0..2
        {
            let targs : Vec<Vec<String>> = vec![vec!["a1".to_string(), "a0".to_string()], vec!["b".to_string()], if dup == 1 { vec!["c".to_string(), "a0".to_string()] } else { vec!["c".to_string()] }];
            let names = vec!["a0".to_string(), "a1".to_string(), "b".to_string()];
            let deps : Vec<Vec<String>> = (0..3).map(|i| (0..3).filter(|j| (code >> (i * 3 + j)) & 1 == 1).map(|j| names[j].clone()).collect()).collect();
            let leaves : Vec<Vec<String>> = vec![vec!["shared".to_string()], vec!["shared".to_string(), "zz".to_string()], vec![]];
            for goal in vec![None, Some("a1".to_string()), Some("b".to_string()), Some("c".to_string())]
            {
                cases += 1;
                for c in run_case(&targs, &deps, &leaves, &goal, true, &mut calls)
                {
                    bad += 1;
                    if bad <= 40 { println!("WITNESS {} :: {}", describe(&targs, &deps, &goal), c); }
                }
            }
        }
    }
    /*  sources that are SPELLED like a target with path decoration ("../t1", "./t1", "/t1") are other paths: plain source files,
        never bound to the rule that makes t1 (so they pull nothing into scope) */
    for deco in ["../", "./", "/"].iter()
    {
        for code in 0..(1u64 << 9)
        {
            let targs : Vec<Vec<String>> = (0..3).map(|i| vec![name(i)]).collect();
            let deps : Vec<Vec<String>> = (0..3).map(|i| (0..3).filter(|j| (code >> (i * 3 + j)) & 1 == 1).map(|j| format!("{}{}", deco, name(j))).collect()).collect();
            let leaves : Vec<Vec<String>> = vec![vec![], vec!["shared".to_string()], vec!["shared".to_string()]];
            for goal in vec![None, Some(name(0)), Some(name(2))]
            {
                cases += 1;
                for c in run_case(&targs, &deps, &leaves, &goal, false, &mut calls)
                {
                    bad += 1;
                    if bad <= 40 { println!("WITNESS {} :: {}", describe(&targs, &deps, &goal), c); }
                }
            }
        }
    }
    /*  LARGER graphs, drawn at random (seeded, reproducible): 5..14 rules with 1..3 targets each, edges mostly forward (so that many are
        acyclic) with a few back edges, shared leaves, every goal incl. none and a missing one; three input orders each */
    {
        let mut x : u64 = 0x2545F4914F6CDD1D;
        let mut next = move |n: u64| -> u64 { x ^= x << 13; x ^= x >> 7; x ^= x << 17; x % n };
        let graphs : u64 = std::env::var("VERIF_SORT_RANDOM").ok().and_then(|s| s.parse().ok()).unwrap_or(1500);
        for _ in 0..graphs
        {
            let n = 5 + next(10) as usize;
            let mut targs : Vec<Vec<String>> = vec![]; let mut k = 0usize;
            for _ in 0..n { let m = 1 + (next(6) / 4) as usize + (next(8) / 7) as usize; targs.push((0..m).map(|_| { k += 1; format!("n{}", k) }).collect()); }
            let mut deps : Vec<Vec<String>> = vec![];
            for i in 0..n
            {
                let mut d : Vec<String> = vec![];
                let cnt = next(4) as usize;
                for _ in 0..cnt
                {
                    /*  a source made by a later rule, mostly; one in twelve points backwards */
                    let j = if i + 1 < n && next(12) != 0 { i + 1 + next((n - i - 1) as u64) as usize } else { next(n as u64) as usize };
                    let t = targs[j][next(targs[j].len() as u64) as usize].clone();
                    if !d.contains(&t) { d.push(t); }
                }
                deps.push(d);
            }
            let leaves : Vec<Vec<String>> = (0..n).map(|i| if i % 3 == 0 { vec!["shared".to_string()] } else { vec![format!("leaf{}", i)] }).collect();
            let mut goals : Vec<Option<String>> = vec![None, Some("nosuch".to_string())];
            for _ in 0..3 { let j = next(n as u64) as usize; goals.push(Some(targs[j][next(targs[j].len() as u64) as usize].clone())); }
            for goal in goals
            {
                cases += 1;
                for c in run_case(&targs, &deps, &leaves, &goal, false, &mut calls)
                {
                    bad += 1;
                    if bad <= 40 { println!("WITNESS {} :: {}", describe(&targs, &deps, &goal), c); }
                }
            }
        }
    }
    println!("SUMMARY max_rules={} cases={} sorter_calls={} disagreements={} kinds={:?}", max_rules, cases, calls, bad, kinds);
}
