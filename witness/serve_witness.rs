/*  BOUNDED stand-in (labelled bounded, never counted as proved) for C19 on `serve()` as a whole: the routing (warp filters, a
    macro) and the async runtime are outside the verifier's reach; unit V proves the two endpoint closures only.  The real `serve`
    runs on the loopback interface over a FakeSystem whose ruler directory was produced by real builds; raw HTTP/1.1 requests (no
    client-side normalisation of `..` or `%2F`) are checked against the property text:
      200 with exactly the bytes whose hash was requested for every cached hash; 404 for an absent hash; 404 for malformed,
      path-like and over-long names, for a good name followed by further segments, and for anything that is not one of the two
      routes; the recorded target hashes, in target order, for a recorded (rule, sources) pair; the server keeps answering.
    Output: `WITNESS B-V-serve :: <request> :: <what>` and `SUMMARY B-V-serve cases=N disagreements=M`. */
use crate::build::{build, BuildParams};
use crate::printer::EmptyPrinter;
use crate::rule::parse;
use crate::server::serve;
use crate::system::System;
use crate::system::fake::FakeSystem;
use crate::system::util::{write_str_to_file, read_file_to_string};
use crate::ticket::TicketFactory;
use std::io::{Read, Write};
use std::net::{TcpListener, TcpStream};
use std::time::Duration;

const RULES : &str = "\
stanza.txt
:
verse.txt
:
mycat
verse.txt
stanza.txt
:

bigcopy.bin
:
big.bin
:
mycat
big.bin
bigcopy.bin
:

aside.txt
copy.txt
:
note.txt
refrain.txt
:
mycat2
note.txt
aside.txt
copy.txt
:

first.out
middle.out
zlast.out
:
blank.txt
note.txt
:
mycat
note.txt
first.out
;
mycat
blank.txt
middle.out
;
mycat
note.txt
note.txt
zlast.out
:
";

fn get(port: u16, path: &str) -> Option<(u16, Vec<u8>)>
{
    let mut stream = TcpStream::connect(("127.0.0.1", port)).ok()?;
    stream.set_read_timeout(Some(Duration::from_secs(5))).ok()?;
    stream.write_all(format!("GET {} HTTP/1.1\r\nHost: localhost\r\nConnection: close\r\n\r\n", path).as_bytes()).ok()?;
    let mut raw = vec![];
    let _ = stream.read_to_end(&mut raw);
    let split = raw.windows(4).position(|w| w == b"\r\n\r\n")?;
    let head = String::from_utf8_lossy(&raw[..split]).to_string();
    let status : u16 = head.split_whitespace().nth(1)?.parse().ok()?;
    Some((status, raw[split + 4..].to_vec()))
}
/*  the text form of the 256-bit value that differs from `name`'s in byte i (independent base-62 arithmetic: 43 digits, least
    significant first, of the little-endian value) */
fn near_miss(name: &str, i: usize) -> Option<String>
{
    const A : &[u8] = b"0123456789abcdefghijklmnopqrstuvwxyzABCDEFGHIJKLMNOPQRSTUVWXYZ";
    if name.len() != 43 { return None; }
    let mut n = [0u32; 33];
    for c in name.bytes().rev()
    {
        let mut carry = A.iter().position(|a| *a == c)? as u32;
        for limb in n.iter_mut() { let cur = *limb * 62 + carry; *limb = cur % 256; carry = cur / 256; }
    }
    if n[32] != 0 { return None; }
    n[i] ^= 0x04;
    let mut big : Vec<u32> = n[..32].iter().rev().cloned().collect();
    let mut out = String::new();
    for _ in 0..43 { let mut rem = 0u32; for d in big.iter_mut() { let cur = rem * 256 + *d; *d = cur / 62; rem = cur % 62; } out.push(A[rem as usize] as char); }
    Some(out)
}
fn hash_name(bytes: &[u8]) -> String { let mut f = TicketFactory::new(); f.input_bytes(bytes); f.result().human_readable() }

#[test]
fn verif_serve_loopback()
{
    let mut cases = 0usize; let mut bad = 0usize;
    let mut wrong = |req: &str, what: String, bad: &mut usize| { *bad += 1; if *bad <= 8 { println!("WITNESS B-V-serve :: {:?} :: {}", req, what); } };
    /*  a ruler directory produced by real builds: two versions of the verse, so that the cache holds displaced targets */
    let mut system = FakeSystem::new(10);
    write_str_to_file(&mut system, "build.rules", RULES).unwrap();
    write_str_to_file(&mut system, "verse.txt", "Roses are red.\n").unwrap();
    write_str_to_file(&mut system, "note.txt", "N.B.\n").unwrap();
    write_str_to_file(&mut system, "refrain.txt", "La la la.\n").unwrap();
    write_str_to_file(&mut system, "secret.txt", "outside the ruler directory\n").unwrap();
    /*  a source that holds no bytes: the middle target of the three-target rule is an empty file */
    write_str_to_file(&mut system, "blank.txt", "").unwrap();
    /*  one big target (17 MiB): after the second build its first version sits in the cache */
    let big : String = (0..(17usize << 20) / 16).map(|i| format!("{:015}\n", i)).collect();
    write_str_to_file(&mut system, "big.bin", &big).unwrap();
    let params = || BuildParams::from_all(".ruler".to_string(), vec!["build.rules".to_string()], None, None);
    build(system.clone(), &mut EmptyPrinter::new(), params()).unwrap();
    system.time_passes(1);
    write_str_to_file(&mut system, "verse.txt", "Violets are blue.\n").unwrap();
    write_str_to_file(&mut system, "note.txt", "P.S.\n").unwrap();
    write_str_to_file(&mut system, "big.bin", "small now\n").unwrap();
    build(system.clone(), &mut EmptyPrinter::new(), params()).unwrap();
    let cached : Vec<String> = system.list_dir(".ruler/cache").unwrap().iter().map(|p| p.rsplit('/').next().unwrap().to_string()).collect();
    if cached.len() < 3 || !cached.iter().any(|n| *n == hash_name(big.as_bytes())) { println!("WITNESS B-V-serve :: set-up :: the cache holds {} entries, expected at least 3 incl. the big one", cached.len()); bad += 1; }

    let port = { let l = TcpListener::bind(("127.0.0.1", 0)).unwrap(); l.local_addr().unwrap().port() };
    { let s = system.clone(); std::thread::spawn(move || { let _ = serve(s, ".ruler", port); }); }
    let mut up = false;
    for _ in 0..100 { if TcpStream::connect(("127.0.0.1", port)).is_ok() { up = true; break; } std::thread::sleep(Duration::from_millis(50)); }
    if !up { println!("HARNESS: the server did not come up on the loopback interface"); return; }

    /*  every cached hash: 200 and exactly the bytes of that hash */
    for name in cached.iter()
    {
        cases += 1;
        match get(port, &format!("/files/{}", name))
        {
            Some((200, body)) => if hash_name(&body) != *name { wrong(&format!("/files/{}", name), "200 with bytes that do not hash to the requested name".to_string(), &mut bad); },
            other => wrong(&format!("/files/{}", name), format!("cached hash answered {:?}", other.map(|x| x.0)), &mut bad),
        }
    }
    /*  names that must get 404 */
    let good = cached[0].clone();
    let absent = hash_name(b"nothing with this content was ever built");
    let mut not_found : Vec<String> = vec![
        format!("/files/{}", absent), "/files/".to_string(), "/files".to_string(), "/".to_string(), "/files/abc".to_string(),
        format!("/files/{}", &good[..42]), format!("/files/{}0", good), format!("/files/{}-", &good[..42]), format!("/files/{}", "z".repeat(43)), format!("/files/{}", "z".repeat(44)),
        "/files/..".to_string(), "/files/%2e%2e".to_string(), "/files/..%2Fcurrent_file_states".to_string(), "/files/../current_file_states".to_string(),
        "/files/..%2F..%2Fsecret.txt".to_string(), "/files/secret.txt".to_string(),
        format!("/files/{}/x", good), format!("/files/{}/..", good), format!("/files/{}/../../secret.txt", good), format!("/files/{}%2Fx", good), format!("/files/{}/{}", good, good),
        format!("/cache/{}", good), format!("/{}", good), format!("/files/x/{}", good), format!("/rules/{}", good), format!("/rules/{}/{}/x", good, good),
    ];
    for i in [0usize, 7, 8, 20, 31].iter() { for name in cached.iter().take(3) { if let Some(n) = near_miss(name, *i) { if !cached.contains(&n) { not_found.push(format!("/files/{}", n)); } } } }
    /*  the rules endpoint: for each rule, the recorded target hashes for the sources it was last built from */
    let rules = parse("build.rules".to_string(), RULES.to_string()).unwrap();
    for rule in rules.iter()
    {
        let mut sorted = rule.clone(); sorted.targets.sort(); sorted.sources.sort();
        let rule_name = rule.get_ticket().human_readable();
        let mut f = TicketFactory::new();
        for s in sorted.sources.iter() { let c = read_file_to_string(&system, s).unwrap(); f.input_ticket(TicketFactory::from_str(&c).result()); }
        let sources_name = f.result().human_readable();
        let expected : Vec<String> = sorted.targets.iter().map(|t| hash_name(read_file_to_string(&system, t).unwrap().as_bytes())).collect();
        cases += 1;
        let req = format!("/rules/{}/{}", rule_name, sources_name);
        match get(port, &req)
        {
            Some((200, body)) =>
            {
                let text = String::from_utf8_lossy(&body).to_string();
                let lines : Vec<String> = text.split('\n').filter(|l| !l.is_empty()).map(|l| l.to_string()).collect();
                if lines != expected { wrong(&req, format!("recorded target hashes {:?}, the targets on disk hash to {:?}", lines, expected), &mut bad); }
            },
            other => wrong(&req, format!("recorded (rule, sources) pair answered {:?}", other.map(|x| x.0)), &mut bad),
        }
        /*  near misses: a well-formed name that differs from a recorded one in ONE of its 32 bytes was never recorded */
        for i in [0usize, 7, 8, 20, 31].iter()
        {
            if let (Some(nr), Some(ns)) = (near_miss(&rule_name, *i), near_miss(&sources_name, *i))
            { not_found.push(format!("/rules/{}/{}", rule_name, ns)); not_found.push(format!("/rules/{}/{}", nr, sources_name)); }
        }
        not_found.push(format!("{}/x", req)); not_found.push(format!("/rules/{}/{}", rule_name, absent)); not_found.push(format!("/rules/{}/{}", absent, sources_name));
        not_found.push(format!("/rules/{}/{}", &rule_name[..42], sources_name)); not_found.push(format!("/rules/{}/..", rule_name)); not_found.push(format!("/rules/../{}", sources_name));
        not_found.push(format!("/files/{}", rule_name).replace("/files/", "/files/../history/"));
    }
    for req in not_found.iter()
    {
        cases += 1;
        match get(port, req)
        {
            Some((404, _)) => {},
            Some((status, body)) => wrong(req, format!("answered {} with body {:?}, expected 404", status, String::from_utf8_lossy(&body[..body.len().min(60)])), &mut bad),
            None => wrong(req, "no answer".to_string(), &mut bad),
        }
    }
    /*  a build that runs WHILE the server is up (another process on the same ruler directory): what it records is served too */
    system.time_passes(1);
    write_str_to_file(&mut system, "verse.txt", "Sugar is sweet.\n").unwrap();
    build(system.clone(), &mut EmptyPrinter::new(), params()).unwrap();
    for rule in rules.iter()
    {
        let mut sorted = rule.clone(); sorted.targets.sort(); sorted.sources.sort();
        let rule_name = rule.get_ticket().human_readable();
        let mut f = TicketFactory::new();
        for s in sorted.sources.iter() { let c = read_file_to_string(&system, s).unwrap(); f.input_ticket(TicketFactory::from_str(&c).result()); }
        let expected : Vec<String> = sorted.targets.iter().map(|t| hash_name(read_file_to_string(&system, t).unwrap().as_bytes())).collect();
        cases += 1;
        let req = format!("/rules/{}/{}", rule_name, f.result().human_readable());
        match get(port, &req)
        {
            Some((200, body)) =>
            {
                let text = String::from_utf8_lossy(&body).to_string();
                let lines : Vec<String> = text.split('\n').filter(|l| !l.is_empty()).map(|l| l.to_string()).collect();
                if lines != expected { wrong(&req, format!("after a build that ran while the server was up: recorded target hashes {:?}, the targets on disk hash to {:?}", lines, expected), &mut bad); }
            },
            other => wrong(&req, format!("a pair recorded by a build that ran while the server was up answered {:?}", other.map(|x| x.0)), &mut bad),
        }
    }
    for name in system.list_dir(".ruler/cache").unwrap().iter().map(|p| p.rsplit('/').next().unwrap().to_string())
    {
        cases += 1;
        match get(port, &format!("/files/{}", name))
        {
            Some((200, body)) => if hash_name(&body) != name { wrong(&format!("/files/{}", name), "200 with bytes that do not hash to the requested name".to_string(), &mut bad); },
            other => wrong(&format!("/files/{}", name), format!("hash cached by a build that ran while the server was up answered {:?}", other.map(|x| x.0)), &mut bad),
        }
    }
    /*  a LONG history: one rule built from many different source states (its history file grows with every build and is never
        pruned); every pair ever recorded is still served */
    {
        let rounds : usize = std::env::var("VERIF_SERVE_ROUNDS").ok().and_then(|s| s.parse().ok()).unwrap_or(900);
        let stanza = rules.iter().find(|r| r.targets.iter().any(|t| t == "stanza.txt")).unwrap();
        let rule_name = stanza.get_ticket().human_readable();
        let mut recorded : Vec<(String, String)> = vec![];
        for i in 0..rounds
        {
            system.time_passes(1);
            let verse = format!("verse number {}\n", i);
            write_str_to_file(&mut system, "verse.txt", &verse).unwrap();
            if build(system.clone(), &mut EmptyPrinter::new(), BuildParams::from_all(".ruler".to_string(), vec!["build.rules".to_string()], None, Some("stanza.txt".to_string()))).is_err() { wrong("(long history)", format!("build number {} failed", i), &mut bad); break; }
            let mut f = TicketFactory::new(); f.input_ticket(TicketFactory::from_str(&verse).result());
            recorded.push((f.result().human_readable(), hash_name(verse.as_bytes())));
        }
        for (sources_name, want) in recorded.iter()
        {
            cases += 1;
            let req = format!("/rules/{}/{}", rule_name, sources_name);
            match get(port, &req)
            {
                Some((200, body)) =>
                {
                    let text = String::from_utf8_lossy(&body).to_string();
                    let lines : Vec<String> = text.split('\n').filter(|l| !l.is_empty()).map(|l| l.to_string()).collect();
                    if lines != vec![want.clone()] { wrong(&req, format!("long history: recorded target hashes {:?}, expected {:?}", lines, want), &mut bad); }
                },
                other => wrong(&req, format!("long history ({} builds of one rule): a recorded pair answered {:?}", rounds, other.map(|x| x.0)), &mut bad),
            }
        }
    }
    /*  the server keeps running */
    cases += 1;
    match get(port, &format!("/files/{}", good)) { Some((200, _)) => {}, other => wrong("(after all the above)", format!("a good request answered {:?}", other.map(|x| x.0)), &mut bad) }
    println!("SUMMARY B-V-serve cases={} disagreements={}", cases, bad);
}
