/*  BOUNDED stand-ins (labelled bounded, never counted as proved) for pure functions that are under Verus contracts:
    they run the REAL functions of the crate on enumerated / edge / seeded inputs against oracles written from the
    property texts.  Used (a) to turn an "undecided" (proof scaffold no longer fits a restructured function) into a decision
    with a concrete failing input, and (b) to cover what the contracts leave unspecified (bundle semantics).
    Output: `WITNESS <oracle> :: <input> :: <what is wrong>` per disagreement, `SUMMARY <oracle> cases=N disagreements=M`. */
use crate::ticket::{Ticket, TicketFactory, FromHumanReadableError};
use crate::rule::{Rule, parse, ParseError};
use crate::bundle::{self, PathBundle};
use crate::blob::{FileStateVec, BlobError};
use crate::history::{RuleHistory, RuleHistoryInsertError};
use crate::system::fake::FakeSystem;
use crate::system::System;
use std::io::Write;

struct Tally { name: &'static str, cases: u64, bad: u64 }
impl Tally {
    fn new(name: &'static str) -> Tally { Tally{name, cases: 0, bad: 0} }
    fn case(&mut self) { self.cases += 1; }
    fn wrong(&mut self, input: &str, what: &str) { self.bad += 1; if self.bad <= 8 { println!("WITNESS {} :: {} :: {}", self.name, input, what); } }
    fn done(&self) { println!("SUMMARY {} cases={} disagreements={}", self.name, self.cases, self.bad); }
}
/*  a panic of the code under test is a finding, not a harness failure */
fn guard<T>(f: impl FnOnce() -> T) -> Option<T> { std::panic::catch_unwind(std::panic::AssertUnwindSafe(f)).ok() }
fn quiet() { std::panic::set_hook(Box::new(|_| {})); }
struct Lcg(u64);
impl Lcg { fn next(&mut self) -> u64 { self.0 = self.0.wrapping_mul(6364136223846793005).wrapping_add(1442695040888963407); self.0 >> 11 } }

fn ticket_of_bytes(b: &[u8; 32]) -> Ticket
{
    /*  a Ticket can only be made through hashing or decoding; go through the text form computed independently here */
    Ticket::from_human_readable(&ref_encode(b)).expect("reference encoding rejected")
}
/*  independent reference: 43 base-62 digits, least significant first, of the little-endian value (schoolbook division on bytes) */
fn ref_encode(b: &[u8; 32]) -> String
{
    const A : &[u8] = b"0123456789abcdefghijklmnopqrstuvwxyzABCDEFGHIJKLMNOPQRSTUVWXYZ";
    let mut n : Vec<u32> = b.iter().rev().map(|x| *x as u32).collect();   /* big-endian digits base 256 */
    let mut out = String::new();
    for _ in 0..43
    {
        let mut rem = 0u32;
        for d in n.iter_mut() { let cur = rem * 256 + *d; *d = cur / 62; rem = cur % 62; }
        out.push(A[rem as usize] as char);
    }
    out
}
fn ref_decode(s: &str) -> Option<[u8; 32]>
{
    if s.len() != 43 { return None; }
    let mut n = [0u32; 33];   /* little-endian base 256, one spare limb to see overflow */
    let chars : Vec<char> = s.chars().collect();
    if chars.len() != 43 { return None; }
    for c in chars.iter().rev()
    {
        let v = match *c { '0'..='9' => *c as u32 - 48, 'a'..='z' => *c as u32 - 97 + 10, 'A'..='Z' => *c as u32 - 65 + 36, _ => return None };
        let mut carry = v;
        for limb in n.iter_mut() { let cur = *limb * 62 + carry; *limb = cur % 256; carry = cur / 256; }
        if carry != 0 { return None; }
    }
    if n[32] != 0 { return None; }
    let mut r = [0u8; 32];
    for i in 0..32 { r[i] = n[i] as u8; }
    Some(r)
}

#[test]
fn verif_pure_text_form()
{
    quiet();
    let mut t = Tally::new("B-A-text-form");
    let mut values : Vec<[u8; 32]> = vec![[0u8; 32], [255u8; 32]];
    for i in 0..32 { let mut v = [0u8; 32]; v[i] = 1; values.push(v); let mut w = [255u8; 32]; w[i] = 0; values.push(w); let mut x = [0u8; 32]; x[i] = 61; values.push(x); x[i] = 62; values.push(x); }
    let mut rng = Lcg(0x5eed);
    for _ in 0..600 { let mut v = [0u8; 32]; for b in v.iter_mut() { *b = rng.next() as u8; } values.push(v); }
    for v in values.iter()
    {
        t.case();
        let want = ref_encode(v);
        let tk = match Ticket::from_human_readable(&want) { Ok(tk) => tk, Err(e) => { t.wrong(&want, &format!("valid text form rejected: {:?}", e)); continue; } };
        let got = tk.human_readable();
        if got != want { t.wrong(&format!("{:?}", v), &format!("human_readable gives {} expected {}", got, want)); }
        if got.len() != 43 || !got.chars().all(|c| c.is_ascii_alphanumeric()) { t.wrong(&got, "text form is not 43 alphanumerics"); }
    }
    /*  two hashes are the same hash exactly when all 32 bytes agree -- as values (==) and as keys of a table (HashMap / HashSet): a
        near miss in ANY one byte is another hash */
    for v in values.iter().take(150)
    {
        let a = ticket_of_bytes(v);
        let mut set = std::collections::HashSet::new(); set.insert(a.clone());
        let mut map = std::collections::HashMap::new(); map.insert(a.clone(), 1u8);
        t.case();
        if !(a == ticket_of_bytes(v)) || !set.contains(&ticket_of_bytes(v)) || map.get(&ticket_of_bytes(v)) != Some(&1u8) { t.wrong(&format!("{:?}", v), "a hash is not equal to itself (==, or as a key)"); }
        for i in 0..32usize { for flip in [1u8, 0x80u8].iter()
        {
            let mut w = *v; w[i] ^= *flip;
            let b = ticket_of_bytes(&w);
            t.case();
            if a == b { t.wrong(&format!("{:?} / byte {} ^ {:#x}", v, i, flip), "two different 256-bit values compare equal as hashes"); }
            if set.contains(&b) || map.get(&b).is_some() { t.wrong(&format!("{:?} / byte {} ^ {:#x}", v, i, flip), "a table keyed by one hash answers for another 256-bit value"); }
        } }
    }
    /*  strings that are not text forms must be rejected; accepted strings must re-encode to themselves */
    let alphabet : Vec<char> = "09azAZ_-[`]^\\/.% :Ł\u{131}\u{430}é".chars().collect();
    let mut strings : Vec<String> = vec![];
    for len in 0..61usize { let mut s = String::new(); for i in 0..len { s.push(alphabet[(i * 7 + len) % 6]); } strings.push(s); }
    for v in values.iter().take(40)
    {
        let good = ref_encode(v);
        let chars : Vec<char> = good.chars().collect();
        for pos in [0usize, 1, 21, 41, 42].iter()
        {
            for c in alphabet.iter().skip(6)
            {
                let mut m = chars.clone(); m[*pos] = *c; strings.push(m.iter().collect());
                /*  keep the byte length at 43 when the foreign character takes two bytes */
                if c.len_utf8() == 2 { let mut m2 = chars.clone(); m2[*pos] = *c; m2.pop(); strings.push(m2.iter().collect()); }
            }
        }
        strings.push(good[..42].to_string()); strings.push(format!("{}0", good));
    }
    strings.push("Z".repeat(43));   /* 62^43 - 1 > 2^256 : overflow */
    for _ in 0..3000 { let len = (rng.next() % 61) as usize; let mut s = String::new(); for _ in 0..len { s.push(alphabet[(rng.next() % alphabet.len() as u64) as usize]); } strings.push(s); }
    for s in strings.iter()
    {
        t.case();
        let want = ref_decode(s);
        let got = match guard(|| Ticket::from_human_readable(s)) { Some(g) => g, None => { t.wrong(s, "from_human_readable PANICKED"); continue; } };
        match (got, want)
        {
            (Ok(tk), Some(_)) => { if tk.human_readable() != *s { t.wrong(s, "accepted string does not re-encode to itself"); } },
            (Ok(_), None) => t.wrong(s, "accepted although it is not the text form of any 256-bit value"),
            (Err(e), Some(_)) => t.wrong(s, &format!("text form rejected: {:?}", e)),
            (Err(FromHumanReadableError::InvalidLength), None) => { if s.len() == 43 { t.wrong(s, "InvalidLength for a 43-byte string"); } },
            (Err(_), None) => {},
        }
    }
    t.done();
}

#[test]
fn verif_pure_file_hash()
{
    quiet();
    let mut t = Tally::new("B-A-file-hash");
    let mut system = FakeSystem::new(10);
    let mut sizes : Vec<usize> = (0..=40).collect();
    for base in [256usize, 512, 768, 1024].iter() { for d in 0..5 { sizes.push(base - 2 + d); } }
    sizes.push(1100); sizes.push(5000);
    /*  'random larger ones': around other plausible buffer sizes */
    for base in [4096usize, 8192, 65536, 131072].iter() { for d in 0..3 { sizes.push(base - 1 + d); } }
    sizes.push(70_052); sizes.push(300_007);
    for (k, size) in sizes.iter().enumerate()
    {
        t.case();
        let content : Vec<u8> = (0..*size).map(|i| ((i * 31 + k * 7) % 251) as u8).collect();
        let path = format!("f{}", k);
        { let mut f = system.create_file(&path).unwrap(); f.write_all(&content).unwrap(); }
        let got = TicketFactory::from_file(&system, &path).unwrap().result();
        let mut fac = TicketFactory::new(); fac.input_bytes(&content);
        if got != fac.result() { t.wrong(&format!("size {}", size), "hash of the file differs from the hash of its bytes"); }
        /*  the same bytes under another name and time give the same hash */
        let path2 = format!("other/dir{}", k); let _ = system.create_dir("other");
        { let mut f = system.create_file(&path2).unwrap(); f.write_all(&content).unwrap(); }
        if TicketFactory::from_file(&system, &path2).unwrap().result() != got { t.wrong(&format!("size {}", size), "hash depends on the path"); }
        /*  the same bytes with another LAST byte hash differently (SHA-256 collisions aside) */
        if *size > 0
        {
            let mut other = content.clone(); let n = other.len(); other[n - 1] ^= 0x55;
            let path3 = format!("g{}", k);
            { let mut f = system.create_file(&path3).unwrap(); f.write_all(&other).unwrap(); }
            if TicketFactory::from_file(&system, &path3).unwrap().result() == got { t.wrong(&format!("size {}", size), "two files that differ in their last byte get the same hash"); }
        }
    }
    t.done();
}

/*  C15: "the hash of a directory changes when any contained name or content changes": for a few directory trees, every
    single-point change (rename of a file or directory at any depth, change of a file's bytes at any depth, a file added or removed
    at any depth) and every such two-point change (two files trade contents; bytes move from one file to another) gives a different
    directory hash; the same tree built again gives the same hash */
fn make_tree(files: &Vec<(String, String)>) -> FakeSystem
{
    let mut system = FakeSystem::new(10);
    for (path, content) in files.iter()
    {
        let parts : Vec<&str> = path.split('/').collect();
        let mut dir = String::new();
        for d in parts[..parts.len() - 1].iter() { if !dir.is_empty() { dir.push('/'); } dir.push_str(d); if !system.is_dir(&dir) { system.create_dir(&dir).unwrap(); } }
        let mut f = system.create_file(path).unwrap(); f.write_all(content.as_bytes()).unwrap();
    }
    system
}
fn dir_hash(files: &Vec<(String, String)>) -> Option<Ticket>
{
    let system = make_tree(files);
    guard(|| TicketFactory::from_directory(&system, "out").ok().map(|mut f| f.result())).flatten()
}
#[test]
fn verif_pure_dir_hash()
{
    quiet();
    let mut t = Tally::new("B-A-dir-hash");
    let f = |p: &str, c: &str| (p.to_string(), c.to_string());
    let trees : Vec<Vec<(String, String)>> = vec![
        vec![f("out/a.txt", "A"), f("out/b.txt", "B")],
        vec![f("out/a.c", "int a() { return 1; }\n"), f("out/b.c", "int b() { return 2; }\nint c() { return 3; }\n"), f("out/c.h", "int a(); int b(); int c();\n")],
        vec![f("out/a.txt", "A"), f("out/sub/a.txt", "SA"), f("out/sub/c.txt", "SC")],
        vec![f("out/outline.txt", "O"), f("out/sub/subtotal.txt", "S"), f("out/sub/z.txt", "Z"), f("out/zz.txt", "ZZ")],
        vec![f("out/m.txt", "M"), f("out/sub/deep/x.txt", "X"), f("out/sub/deep/y.txt", "Y"), f("out/sub/k.txt", "K"), f("out/zub/x.txt", "X")],
    ];
    for tree in trees.iter()
    {
        t.case();
        let base = match dir_hash(tree) { Some(h) => h, None => { t.wrong(&format!("{:?}", tree), "from_directory failed or panicked"); continue; } };
        if dir_hash(tree) != Some(base.clone()) { t.wrong(&format!("{:?}", tree), "the same tree hashed twice gives two hashes"); }
        for i in 0..tree.len()
        {
            let (path, content) = tree[i].clone();
            let dir : String = path.rsplitn(2, '/').nth(1).unwrap().to_string();
            let mut variants : Vec<(String, Vec<(String, String)>)> = vec![];
            /*  rename the file (two new names: one sorting last in its directory, one keeping its place) */
            for new_name in ["zzz.txt", "a0.txt"].iter() { let mut v = tree.clone(); v[i].0 = format!("{}/{}", dir, new_name); variants.push((format!("rename {} to {}/{}", path, dir, new_name), v)); }
            /*  rename it to its name without the name of the directory it is in (names that contain their directory's name: lib/libfoo.a) */
            {
                let name : String = path.rsplitn(2, '/').next().unwrap().to_string();
                let last : String = dir.rsplitn(2, '/').next().unwrap().to_string();
                let stripped = name.replace(&last, "");
                if stripped != name && !stripped.is_empty() && !tree.iter().any(|e| e.0 == format!("{}/{}", dir, stripped)) { let mut v = tree.clone(); v[i].0 = format!("{}/{}", dir, stripped); variants.push((format!("rename {} to {}/{}", path, dir, stripped), v)); }
            }
            /*  change its bytes */
            { let mut v = tree.clone(); v[i].1 = format!("{}!", content); variants.push((format!("change the bytes of {}", path), v)); }
            /*  remove it (unless that empties the tree) */
            if tree.len() > 1 { let mut v = tree.clone(); v.remove(i); variants.push((format!("remove {}", path), v)); }
            /*  add a sibling */
            { let mut v = tree.clone(); v.push((format!("{}/new.txt", dir), "N".to_string())); variants.push((format!("add {}/new.txt", dir), v)); }
            /*  rename the directory it is in (below the root) */
            if dir != "out" { let mut v = tree.clone(); let nd = format!("{}_", dir); for e in v.iter_mut() { if e.0.starts_with(&format!("{}/", dir)) { e.0 = format!("{}{}", nd, &e.0[dir.len()..]); } } variants.push((format!("rename directory {} to {}", dir, nd), v)); }
            /*  changes at TWO places at once, with every other file of the tree: the two files trade contents; bytes move from the
                head of one to the tail of the other (the concatenation of all contents stays what it was); the two trade names */
            for j in 0..tree.len()
            {
                if j == i || tree[i].1 == tree[j].1 { continue; }
                { let mut v = tree.clone(); let c = v[i].1.clone(); v[i].1 = v[j].1.clone(); v[j].1 = c; variants.push((format!("{} and {} trade contents", path, tree[j].0), v)); }
                if i < j
                {
                    let mut v = tree.clone(); let moved : String = v[j].1.chars().take(1).collect(); v[i].1.push_str(&moved); v[j].1 = v[j].1.chars().skip(1).collect();
                    variants.push((format!("the first byte of {} moves to the end of {}", tree[j].0, path), v));
                }
            }
            for (what, v) in variants.iter()
            {
                t.case();
                match dir_hash(v) { Some(h) => if h == base { t.wrong(&format!("{:?}", tree), &format!("{}: the directory hash does not change", what)); }, None => t.wrong(&format!("{:?}", v), "from_directory failed or panicked") }
            }
        }
    }
    t.done();
}

/*  C07 / C18 assume "distinct writes carry distinct modification times"; ruler compares modification times through
    get_timestamp: distinct times (to the microsecond) must stay distinct and ordered */
#[test]
fn verif_pure_timestamp()
{
    quiet();
    let mut t = Tally::new("B-D-timestamp");
    let mut micros : Vec<u64> = (0..6000u64).map(|i| i * 500).collect();
    for base in [1_000_000u64, 60_000_000, 1_700_000_000_000_000].iter() { for d in [0u64, 1, 999, 1_000, 998_999, 999_000, 999_001, 999_999, 1_000_000, 1_000_001, 1_998_000, 1_999_999].iter() { micros.push(base + d); } }
    micros.sort(); micros.dedup();
    let mut last : Option<(u64, u64)> = None;
    for m in micros.iter()
    {
        t.case();
        let time = std::time::SystemTime::UNIX_EPOCH + std::time::Duration::from_micros(*m);
        match crate::system::util::get_timestamp(time)
        {
            Ok(stamp) =>
            {
                if let Some((lm, ls)) = last { if stamp <= ls { t.wrong(&format!("{} us and {} us", lm, m), &format!("distinct modification times are stamped {} and {}", ls, stamp)); } }
                last = Some((*m, stamp));
            },
            Err(_) => t.wrong(&format!("{} us", m), "get_timestamp fails for a time after the epoch"),
        }
    }
    t.done();
}

fn sv(v: &[&str]) -> Vec<String> { v.iter().map(|s| s.to_string()).collect() }

#[test]
fn verif_pure_rule_identity()
{
    quiet();
    let mut t = Tally::new("B-B-rule-identity");
    /*  a small universe of parser-producible rules, including adversarial near-misses */
    let lists : Vec<Vec<String>> = vec![sv(&["a"]), sv(&["ab"]), sv(&["a", "b"]), sv(&["b", "a"]), sv(&["a", "bc"]), sv(&["ab", "c"]), sv(&["a:", "b"]), sv(&["a", ":b"]), sv(&["a b"]), sv(&["a", "b", "c"]), sv(&["a "]), sv(&["a\t"]), sv(&[" a"])];
    let cmds : Vec<Vec<String>> = vec![sv(&["cp", "-r", "a", "backup"]), sv(&["cp", "-ra", "backup"]), sv(&["cp -r a backup"]), sv(&["mycat", "a", "b", "out"]), sv(&["mycat", "ab", "out"]), sv(&["x", ":", "y"]), sv(&["x", "y"]), sv(&["x ", "y"]), sv(&["x", "y "])];
    let mut rules : Vec<Rule> = vec![];
    for tg in lists.iter() { for sr in lists.iter() { for c in cmds.iter() { rules.push(Rule::new(tg.clone(), sr.clone(), c.clone())); } } }
    let key = |r: &Rule| { let mut a = r.targets.clone(); a.sort(); let mut b = r.sources.clone(); b.sort(); (a, b, r.command.clone()) };
    let tickets : Vec<Ticket> = rules.iter().map(|r| r.get_ticket()).collect();
    for i in 0..rules.len()
    {
        for j in (i + 1)..rules.len()
        {
            t.case();
            let same = key(&rules[i]) == key(&rules[j]);
            if same != (tickets[i] == tickets[j])
            {
                t.wrong(&format!("{:?} / {:?}", rules[i], rules[j]), if same { "same targets, sources and command but different identities" } else { "different rules share one identity" });
            }
        }
    }
    /*  the hashed layout is the documented one */
    for r in rules.iter().take(60)
    {
        t.case();
        let mut text = String::new();
        let (a, b, c) = key(r);
        for x in a.iter() { text.push_str(x); text.push('\n'); } text.push_str("\n:\n");
        for x in b.iter() { text.push_str(x); text.push('\n'); } text.push_str("\n:\n");
        for x in c.iter() { text.push_str(x); text.push('\n'); } text.push_str("\n:\n");
        if TicketFactory::from_str(&text).result() != r.get_ticket() { t.wrong(&format!("{:?}", r), "identity is not the hash of the documented layout"); }
    }
    t.done();
}

/*  reference for the section state machine of the rules format */
fn ref_parse(lines: &Vec<String>) -> Result<Vec<(Vec<String>, Vec<String>, Vec<String>)>, String>
{
    let mut mode = 0; let mut rules : Vec<(Vec<String>, Vec<String>, Vec<String>)> = vec![]; let mut n = 1;
    let mut cl : Vec<String> = vec![];
    let (mut tl, mut sl) : (Vec<&str>, Vec<&str>) = (vec![], vec![]);
    for line in lines.iter()
    {
        match (mode, line.as_str())
        {
            (0, "") => {}, (0, ":") => return Err(format!("ExtraColon@{}", n)), (0, l) => { mode = 1; tl.push(l); },
            (_, "") => return Err(format!("EmptyLine@{}", n)),
            (1, ":") => mode = 2, (1, l) => tl.push(l),
            (2, ":") => mode = 3, (2, l) => sl.push(l),
            (3, ":") => {
                if let Err(e) = PathBundle::parse_lines(tl.clone()) { return Err(format!("Bundle({:?})", e)); }
                if let Err(e) = PathBundle::parse_lines(sl.clone()) { return Err(format!("Bundle({:?})", e)); }
                /*  the paths a section means: the independent bundle reference below (repeated entries are merged) */
                let t = ref_bundle(&tl).unwrap_or(vec!["<reference rejects>".to_string()]); let s = ref_bundle(&sl).unwrap_or(vec!["<reference rejects>".to_string()]);
                rules.push((t, s, cl.clone()));
                tl.clear(); sl.clear(); cl.clear(); mode = 0; },
            (3, l) => cl.push(l.to_string()),
            _ => {},
        }
        n += 1;
    }
    match mode { 0 => Ok(rules), 1 => Err(format!("EofTargets@{}", n)), 2 => Err(format!("EofSources@{}", n)), _ => Err(format!("EofCommand@{}", n)) }
}

#[test]
fn verif_pure_parser()
{
    quiet();
    let mut t = Tally::new("B-P-parse-state-machine");
    let tokens = ["", ":", "a", "b", "\tc", "x y"];
    for len in 0..=7usize
    {
        let total = tokens.len().pow(len as u32);
        for code in 0..total
        {
            let mut c = code; let mut lines : Vec<String> = vec![];
            for _ in 0..len { lines.push(tokens[c % tokens.len()].to_string()); c /= tokens.len(); }
            t.case();
            let text = lines.join("\n");
            let split : Vec<String> = text.split('\n').map(|s| s.to_string()).collect();
            let want = ref_parse(&split);
            let parsed = match guard(|| parse("f.rules".to_string(), text.clone())) { Some(p) => p, None => { t.wrong(&format!("{:?}", text), "parse PANICKED"); continue; } };
            let got = match parsed
            {
                Ok(rs) => Ok(rs.iter().map(|r| (r.targets.clone(), r.sources.clone(), r.command.clone())).collect::<Vec<_>>()),
                Err(ParseError::UnexpectedEmptyLine(f, n)) => Err(format!("EmptyLine@{}{}", n, if f == "f.rules" { "" } else { " wrong file" })),
                Err(ParseError::UnexpectedExtraColon(_, n)) => Err(format!("ExtraColon@{}", n)),
                Err(ParseError::UnexpectedEndOfFileMidTargets(_, n)) => Err(format!("EofTargets@{}", n)),
                Err(ParseError::UnexpectedEndOfFileMidSources(_, n)) => Err(format!("EofSources@{}", n)),
                Err(ParseError::UnexpectedEndOfFileMidCommand(_, n)) => Err(format!("EofCommand@{}", n)),
                Err(ParseError::BundleError(_, e)) => Err(format!("Bundle({:?})", e)),
            };
            if got != want { t.wrong(&format!("{:?}", text), &format!("expected {:?} got {:?}", want, got)); }
        }
    }
    /*  LONG files: hundreds of rules, then nothing / each kind of damage far down (line numbers well beyond 255 and 65 535 are not
        reached here, but 1 500 is) */
    for n in [1usize, 40, 300].iter()
    {
        let mut body = String::new();
        for i in 0..*n { body.push_str(&format!("target{}.txt\nother{}.txt\n:\nsource{}.txt\n:\ncc\n-o\ntarget{}.txt\nsource{}.txt\n:\n\n", i, i, i, i, i)); }
        for tail in ["", "late.txt\n:\nsrc.txt\n:\ncmd\n:\n", "late.txt\n\n", "late.txt\n:\n:\n:\n:\n", "late.txt\n:\nsrc.txt", "late.txt", "late.txt\n:\nsrc.txt\n:\ncmd", "\t\tdeep.txt\n:\ns\n:\nc\n:\n"].iter()
        {
            t.case();
            let text = format!("{}{}", body, tail);
            let split : Vec<String> = text.split('\n').map(|s| s.to_string()).collect();
            let want = ref_parse(&split);
            let parsed = match guard(|| parse("f.rules".to_string(), text.clone())) { Some(p) => p, None => { t.wrong(&format!("{} rules + {:?}", n, tail), "parse PANICKED"); continue; } };
            let got = match parsed
            {
                Ok(rs) => Ok(rs.iter().map(|r| (r.targets.clone(), r.sources.clone(), r.command.clone())).collect::<Vec<_>>()),
                Err(ParseError::UnexpectedEmptyLine(f, n)) => Err(format!("EmptyLine@{}{}", n, if f == "f.rules" { "" } else { " wrong file" })),
                Err(ParseError::UnexpectedExtraColon(_, n)) => Err(format!("ExtraColon@{}", n)),
                Err(ParseError::UnexpectedEndOfFileMidTargets(_, n)) => Err(format!("EofTargets@{}", n)),
                Err(ParseError::UnexpectedEndOfFileMidSources(_, n)) => Err(format!("EofSources@{}", n)),
                Err(ParseError::UnexpectedEndOfFileMidCommand(_, n)) => Err(format!("EofCommand@{}", n)),
                Err(ParseError::BundleError(_, e)) => Err(format!("Bundle({:?})", e)),
            };
            if got != want { t.wrong(&format!("{} rules + {:?}", n, tail), &format!("expected {:?} got {:?}", want.as_ref().map(|v| v.len()), got.as_ref().map(|v| v.len()))); }
        }
    }
    t.done();
}

/*  the meaning of a bundle text, computed independently: every line is a name at its tab depth; a line followed by deeper lines
    is a directory whose children are those lines; the same name may be repeated at one level only with the same meaning
    (repeated entries are merged); the leaves are the paths */
#[derive(PartialEq, Clone, Debug)]
enum RefNode { Leaf, Dir(std::collections::BTreeMap<String, RefNode>) }
fn ref_level(level: usize, lines: &[(usize, String)]) -> Option<std::collections::BTreeMap<String, RefNode>>
{
    if lines.is_empty() || lines[0].0 != level { return None; }
    let mut out = std::collections::BTreeMap::new();
    let mut i = 0;
    while i < lines.len()
    {
        if lines[i].0 != level { return None; }
        let mut j = i + 1;
        while j < lines.len() && lines[j].0 > level { j += 1; }
        let node = if j > i + 1 { RefNode::Dir(ref_level(level + 1, &lines[i + 1..j])?) } else { RefNode::Leaf };
        match out.get(&lines[i].1) { Some(old) if *old != node => return None, _ => { out.insert(lines[i].1.clone(), node); } }
        i = j;
    }
    Some(out)
}
fn ref_paths(prefix: &str, m: &std::collections::BTreeMap<String, RefNode>, out: &mut Vec<String>)
{
    for (name, node) in m.iter() { match node { RefNode::Leaf => out.push(format!("{}{}", prefix, name)), RefNode::Dir(c) => ref_paths(&format!("{}{}/", prefix, name), c, out) } }
}
fn ref_bundle(lines: &Vec<&str>) -> Option<Vec<String>>
{
    let mut lines = lines.clone();
    if lines.last() == Some(&"") { lines.pop(); }
    let mut numbered = vec![];
    for l in lines.iter()
    {
        let level = l.chars().take_while(|c| *c == '\t').count();
        let name : String = l.chars().skip(level).collect();
        if name.is_empty() { return None; }
        numbered.push((level, name));
    }
    let tree = ref_level(0, &numbered)?;
    let mut out = vec![]; ref_paths("", &tree, &mut out);
    Some(out)
}

#[test]
fn verif_pure_bundle()
{
    quiet();
    let mut t = Tally::new("B-P-bundle-meaning");
    let tokens = ["gen", "lib", "\tparser.c", "\tlexer.c", "\t\tdeep.c", "\tsub", "", "gen\t", "\tparser.c\t", "\u{8a69}"];      /*  the last one: a non-ASCII (three-byte) directory name */
    for len in 1..=5usize
    {
        let total = tokens.len().pow(len as u32);
        for code in 0..total
        {
            let mut c = code; let mut lines : Vec<&str> = vec![];
            for _ in 0..len { lines.push(tokens[c % tokens.len()]); c /= tokens.len(); }
            t.case();
            let want = ref_bundle(&lines);
            let got = match guard(|| match PathBundle::parse_lines(lines.clone()) { Ok(b) => Some(b.get_path_strings('/')), Err(_) => None }) { Some(g) => g, None => { t.wrong(&format!("{:?}", lines), "bundle parsing PANICKED"); continue; } };
            /*  "rejected with the matching error kind at the offending line": a wrong-indent error names a line that IS indented more
                than one level deeper than the line before it (or the first line, if it is indented at all); an empty-lines error
                lists exactly the lines that hold nothing but tabs; a contradiction names two lines with the same name */
            if let Some(Err(e)) = guard(|| PathBundle::parse_lines(lines.clone()))
            {
                let mut body = lines.clone(); if body.last() == Some(&"") { body.pop(); }
                let level = |l: &str| l.chars().take_while(|c| *c == '\t').count();
                match e
                {
                    bundle::ParseError::WrongIndent(n) =>
                    {
                        let offending = n < body.len() && (if n == 0 { level(body[0]) > 0 } else { level(body[n]) > level(body[n - 1]) + 1 });
                        if !offending { t.wrong(&format!("{:?}", lines), &format!("wrong indent reported on line {}, which is not an over-indented line", n)); }
                    },
                    bundle::ParseError::ContainsEmptyLines(v) =>
                    {
                        let want : Vec<usize> = body.iter().enumerate().filter(|(_, l)| l.chars().all(|c| c == '\t')).map(|(i, _)| i).collect();
                        if v != want { t.wrong(&format!("{:?}", lines), &format!("empty lines reported at {:?}, the lines holding nothing but tabs are {:?}", v, want)); }
                    },
                    bundle::ParseError::Contradiction(a, b) =>
                    {
                        let name = |l: &str| -> String { l.chars().skip(level(l)).collect() };
                        if a >= body.len() || b >= body.len() || a >= b || name(body[a]) != name(body[b]) || level(body[a]) != level(body[b]) { t.wrong(&format!("{:?}", lines), &format!("contradiction reported between lines {} and {}, which are not an earlier and a later entry of one name at one level", a, b)); }
                    },
                    bundle::ParseError::Empty => { if !body.is_empty() { t.wrong(&format!("{:?}", lines), "reported as empty, but there are lines"); } },
                }
            }
            match (&want, &got)
            {
                (Some(w), Some(g)) => { if g != w { t.wrong(&format!("{:?}", lines), &format!("paths {:?} expected {:?}", g, w)); } },
                (None, None) => {},
                (Some(w), None) => t.wrong(&format!("{:?}", lines), &format!("well-formed bundle rejected (expected {:?})", w)),
                (None, Some(g)) => t.wrong(&format!("{:?}", lines), &format!("malformed bundle accepted as {:?}", g)),
            }
        }
    }
    /*  WIDE levels: many entries on one level with exactly one contradiction (one name once as a directory, once as a plain entry):
        the error names exactly these two lines, the earlier one first */
    {
        let mut x : u64 = 0x9E3779B97F4A7C15;
        let mut next = move |n: u64| -> u64 { x ^= x << 13; x ^= x >> 7; x ^= x << 17; x % n };
        for width in [12usize, 33, 40, 64, 90].iter()
        {
            for _ in 0..40
            {
                let i = next(*width as u64) as usize; let mut j = next(*width as u64) as usize; if j == i { j = (i + 1) % *width; }
                let (dir_at, leaf_at) = (i, j);
                let mut owned : Vec<String> = vec![]; let mut line_of = vec![0usize; *width];
                /*  names in a scrambled order, so that sorting has something to do */
                for k in 0..*width
                {
                    line_of[k] = owned.len();
                    if k == dir_at { owned.push("twice".to_string()); owned.push("\tinside.c".to_string()); }
                    else if k == leaf_at { owned.push("twice".to_string()); }
                    else { owned.push(format!("e{:03}", (k * 37) % 101)); }
                }
                let lines : Vec<&str> = owned.iter().map(|s| s.as_str()).collect();
                let (a, b) = if line_of[dir_at] < line_of[leaf_at] { (line_of[dir_at], line_of[leaf_at]) } else { (line_of[leaf_at], line_of[dir_at]) };
                t.case();
                match guard(|| PathBundle::parse_lines(lines.clone()))
                {
                    Some(Err(bundle::ParseError::Contradiction(x, y))) => if (x, y) != (a, b) { t.wrong(&format!("{} entries on one level, 'twice' at lines {} and {}", width, a, b), &format!("contradiction reported between lines {} and {}", x, y)); },
                    Some(other) => t.wrong(&format!("{} entries on one level, 'twice' at lines {} and {}", width, a, b), &format!("expected a contradiction, got {}", match other { Ok(_) => "Ok".to_string(), Err(e) => format!("{:?}", e) })),
                    None => t.wrong(&format!("{} entries on one level", width), "bundle parsing PANICKED"),
                }
            }
        }
    }
    let _ = bundle::ParseError::Empty;
    t.done();
}

#[test]
fn verif_pure_compare_insert()
{
    quiet();
    let mut t = Tally::new("B-D-compare-insert");
    let tk = |i: u8| TicketFactory::from_str(&format!("t{}", i)).result();
    for la in 0..4usize { for lb in 0..4usize {
        let total = 3usize.pow((la + lb) as u32);
        for code in 0..total
        {
            let mut c = code;
            let mut a = vec![]; for _ in 0..la { a.push(tk((c % 3) as u8)); c /= 3; }
            let mut b = vec![]; for _ in 0..lb { b.push(tk((c % 3) as u8)); c /= 3; }
            t.case();
            let want : Result<(), Option<Vec<usize>>> = if la != lb { Err(None) } else { let d : Vec<usize> = (0..la).filter(|i| a[*i] != b[*i]).collect(); if d.is_empty() { Ok(()) } else { Err(Some(d)) } };
            let fa = FileStateVec::from_ticket_vec(a.clone()); let fb = FileStateVec::from_ticket_vec(b.clone());
            let got = match fa.compare(fb.clone()) { Ok(()) => Ok(()), Err(BlobError::Contradiction(v)) => Err(Some(v)), Err(BlobError::TargetSizesDifferWeird) => Err(None) };
            if got != want { t.wrong(&format!("{} vs {}", la, lb), &format!("compare gives {:?} expected {:?}", got, want)); }
            let mut h = RuleHistory::new();
            h.insert(tk(9), fa.clone()).unwrap();
            let got2 = match h.insert(tk(9), fb.clone()) { Ok(()) => Ok(()), Err(RuleHistoryInsertError::Contradiction(v)) => Err(Some(v)), Err(RuleHistoryInsertError::TargetSizesDifferWeird) => Err(None) };
            if got2 != want { t.wrong(&format!("{} vs {}", la, lb), &format!("insert gives {:?} expected {:?}", got2, want)); }
            if h.get_file_state_vec(&tk(9)) != Some(&fa) { t.wrong(&format!("{} vs {}", la, lb), "the earlier record was not kept"); }
        }
    } }
    /*  near misses: hashes that differ in ONE byte (any of the 32) are different hashes for compare, for insert and for the look-up */
    {
        let mut base = [0u8; 32]; for (i, b) in base.iter_mut().enumerate() { *b = (i as u8).wrapping_mul(37).wrapping_add(11); }
        for i in 0..32usize
        {
            let mut other = base; other[i] ^= 0x10;
            let (x, y) = (ticket_of_bytes(&base), ticket_of_bytes(&other));
            let fx = FileStateVec::from_ticket_vec(vec![x.clone(), x.clone()]); let fy = FileStateVec::from_ticket_vec(vec![x.clone(), y.clone()]);
            t.case();
            match fx.compare(fy.clone()) { Err(BlobError::Contradiction(v)) if v == vec![1usize] => {}, other => t.wrong(&format!("near miss in byte {}", i), &format!("compare gives {:?}, expected Contradiction([1])", other)) }
            let mut h = RuleHistory::new();
            h.insert(x.clone(), fx.clone()).unwrap();
            t.case();
            match h.insert(x.clone(), fy.clone()) { Err(RuleHistoryInsertError::Contradiction(v)) if v == vec![1usize] => {}, other => t.wrong(&format!("near miss in byte {}", i), &format!("insert gives {:?}, expected Contradiction([1])", other)) }
            t.case();
            if h.get_file_state_vec(&y).is_some() { t.wrong(&format!("near miss in byte {}", i), "a record is found under a source hash that was never recorded"); }
            t.case();
            if h.insert(y.clone(), fy.clone()).is_err() || h.get_file_state_vec(&y) != Some(&fy) || h.get_file_state_vec(&x) != Some(&fx) { t.wrong(&format!("near miss in byte {}", i), "records under two source hashes that differ in one byte disturb each other"); }
        }
    }
    /*  a LONG history: a record, once made, stays -- however many other source states are recorded after it */
    {
        let big = |i: usize| TicketFactory::from_str(&format!("source state {}", i)).result();
        let out = |i: usize| FileStateVec::from_ticket_vec(vec![TicketFactory::from_str(&format!("output {}", i)).result()]);
        let mut h = RuleHistory::new();
        for i in 0..300usize { t.case(); if h.insert(big(i), out(i)).is_err() { t.wrong(&format!("record {}", i), "a first record is refused"); } }
        for i in 0..300usize
        {
            t.case();
            if h.get_file_state_vec(&big(i)) != Some(&out(i)) { t.wrong(&format!("record {} of 300", i), "an earlier record is gone or changed"); }
            match h.insert(big(i), out(i + 1000)) { Err(RuleHistoryInsertError::Contradiction(v)) if v == vec![0] => {}, _ => t.wrong(&format!("record {} of 300", i), "another output for recorded sources is not reported as a contradiction") }
        }
    }
    t.done();
}
