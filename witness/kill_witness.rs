/*  BOUNDED stand-in (labelled bounded, never counted as proved) for C11 on `build()` / `clean()` as a whole: fault enumeration.
    KillSystem wraps the crate's FakeSystem and counts every mutation that goes through the System interface (create, each write
    call, rename, mkdir, chmod, remove, command).  After an allowance of N mutations every further mutation is refused, so the disk
    stays as it was at that instant -- what a kill leaves behind.  With `torn`, the refused mutation, if it is a write, still puts
    the first half of its bytes on disk (a torn write).  For every scenario of a small corpus and every N (until the invocation runs
    to its end without being refused anything) the oracles from the property text are applied:
      at the instant of the kill:  the cache is content-addressed; no content held before the invocation (at a target path or in
                                   the cache) is gone, unless a command of this invocation ran (overwriting is the command's doing)
      afterwards:                  the next build, undisturbed, succeeds and leaves the from-scratch outputs (C01)
    A fake command is one mutation: kills inside commands are not enumerated.  The interrupted invocation keeps running after the
    refusal (its later mutations are refused as well); what it reports or whether it panics does not matter.
    For two scenarios the invocation AFTER the kill is killed as well, at every one of its own points (two kills in a row).
    Output: `WITNESS B-kill-C11 :: <scenario> kill after N (<last mutation>) :: <what>` and `SUMMARY B-kill-C11 cases=N disagreements=M`. */
use crate::build::{build, clean, BuildParams};
use crate::printer::EmptyPrinter;
use crate::system::{System, SystemError, CommandLineOutput, CommandScript};
use crate::system::fake::{FakeSystem, FakeOpenFile};
use crate::system::util::{write_str_to_file, read_file_to_string};
use crate::ticket::TicketFactory;
use std::collections::BTreeSet;
use std::io::{Error, ErrorKind, Read, Write};
use std::panic::{catch_unwind, AssertUnwindSafe};
use std::sync::{Arc, Mutex};
use std::time::SystemTime;

struct FuseState { allowance: usize, torn: bool, done: Vec<String>, blown: bool }
#[derive(Clone)]
struct Fuse(Arc<Mutex<FuseState>>);
impl Fuse
{
    fn new(allowance: usize, torn: bool) -> Fuse { Fuse(Arc::new(Mutex::new(FuseState { allowance, torn, done: vec![], blown: false }))) }
    /*  0 = refused, 1 = go ahead, 2 = refused but (torn mode, first refusal) a write may put half of its bytes down */
    fn spend(&self, label: String) -> u8
    {
        let mut s = self.0.lock().unwrap();
        if s.done.len() < s.allowance { s.done.push(label); 1 }
        else { let first = !s.blown; s.blown = true; if first && s.torn { s.done.push(format!("TORN {}", label)); 2 } else { 0 } }
    }
    fn blown(&self) -> bool { self.0.lock().unwrap().blown }
    fn last(&self) -> String { self.0.lock().unwrap().done.last().cloned().unwrap_or("nothing yet".to_string()) }
    fn commands_ran(&self) -> bool { self.0.lock().unwrap().done.iter().any(|l| l.starts_with("command")) }
    fn labels(&self) -> Vec<String> { self.0.lock().unwrap().done.clone() }
}

struct KillFile { inner: FakeOpenFile, path: String, fuse: Fuse }
impl std::fmt::Debug for KillFile { fn fmt(&self, f: &mut std::fmt::Formatter<'_>) -> std::fmt::Result { write!(f, "KillFile({})", self.path) } }
impl Read for KillFile { fn read(&mut self, buf: &mut [u8]) -> std::io::Result<usize> { self.inner.read(buf) } }
impl Write for KillFile
{
    fn write(&mut self, buf: &[u8]) -> std::io::Result<usize>
    {
        match self.fuse.spend(format!("write {} bytes to {}", buf.len(), self.path))
        {
            1 => self.inner.write(buf),
            2 => { let _ = self.inner.write(&buf[..buf.len() / 2]); Err(Error::new(ErrorKind::Other, "killed")) },
            _ => Err(Error::new(ErrorKind::Other, "killed")),
        }
    }
    fn flush(&mut self) -> std::io::Result<()> { self.inner.flush() }
}

#[derive(Clone)]
struct KillSystem { inner: FakeSystem, fuse: Fuse }
impl std::fmt::Debug for KillSystem { fn fmt(&self, f: &mut std::fmt::Formatter<'_>) -> std::fmt::Result { write!(f, "KillSystem") } }
impl KillSystem { fn ok(&self, label: String) -> bool { self.fuse.spend(label) == 1 } }
impl System for KillSystem
{
    type File = KillFile;
    fn open(&self, path: &str) -> Result<Self::File, SystemError> { Ok(KillFile { inner: self.inner.open(path)?, path: path.to_string(), fuse: self.fuse.clone() }) }
    fn create_file(&mut self, path: &str) -> Result<Self::File, SystemError>
    {
        if !self.ok(format!("create {}", path)) { return Err(SystemError::Weird); }
        Ok(KillFile { inner: self.inner.create_file(path)?, path: path.to_string(), fuse: self.fuse.clone() })
    }
    fn create_dir(&mut self, path: &str) -> Result<(), SystemError> { if !self.ok(format!("mkdir {}", path)) { return Err(SystemError::Weird); } self.inner.create_dir(path) }
    fn is_dir(&self, path: &str) -> bool { self.inner.is_dir(path) }
    fn is_file(&self, path: &str) -> bool { self.inner.is_file(path) }
    fn remove_file(&mut self, path: &str) -> Result<(), SystemError> { if !self.ok(format!("remove {}", path)) { return Err(SystemError::Weird); } self.inner.remove_file(path) }
    fn remove_dir(&mut self, path: &str) -> Result<(), SystemError> { if !self.ok(format!("rmdir {}", path)) { return Err(SystemError::Weird); } self.inner.remove_dir(path) }
    fn list_dir(&self, path: &str) -> Result<Vec<String>, SystemError> { self.inner.list_dir(path) }
    fn rename(&mut self, from: &str, to: &str) -> Result<(), SystemError> { if !self.ok(format!("rename {} to {}", from, to)) { return Err(SystemError::Weird); } self.inner.rename(from, to) }
    fn get_modified(&self, path: &str) -> Result<SystemTime, SystemError> { self.inner.get_modified(path) }
    fn is_executable(&self, path: &str) -> Result<bool, SystemError> { self.inner.is_executable(path) }
    fn set_is_executable(&mut self, path: &str, executable: bool) -> Result<(), SystemError> { if !self.ok(format!("chmod {}", path)) { return Err(SystemError::Weird); } self.inner.set_is_executable(path, executable) }
    fn execute_command(&mut self, command_script: CommandScript) -> Vec<Result<CommandLineOutput, SystemError>>
    {
        if !self.ok(format!("command {}", command_script)) { return vec![Err(SystemError::CommandExecutationFailed("killed".to_string()))]; }
        self.inner.execute_command(command_script)
    }
}

const RULES : &str = "\
stanza.txt
:
verse.txt
:
mycat
verse.txt
stanza.txt
:

poem.txt
:
refrain.txt
stanza.txt
:
mycat
stanza.txt
refrain.txt
poem.txt
:

aside.txt
copy.txt
:
note.txt
:
mycat2
note.txt
aside.txt
copy.txt
:
";
const TARGETS : [&str; 4] = ["stanza.txt", "poem.txt", "aside.txt", "copy.txt"];

fn params() -> BuildParams { BuildParams::from_all(".ruler".to_string(), vec!["build.rules".to_string()], None, None) }
fn read(system: &FakeSystem, p: &str) -> Option<String> { let mut s = system.clone(); if s.is_file(p) { read_file_to_string(&mut s, p).ok() } else { None } }
fn held(system: &FakeSystem) -> BTreeSet<String>
{
    let mut out = BTreeSet::new();
    for p in TARGETS.iter() { if let Some(c) = read(system, p) { out.insert(c); } }
    if let Ok(names) = system.list_dir(".ruler/cache") { for n in names { if let Some(c) = read(system, &n) { out.insert(c); } } }
    out
}
fn cache_ok(system: &FakeSystem) -> Option<String>
{
    if let Ok(names) = system.list_dir(".ruler/cache")
    {
        for n in names
        {
            if let Some(c) = read(system, &n)
            {
                if !n.ends_with(&TicketFactory::from_str(&c).result().human_readable()) { return Some(format!("cache entry {} holds content hashing to another name", n)); }
            }
        }
    }
    None
}

#[derive(Clone, Copy, Debug, PartialEq)]
enum Last { Build, Clean }
/*  a scenario: what happens before the invocation that gets killed, and which invocation that is */
struct Scenario { name: &'static str, prior: fn(&mut FakeSystem), last: Last }

fn ok_build(system: &mut FakeSystem) { system.time_passes(1); build(system.clone(), &mut EmptyPrinter::new(), params()).unwrap(); system.time_passes(1); }
fn ok_clean(system: &mut FakeSystem) { system.time_passes(1); clean(system.clone(), ".ruler", vec!["build.rules".to_string()], None).unwrap(); system.time_passes(1); }
fn p_none(_s: &mut FakeSystem) {}
fn p_built_then_edit(s: &mut FakeSystem) { ok_build(s); write_str_to_file(s, "verse.txt", "Violets are blue.\n").unwrap(); }
fn p_built(s: &mut FakeSystem) { ok_build(s); }
fn p_built_cleaned(s: &mut FakeSystem) { ok_build(s); ok_clean(s); }
fn p_built_tampered(s: &mut FakeSystem) { ok_build(s); write_str_to_file(s, "stanza.txt", "tampered\n").unwrap(); write_str_to_file(s, "aside.txt", "scribble\n").unwrap(); }
fn p_flip_back(s: &mut FakeSystem)
{
    ok_build(s); write_str_to_file(s, "verse.txt", "Violets are blue.\n").unwrap(); ok_build(s);
    write_str_to_file(s, "verse.txt", "Roses are red.\n").unwrap();
}
fn p_built_edit_note(s: &mut FakeSystem) { ok_build(s); write_str_to_file(s, "note.txt", "P.S.\n").unwrap(); }

fn set_up(sc: &Scenario) -> FakeSystem
{
    let mut system = FakeSystem::new(10);
    write_str_to_file(&mut system, "build.rules", RULES).unwrap();
    write_str_to_file(&mut system, "verse.txt", "Roses are red.\n").unwrap();
    write_str_to_file(&mut system, "refrain.txt", "La la la.\n").unwrap();
    write_str_to_file(&mut system, "note.txt", "N.B.\n").unwrap();
    (sc.prior)(&mut system);
    system.time_passes(1);
    system
}

#[test]
fn verif_kill_points()
{
    let scenarios = [
        Scenario { name: "first build", prior: p_none, last: Last::Build },
        Scenario { name: "build; edit verse; build", prior: p_built_then_edit, last: Last::Build },
        Scenario { name: "build; clean", prior: p_built, last: Last::Clean },
        Scenario { name: "build; clean; build", prior: p_built_cleaned, last: Last::Build },
        Scenario { name: "build; tamper two targets; build", prior: p_built_tampered, last: Last::Build },
        Scenario { name: "build; tamper two targets; clean", prior: p_built_tampered, last: Last::Clean },
        Scenario { name: "build A; build B; back to A; build", prior: p_flip_back, last: Last::Build },
        Scenario { name: "build; edit note (two-target rule); build", prior: p_built_edit_note, last: Last::Build },
    ];
    let mut cases = 0usize; let mut bad = 0usize; let mut paths_cases = 0usize; let mut paths_bad = 0usize;
    for sc in scenarios.iter()
    {
        for torn in [false, true].iter()
        {
            let mut allowance = 0usize;
            loop
            {
                let mut system = set_up(sc);
                let before = held(&system);
                let fuse = Fuse::new(allowance, *torn);
                let ks = KillSystem { inner: system.clone(), fuse: fuse.clone() };
                let _ = catch_unwind(AssertUnwindSafe(||
                {
                    match sc.last
                    {
                        Last::Build => { let _ = build(ks, &mut EmptyPrinter::new(), params()); },
                        Last::Clean => { let _ = clean(ks, ".ruler", vec!["build.rules".to_string()], None); },
                    }
                }));
                cases += 1;
                let at = format!("{}{} kill after {} ({})", sc.name, if *torn { " [torn write]" } else { "" }, allowance, fuse.last());
                let mut complaints : Vec<String> = vec![];
                /*  at the instant of the kill */
                if let Some(c) = cache_ok(&system) { complaints.push(c); }
                if !fuse.commands_ran()
                {
                    let now = held(&system);
                    for c in before.iter() { if !now.contains(c) { complaints.push(format!("content {:?} was held before the invocation and is gone at the kill", c)); } }
                }
                /*  the next invocation of ruler, undisturbed */
                system.time_passes(1);
                let next = catch_unwind(AssertUnwindSafe(|| build(system.clone(), &mut EmptyPrinter::new(), params())));
                match next
                {
                    Err(_) => complaints.push("the next build panics".to_string()),
                    Ok(Err(e)) => complaints.push(format!("the next build fails: {}", e)),
                    Ok(Ok(())) =>
                    {
                        let verse = read(&system, "verse.txt").unwrap(); let refrain = read(&system, "refrain.txt").unwrap(); let note = read(&system, "note.txt").unwrap();
                        let expect = [("stanza.txt", verse.clone()), ("poem.txt", format!("{}{}", verse, refrain)), ("aside.txt", note.clone()), ("copy.txt", note.clone())];
                        for (p, want) in expect.iter()
                        {
                            if read(&system, p).as_ref() != Some(want) { complaints.push(format!("after the next build {} holds {:?}, a from-scratch build gives {:?}", p, read(&system, p), want)); }
                        }
                        if let Some(c) = cache_ok(&system) { complaints.push(format!("after the next build: {}", c)); }
                    },
                }
                if !complaints.is_empty()
                {
                    bad += 1;
                    if bad <= 6 { println!("WITNESS B-kill-C11 :: {} :: {}", at, complaints.join("; ")); }
                }
                /*  C09, on the run that was not interrupted: every path ruler itself created, wrote, renamed, chmod-ed or removed is a
                    declared target or lies inside ruler's own directory -- also the paths that exist only between two calls */
                if !fuse.blown() && !*torn
                {
                    paths_cases += 1;
                    let allowed = |p: &str| p.starts_with(".ruler/") || p == ".ruler" || TARGETS.contains(&p);
                    for l in fuse.labels().iter()
                    {
                        let ps : Vec<String> =
                            if let Some(r) = l.strip_prefix("create ") { vec![r.to_string()] }
                            else if let Some(r) = l.strip_prefix("mkdir ") { vec![r.to_string()] }
                            else if let Some(r) = l.strip_prefix("chmod ") { vec![r.to_string()] }
                            else if let Some(r) = l.strip_prefix("remove ") { vec![r.to_string()] }
                            else if let Some(r) = l.strip_prefix("rename ") { r.split(" to ").map(|x| x.to_string()).collect() }
                            else if l.starts_with("write ") { vec![l.rsplit(" to ").next().unwrap().to_string()] }
                            else { vec![] };
                        for p in ps.iter() { if !allowed(p) { paths_bad += 1; if paths_bad <= 4 { println!("WITNESS B-kill-C09 :: {} :: ruler itself touched {:?} ({}), which is neither a declared target nor inside its own directory", sc.name, p, l); } } }
                    }
                }
                /*  TWO kills in a row: the invocation that follows a kill is killed as well, at every one of its own points; the build
                    after that must still succeed with from-scratch outputs (for the two scenarios that start from a build) */
                if fuse.blown() && !*torn && (sc.name == "first build" || sc.name == "build; edit verse; build")
                {
                    let mut a2 = 0usize;
                    loop
                    {
                        let mut sys2 = set_up(sc);
                        let f1 = Fuse::new(allowance, false);
                        let k1 = KillSystem { inner: sys2.clone(), fuse: f1.clone() };
                        let _ = catch_unwind(AssertUnwindSafe(|| { let _ = build(k1, &mut EmptyPrinter::new(), params()); }));
                        sys2.time_passes(1);
                        let f2 = Fuse::new(a2, false);
                        let k2 = KillSystem { inner: sys2.clone(), fuse: f2.clone() };
                        let _ = catch_unwind(AssertUnwindSafe(|| { let _ = build(k2, &mut EmptyPrinter::new(), params()); }));
                        cases += 1;
                        let mut cs : Vec<String> = vec![];
                        if let Some(c) = cache_ok(&sys2) { cs.push(c); }
                        sys2.time_passes(1);
                        match catch_unwind(AssertUnwindSafe(|| build(sys2.clone(), &mut EmptyPrinter::new(), params())))
                        {
                            Err(_) => cs.push("the build after two kills panics".to_string()),
                            Ok(Err(e)) => cs.push(format!("the build after two kills fails: {}", e)),
                            Ok(Ok(())) =>
                            {
                                let verse = read(&sys2, "verse.txt").unwrap(); let refrain = read(&sys2, "refrain.txt").unwrap(); let note = read(&sys2, "note.txt").unwrap();
                                for (p, want) in [("stanza.txt", verse.clone()), ("poem.txt", format!("{}{}", verse, refrain)), ("aside.txt", note.clone()), ("copy.txt", note.clone())].iter()
                                {
                                    if read(&sys2, p).as_ref() != Some(want) { cs.push(format!("after two kills and a build {} holds {:?}, a from-scratch build gives {:?}", p, read(&sys2, p), want)); }
                                }
                                if let Some(c) = cache_ok(&sys2) { cs.push(format!("after two kills and a build: {}", c)); }
                            },
                        }
                        if !cs.is_empty() { bad += 1; if bad <= 6 { println!("WITNESS B-kill-C11 :: {} kill after {} ({}), next build killed after {} ({}) :: {}", sc.name, allowance, fuse.last(), a2, f2.last(), cs.join("; ")); } }
                        if !f2.blown() { break; }
                        a2 += 1;
                        if a2 > 400 { break; }
                    }
                }
                if !fuse.blown() { break; }
                allowance += 1;
                if allowance > 400 { println!("WITNESS B-kill-C11 :: {} :: more than 400 mutations in one invocation", sc.name); bad += 1; break; }
            }
        }
    }
    println!("SUMMARY B-kill-C11 cases={} disagreements={}", cases, bad);
    println!("SUMMARY B-kill-C09 cases={} disagreements={}", paths_cases, paths_bad);
}
