/*  BOUNDED stand-in (labelled bounded, never counted as proved) for `build()` / `clean()` as a whole -- the thread-spawning
    functions themselves cannot be brought within the verifier's reach.  Every history up to a stated length over a fixed set of
    user actions is run on the crate's own FakeSystem against oracles written from the property texts:
      C01  after a successful build every target equals the from-scratch output for the current sources
      C02  a build right after a successful build, with nothing changed, runs no command; so does a build right after a clean
      C07  every cache entry is named after the hash of its bytes
      C08  every content held at a target path or in the cache before an invocation is still held afterwards
      C09  no build or clean changes a source, the rules file, an undeclared file or (for a goal build / goal clean) a target that is out of scope
      C18  the same history with the file-state table erased before every build ends with the same files and verdicts
    Clock: one tick per user action and per ruler invocation (the FakeSystem clock; all writes of one invocation share a time).
    Output: `WITNESS <oracle> :: <history> :: <what>` and `SUMMARY <oracle> cases=N disagreements=M`. */
use crate::system::fake::FakeSystem;
use crate::system::System;
use crate::system::util::{write_str_to_file, read_file_to_string};
use crate::build::{build, clean, BuildParams};
use crate::printer::{EmptyPrinter, Printer};
use crate::ticket::TicketFactory;
use std::collections::BTreeSet;

const RULES : &str = "\
stanza.txt
:
verse.txt
:
mycat
verse.txt
stanza.txt
:

poem.txt
:
refrain.txt
stanza.txt
:
mycat
stanza.txt
refrain.txt
poem.txt
:

aside.txt
copy.txt
:
note.txt
refrain.txt
:
mycat
note.txt
aside.txt
;
mycat
note.txt
refrain.txt
copy.txt
:

left.txt
right.txt
:
l_src.txt
r_src.txt
:
mycat
l_src.txt
left.txt
;
mycat
r_src.txt
right.txt
:

tail.txt
:
refrain.txt
right.txt
:
mycat
right.txt
refrain.txt
tail.txt
:

song.txt
:
refrain.txt
verse.txt
:
mycat
refrain.txt
verse.txt
song.txt
;
mycat
hidden.txt
song.chk
;
mycat
verse.txt
song.log
:

album.txt
:
note.txt
song.txt
:
mycat
song.txt
note.txt
album.txt
:
";

/*  a FakeSystem whose clock ticks at every mutation made through it */
#[derive(Clone)]
struct TickSystem { inner: FakeSystem, clock: std::sync::Arc<std::sync::atomic::AtomicU64>, local: u64 }
impl TickSystem
{
    /*  one shared clock for all clones (FakeSystem clones each carry their own time) */
    fn tick(&mut self) { let t = self.clock.fetch_add(1, std::sync::atomic::Ordering::SeqCst) + 1; self.inner.time_passes(t - self.local); self.local = t; }
}
impl std::fmt::Debug for TickSystem { fn fmt(&self, f: &mut std::fmt::Formatter<'_>) -> std::fmt::Result { write!(f, "TickSystem") } }
impl System for TickSystem
{
    type File = crate::system::fake::FakeOpenFile;
    fn open(&self, path: &str) -> Result<Self::File, crate::system::SystemError> { self.inner.open(path) }
    fn create_file(&mut self, path: &str) -> Result<Self::File, crate::system::SystemError> { self.tick(); self.inner.create_file(path) }
    fn create_dir(&mut self, path: &str) -> Result<(), crate::system::SystemError> { self.inner.create_dir(path) }
    fn is_dir(&self, path: &str) -> bool { self.inner.is_dir(path) }
    fn is_file(&self, path: &str) -> bool { self.inner.is_file(path) }
    fn remove_file(&mut self, path: &str) -> Result<(), crate::system::SystemError> { self.inner.remove_file(path) }
    fn remove_dir(&mut self, path: &str) -> Result<(), crate::system::SystemError> { self.inner.remove_dir(path) }
    fn list_dir(&self, path: &str) -> Result<Vec<String>, crate::system::SystemError> { self.inner.list_dir(path) }
    fn rename(&mut self, from: &str, to: &str) -> Result<(), crate::system::SystemError> { self.inner.rename(from, to) }
    fn get_modified(&self, path: &str) -> Result<std::time::SystemTime, crate::system::SystemError> { self.inner.get_modified(path) }
    fn is_executable(&self, path: &str) -> Result<bool, crate::system::SystemError> { self.inner.is_executable(path) }
    fn set_is_executable(&mut self, path: &str, executable: bool) -> Result<(), crate::system::SystemError> { self.inner.set_is_executable(path, executable) }
    fn execute_command(&mut self, command_script: crate::system::CommandScript) -> Vec<Result<crate::system::CommandLineOutput, crate::system::SystemError>>
    {
        /*  one tick per command line */
        let mut out = vec![];
        for line in command_script.lines.iter() { self.tick(); out.extend(self.inner.execute_command(crate::system::CommandScript { lines: vec![line.clone()] })); }
        out
    }
}

/*  a FakeSystem that holds up some of the renames into target paths for a moment: rule threads that take files back from the cache then
    reach the cache in another order (a mild schedule perturbation for the hand-picked histories; 0 = no delay) */
static SKEW : std::sync::atomic::AtomicUsize = std::sync::atomic::AtomicUsize::new(0);
#[derive(Clone)]
struct SkewSystem { inner: FakeSystem }
impl std::fmt::Debug for SkewSystem { fn fmt(&self, f: &mut std::fmt::Formatter<'_>) -> std::fmt::Result { write!(f, "SkewSystem") } }
impl System for SkewSystem
{
    type File = crate::system::fake::FakeOpenFile;
    fn open(&self, path: &str) -> Result<Self::File, crate::system::SystemError> { self.inner.open(path) }
    fn create_file(&mut self, path: &str) -> Result<Self::File, crate::system::SystemError> { self.inner.create_file(path) }
    fn create_dir(&mut self, path: &str) -> Result<(), crate::system::SystemError> { self.inner.create_dir(path) }
    fn is_dir(&self, path: &str) -> bool { self.inner.is_dir(path) }
    fn is_file(&self, path: &str) -> bool { self.inner.is_file(path) }
    fn remove_file(&mut self, path: &str) -> Result<(), crate::system::SystemError> { self.inner.remove_file(path) }
    fn remove_dir(&mut self, path: &str) -> Result<(), crate::system::SystemError> { self.inner.remove_dir(path) }
    fn list_dir(&self, path: &str) -> Result<Vec<String>, crate::system::SystemError> { self.inner.list_dir(path) }
    fn rename(&mut self, from: &str, to: &str) -> Result<(), crate::system::SystemError>
    {
        let k = SKEW.load(std::sync::atomic::Ordering::SeqCst);
        if k != 0 { if let Some(i) = TARGETS.iter().position(|t| *t == to || *t == from) { if i % 3 == k - 1 { std::thread::sleep(std::time::Duration::from_millis(15)); } } }
        self.inner.rename(from, to)
    }
    fn get_modified(&self, path: &str) -> Result<std::time::SystemTime, crate::system::SystemError> { self.inner.get_modified(path) }
    fn is_executable(&self, path: &str) -> Result<bool, crate::system::SystemError> { self.inner.is_executable(path) }
    fn set_is_executable(&mut self, path: &str, executable: bool) -> Result<(), crate::system::SystemError> { self.inner.set_is_executable(path, executable) }
    fn execute_command(&mut self, command_script: crate::system::CommandScript) -> Vec<Result<crate::system::CommandLineOutput, crate::system::SystemError>> { self.inner.execute_command(command_script) }
}

/*  records the status lines of a build, for the C20 oracle */
struct RecordingPrinter { banners: Vec<(String, String)>, errors: Vec<String> }
impl Printer for RecordingPrinter
{
    fn print_single_banner_line(&mut self, banner_text : &str, _banner_color : termcolor::Color, path : &str) { self.banners.push((banner_text.trim().to_string(), path.to_string())); }
    fn print(&mut self, _text : &str) {}
    fn error(&mut self, text: &str) { self.errors.push(text.to_string()); }
}
/*  (targets, first line of the command) of the five rules */
const RULE_CMDS : [(&[&str], &str); 7] = [
    (&["tail.txt"], "mycat right.txt refrain.txt tail.txt"),
    (&["left.txt", "right.txt"], "mycat l_src.txt left.txt"),
    (&["stanza.txt"], "mycat verse.txt stanza.txt"), (&["poem.txt"], "mycat stanza.txt refrain.txt poem.txt"), (&["aside.txt", "copy.txt"], "mycat note.txt aside.txt"),
    (&["song.txt"], "mycat refrain.txt verse.txt song.txt"), (&["album.txt"], "mycat song.txt note.txt album.txt")];

#[derive(Clone, Copy, Debug, PartialEq)]
enum Act { VerseA, VerseB, RefrainS, Build, BuildPoem, Clean, CleanStanza, TamperStanza, DeleteStanza, DropCacheEntryOfStanza, HiddenGone, HiddenBack, NoteLikeVerseA, CleanAside, SwapVerseRefrain, DropSongRules, DeleteAside, NoteP, NoteN, StashStanza, UnstashStanza, SwapLeftRight, DropWholeCache, EditRightSrc, TailSwapArgs, EditLeftSrc }
const ACTS : [Act; 12] = [Act::VerseA, Act::VerseB, Act::RefrainS, Act::Build, Act::BuildPoem, Act::Clean, Act::CleanStanza, Act::TamperStanza, Act::DeleteStanza, Act::DropCacheEntryOfStanza, Act::HiddenGone, Act::HiddenBack];

fn params(goal: Option<&str>) -> BuildParams { BuildParams::from_all(".ruler".to_string(), vec!["build.rules".to_string()], None, goal.map(|s| s.to_string())) }
fn read(system: &FakeSystem, p: &str) -> Option<String> { if system.is_file(p) { read_file_to_string(system, p).ok() } else { None } }
const TARGETS : [&str; 9] = ["stanza.txt", "poem.txt", "aside.txt", "copy.txt", "song.txt", "album.txt", "left.txt", "right.txt", "tail.txt"];

/*  (content, mtime, executable bit) of a file, for the C09 oracle */
fn stat(system: &FakeSystem, p: &str) -> Option<(String, std::time::SystemTime, bool)>
{
    if !system.is_file(p) { return None; }
    Some((read_file_to_string(system, p).ok()?, system.get_modified(p).ok()?, system.is_executable(p).ok()?))
}
const UNTOUCHABLE : [&str; 10] = ["verse.txt", "refrain.txt", "note.txt", "hidden.txt", "build.rules", "undeclared.txt", "stanza.txt.tmp", "poem.txt.tmp", "l_src.txt", "r_src.txt"];
const OUT_OF_POEM_SCOPE : [&str; 7] = ["aside.txt", "copy.txt", "song.txt", "album.txt", "left.txt", "right.txt", "tail.txt"];
const OUT_OF_STANZA_SCOPE : [&str; 8] = ["poem.txt", "aside.txt", "copy.txt", "song.txt", "album.txt", "left.txt", "right.txt", "tail.txt"];
/*  contents held at target paths or in the cache */
fn held(system: &FakeSystem) -> BTreeSet<String>
{
    let mut out = BTreeSet::new();
    for t in TARGETS.iter() { if let Some(c) = read(system, t) { out.insert(c); } }
    if let Ok(names) = system.list_dir(".ruler/cache") { for n in names { if let Some(c) = read(system, &n) { out.insert(c); } } }
    out
}
fn cache_ok(system: &FakeSystem) -> Option<String>
{
    if let Ok(names) = system.list_dir(".ruler/cache")
    {
        for n in names
        {
            if let Some(c) = read(system, &n)
            {
                let want = format!(".ruler/cache/{}", TicketFactory::from_str(&c).result().human_readable());
                if n != want && !n.ends_with(&TicketFactory::from_str(&c).result().human_readable()) { return Some(format!("cache entry {} holds content hashing to another name: {:?}", n, c)); }
            }
        }
    }
    None
}

struct Outcome { finals: Vec<Option<String>>, verdicts: Vec<bool>, complaints: Vec<(String, String)> }

fn rules_text(reduced: bool, tail_swapped: bool) -> String
{
    let cut = RULES.find("song.txt\n:").unwrap();
    let t = if reduced { RULES[..cut].to_string() } else { RULES.to_string() };
    if tail_swapped { assert!(t.contains("mycat\nright.txt\nrefrain.txt\ntail.txt\n")); t.replace("mycat\nright.txt\nrefrain.txt\ntail.txt\n", "mycat\nrefrain.txt\nright.txt\ntail.txt\n") } else { t }
}
fn run_history(h: &Vec<Act>, drop_table: bool) -> Outcome { run_history_clock(h, drop_table, false) }
/*  fine: the clock ticks at every mutation ruler makes (every write gets its own modification time) instead of once per invocation */
fn run_history_clock(h: &Vec<Act>, drop_table: bool, fine: bool) -> Outcome
{
    let mut system = FakeSystem::new(10);
    write_str_to_file(&mut system, "build.rules", RULES).unwrap();
    write_str_to_file(&mut system, "verse.txt", "Roses are red.\n").unwrap();
    write_str_to_file(&mut system, "refrain.txt", "La la la.\n").unwrap();
    write_str_to_file(&mut system, "note.txt", "N.B.\n").unwrap();
    write_str_to_file(&mut system, "hidden.txt", "(hidden)\n").unwrap();
    write_str_to_file(&mut system, "l_src.txt", "Left.\n").unwrap();
    write_str_to_file(&mut system, "r_src.txt", "Right.\n").unwrap();
    write_str_to_file(&mut system, "undeclared.txt", "not mentioned in any rule\n").unwrap();
    /*  undeclared files next to targets, named like temporaries */
    write_str_to_file(&mut system, "stanza.txt.tmp", "my notes on the stanza\n").unwrap();
    write_str_to_file(&mut system, "poem.txt.tmp", "my notes on the poem\n").unwrap();
    /*  C02 bookkeeping for the chain rule stanza.txt <- verse.txt: the verse it was last successfully built from */
    let mut stanza_settled : Option<String> = None;
    let mut complaints = vec![]; let mut verdicts = vec![];
    let mut last_was_ok_build = false; let mut last_was_clean_after_ok_build = false;
    let mut reduced = false;      /*  song.txt / album.txt no longer have rules */
    let mut tail_swapped = false;      /*  the command of tail.txt names its two inputs in the other order (a rules-file edit that keeps the set of command words) */
    let mut seen_ok : BTreeSet<(String, String, String)> = BTreeSet::new();      /*  source states built successfully since the last disturbance */
    let mut now : u64 = 10;      /*  the time of `system` (FakeSystem::new(10)), tracked here because clones carry their own copy */
    for a in h.iter()
    {
        system.time_passes(1); now += 1;
        let before = held(&system);
        let log_before = system.get_command_log().len();
        let stats_before : Vec<(String, Option<(String, std::time::SystemTime, bool)>)> =
            UNTOUCHABLE.iter().chain(OUT_OF_STANZA_SCOPE.iter()).map(|p| (p.to_string(), stat(&system, p))).collect();
        let mut is_ruler = false;
        match a
        {
            Act::VerseA => { write_str_to_file(&mut system, "verse.txt", "Roses are red.\n").unwrap(); },
            Act::VerseB => { write_str_to_file(&mut system, "verse.txt", "Violets are blue.\n").unwrap(); },
            Act::RefrainS => { write_str_to_file(&mut system, "refrain.txt", "Sha la la.\n").unwrap(); },
            Act::NoteLikeVerseA => { write_str_to_file(&mut system, "note.txt", "Roses are red.\n").unwrap(); },
            /*  the two sources of the two-target rule left/right trade contents: its targets have to trade contents too */
            Act::SwapLeftRight =>
            {
                let (l, r) = (read(&system, "l_src.txt").unwrap(), read(&system, "r_src.txt").unwrap());
                write_str_to_file(&mut system, "l_src.txt", &r).unwrap(); write_str_to_file(&mut system, "r_src.txt", &l).unwrap();
            },
            /*  only the SECOND target of the two-target rule changes */
            Act::EditRightSrc => { write_str_to_file(&mut system, "r_src.txt", "Right, revised.\n").unwrap(); },
            Act::EditLeftSrc => { write_str_to_file(&mut system, "l_src.txt", "Left, revised.\n").unwrap(); },
            Act::DropWholeCache => { if let Ok(names) = system.list_dir(".ruler/cache") { for n in names { if system.is_file(&n) { system.remove_file(&n).unwrap(); } } } },
            Act::DeleteAside => { if system.is_file("aside.txt") { system.remove_file("aside.txt").unwrap(); } },
            Act::NoteP => { write_str_to_file(&mut system, "note.txt", "P.S.\n").unwrap(); },
            Act::NoteN => { write_str_to_file(&mut system, "note.txt", "N.B.\n").unwrap(); },
            /*  the user moves a target aside and later back: the file that comes back is OLDER than what ruler remembers for that path */
            Act::StashStanza => { if system.is_file("stanza.txt") { system.rename("stanza.txt", "stanza.old").unwrap(); } },
            Act::UnstashStanza => { if system.is_file("stanza.old") { system.rename("stanza.old", "stanza.txt").unwrap(); } stanza_settled = None; },
            /*  two sources of one rule trade contents (the same multiset of source hashes, in another order) */
            Act::SwapVerseRefrain =>
            {
                let (v, r) = (read(&system, "verse.txt").unwrap(), read(&system, "refrain.txt").unwrap());
                write_str_to_file(&mut system, "verse.txt", &r).unwrap(); write_str_to_file(&mut system, "refrain.txt", &v).unwrap();
            },
            /*  the rules of song.txt and album.txt are taken out of the rules file: from now on these two files are nobody's targets */
            Act::DropSongRules =>
            {
                reduced = true;
                write_str_to_file(&mut system, "build.rules", &rules_text(reduced, tail_swapped)).unwrap();
            },
            /*  the user edits the rules file: the command of tail.txt now reads its inputs in the other order (same words, same sources,
                same target; a different command with a different output) -- and back again with the next TailSwapArgs */
            Act::TailSwapArgs =>
            {
                tail_swapped = !tail_swapped;
                write_str_to_file(&mut system, "build.rules", &rules_text(reduced, tail_swapped)).unwrap();
            },
            Act::HiddenGone => { if system.is_file("hidden.txt") { system.remove_file("hidden.txt").unwrap(); } },
            Act::HiddenBack => { write_str_to_file(&mut system, "hidden.txt", "(hidden)\n").unwrap(); },
            Act::TamperStanza => { write_str_to_file(&mut system, "stanza.txt", "tampered\n").unwrap(); stanza_settled = None; },
            Act::DeleteStanza => { if system.is_file("stanza.txt") { system.remove_file("stanza.txt").unwrap(); } },
            Act::DropCacheEntryOfStanza =>
            {
                if let Some(c) = read(&system, "verse.txt") { let p = format!(".ruler/cache/{}", TicketFactory::from_str(&c).result().human_readable()); if system.is_file(&p) { system.remove_file(&p).unwrap(); } }
            },
            Act::Build | Act::BuildPoem =>
            {
                is_ruler = true;
                if drop_table && system.is_file(".ruler/current_file_states") { system.remove_file(".ruler/current_file_states").unwrap(); }
                let goal = if *a == Act::BuildPoem { Some("poem.txt") } else { None };
                let hidden = system.is_file("hidden.txt");
                let stanza_untouched = stanza_settled.is_some() && stanza_settled == read(&system, "verse.txt") && read(&system, "stanza.txt") == stanza_settled;
                let target_stats_before : Vec<Option<(String, std::time::SystemTime, bool)>> = TARGETS.iter().map(|p| stat(&system, p)).collect();
                let mut printer = RecordingPrinter { banners: vec![], errors: vec![] };
                let clock = std::sync::Arc::new(std::sync::atomic::AtomicU64::new(now));
                let result = if fine { build(TickSystem { inner: system.clone(), clock: clock.clone(), local: now }, &mut printer, params(goal)) } else { build(SkewSystem { inner: system.clone() }, &mut printer, params(goal)) };
                { let t = clock.load(std::sync::atomic::Ordering::SeqCst); system.time_passes(t - now); now = t; }
                let ok = result.is_ok();
                verdicts.push(ok);
                let new_log : Vec<String> = system.get_command_log()[log_before..].to_vec();
                /*  C20: at most one status per target; 'Built' exactly when the rule's command ran in this build and the rule
                    succeeded; 'Up-to-date' only for a file left untouched; 'Recovered' only for a file that was put there without
                    the command; targets of failed or cancelled rules get no success status; after a successful build of
                    everything every target has its status */
                {
                    let failed_song = !reduced && !hidden && new_log.iter().any(|c| c.starts_with("mycat refrain.txt verse.txt song.txt"));
                    for (targets, cmd) in RULE_CMDS.iter()
                    {
                        if reduced && (targets[0] == "song.txt" || targets[0] == "album.txt") { continue; }
                        let cmd : &str = if targets[0] == "tail.txt" && tail_swapped { "mycat refrain.txt right.txt tail.txt" } else { cmd };
                        let ran = new_log.iter().any(|c| c.starts_with(cmd));
                        for t in targets.iter()
                        {
                            let lines : Vec<&String> = printer.banners.iter().filter(|(_, p)| p == t).map(|(b, _)| b).collect();
                            let idx = TARGETS.iter().position(|x| x == t).unwrap();
                            if lines.len() > 1 { complaints.push(("B-build-C20".to_string(), format!("{} status lines for {}: {:?}", lines.len(), t, lines))); }
                            let failed = (*t == "song.txt" && failed_song) || (*t == "album.txt" && (failed_song || (!hidden && !ran && !ok)));
                            if failed && !lines.is_empty() && *t == "song.txt" { complaints.push(("B-build-C20".to_string(), format!("{} belongs to the rule that failed and is reported {:?}", t, lines))); }
                            if failed_song && *t == "album.txt" && !lines.is_empty() { complaints.push(("B-build-C20".to_string(), format!("{} depends on the rule that failed and is reported {:?}", t, lines))); }
                            for l in lines.iter()
                            {
                                match l.as_str()
                                {
                                    "Built" => if !ran { complaints.push(("B-build-C20".to_string(), format!("{} reported Built but its rule's command did not run", t))); },
                                    "Up-to-date" =>
                                    {
                                        if ran { complaints.push(("B-build-C20".to_string(), format!("{} reported Up-to-date but its rule's command ran", t))); }
                                        if stat(&system, t) != target_stats_before[idx] { complaints.push(("B-build-C20".to_string(), format!("{} reported Up-to-date but the file was changed", t))); }
                                    },
                                    "Recovered" =>
                                    {
                                        if ran { complaints.push(("B-build-C20".to_string(), format!("{} reported Recovered but its rule's command ran", t))); }
                                        if stat(&system, t).map(|x| x.0) == target_stats_before[idx].clone().map(|x| x.0) && target_stats_before[idx].is_some() { complaints.push(("B-build-C20".to_string(), format!("{} reported Recovered but the file was there with that content before", t))); }
                                    },
                                    other => complaints.push(("B-build-C20".to_string(), format!("{} reported {:?} in a finished build", t, other))),
                                }
                            }
                            if ran && !failed && !(*t == "song.txt" && failed_song) && ok && lines.iter().all(|l| l.as_str() != "Built") { complaints.push(("B-build-C20".to_string(), format!("the command of {} ran in a successful build but it is not reported Built", t))); }
                            if ok && goal.is_none() && lines.is_empty() { complaints.push(("B-build-C20".to_string(), format!("successful build of everything: no status line for {}", t))); }
                        }
                    }
                    if failed_song && goal.is_none() && printer.errors.is_empty() && ok { complaints.push(("B-build-C20".to_string(), "a rule failed and nothing was reported".to_string())); }
                }
                /*  C02: a rule already built from these very sources, whose target still holds that output, is not run again --
                    whatever happened to other rules in the meantime (e.g. a build in which another rule failed) */
                if stanza_untouched && new_log.iter().any(|c| c.starts_with("mycat verse.txt stanza.txt"))
                {
                    complaints.push(("B-build-C02".to_string(), "the command of stanza.txt ran again although its source and target were untouched since it was last built".to_string()));
                }
                /*  C04: a failing rule (its command cannot read hidden.txt) gives exactly one error, its dependent does not run,
                    everything that does not depend on it is still brought up to date */
                if goal.is_none() && !reduced
                {
                    if !hidden && new_log.iter().any(|c| c.starts_with("mycat refrain.txt verse.txt song.txt"))
                    {
                        match &result
                        {
                            Err(crate::build::BuildError::WorkErrors(v)) if v.len() == 1 => {},
                            other => complaints.push(("B-build-C04".to_string(), format!("song.txt's command must fail: expected exactly one work error, got {}", match other { Ok(()) => "Ok".to_string(), Err(e) => format!("{}", e) }))),
                        }
                        if new_log.iter().any(|c| c.starts_with("mycat song.txt note.txt album.txt")) { complaints.push(("B-build-C04".to_string(), "the dependent of the failed rule ran its command".to_string())); }
                        let verse = read(&system, "verse.txt").unwrap(); let refrain = read(&system, "refrain.txt").unwrap();
                        if read(&system, "stanza.txt") != Some(verse.clone()) || read(&system, "poem.txt") != Some(format!("{}{}", verse, refrain))
                        {
                            complaints.push(("B-build-C04".to_string(), "a rule that does not depend on the failed one was not brought up to date".to_string()));
                        }
                    }
                }
                if read(&system, "stanza.txt") == read(&system, "verse.txt") && (ok || goal.is_none()) { stanza_settled = read(&system, "verse.txt"); }
                /*  C02 speaks of targets whose contents are pairwise different (one cache file cannot serve two restores) */
                let ran = system.get_command_log()[log_before..].len();
                let distinct =
                {
                    let (v, r, n) = (read(&system, "verse.txt").unwrap(), read(&system, "refrain.txt").unwrap(), read(&system, "note.txt").unwrap());
                    let mut all = vec![v.clone(), format!("{}{}", v, r), n.clone(), format!("{}{}", n, r), read(&system, "l_src.txt").unwrap(), read(&system, "r_src.txt").unwrap(), if tail_swapped { format!("{}{}", r, read(&system, "r_src.txt").unwrap()) } else { format!("{}{}", read(&system, "r_src.txt").unwrap(), r) }];
                    if !reduced { all.push(format!("{}{}", r, v)); all.push(format!("{}{}{}", r, v, n)); }
                    let k = all.len(); all.sort(); all.dedup(); all.len() == k
                };
                let state = (read(&system, "verse.txt").unwrap(), read(&system, "refrain.txt").unwrap(), format!("{}|{}|{}|{}", read(&system, "note.txt").unwrap(), read(&system, "l_src.txt").unwrap(), read(&system, "r_src.txt").unwrap(), tail_swapped));
                if ok
                {
                    /*  C01: from-scratch outputs of the current sources */
                    let verse = read(&system, "verse.txt").unwrap(); let refrain = read(&system, "refrain.txt").unwrap(); let note = read(&system, "note.txt").unwrap();
                    let mut expect = vec![("stanza.txt", verse.clone()), ("poem.txt", format!("{}{}", verse, refrain))];
                    if goal.is_none() { expect.push(("left.txt", read(&system, "l_src.txt").unwrap())); expect.push(("right.txt", read(&system, "r_src.txt").unwrap())); expect.push(("tail.txt", if tail_swapped { format!("{}{}", refrain, read(&system, "r_src.txt").unwrap()) } else { format!("{}{}", read(&system, "r_src.txt").unwrap(), refrain) })); expect.push(("aside.txt", note.clone())); expect.push(("copy.txt", format!("{}{}", note, refrain))); if !reduced { expect.push(("song.txt", format!("{}{}", refrain, verse))); expect.push(("album.txt", format!("{}{}{}", refrain, verse, note))); } }
                    for (p, want) in expect.iter()
                    {
                        if read(&system, p).as_ref() != Some(want) { complaints.push(("B-build-C01".to_string(), format!("after a successful build {} holds {:?}, a from-scratch build gives {:?}", p, read(&system, p), want))); }
                    }
                    /*  C02, general form: these very sources were built successfully before, nothing was tampered with, deleted or
                        dropped from the cache since: everything is up to date or comes back from the cache, no command runs */
                    if goal.is_none() && distinct && seen_ok.contains(&state) && ran != 0 && !(last_was_ok_build || last_was_clean_after_ok_build)
                    {
                        complaints.push(("B-build-C02".to_string(), format!("{} command(s) ran although these very sources were built before and nothing was disturbed since (everything needed is on disk or in the cache)", ran)));
                    }
                    if goal.is_none() { seen_ok.insert(state.clone()); }
                    if (last_was_ok_build || last_was_clean_after_ok_build) && goal.is_none() && distinct && ran != 0
                    {
                        complaints.push(("B-build-C02".to_string(), format!("{} command(s) ran in a build that follows a successful build{} with nothing changed", ran, if last_was_clean_after_ok_build { " and a clean" } else { "" })));
                    }
                }
                last_was_ok_build = ok && goal.is_none();
            },
            Act::Clean | Act::CleanStanza | Act::CleanAside =>
            {
                is_ruler = true;
                let goal = if *a == Act::CleanStanza { Some("stanza.txt".to_string()) } else if *a == Act::CleanAside { Some("aside.txt".to_string()) } else { None };
                let clock = std::sync::Arc::new(std::sync::atomic::AtomicU64::new(now));
                let cleaned = if fine { clean(TickSystem { inner: system.clone(), clock: clock.clone(), local: now }, ".ruler", vec!["build.rules".to_string()], goal) } else { clean(SkewSystem { inner: system.clone() }, ".ruler", vec!["build.rules".to_string()], goal) };
                { let t = clock.load(std::sync::atomic::Ordering::SeqCst); system.time_passes(t - now); now = t; }
                /*  C10: after a clean that reported success none of the in-scope target files exists in the workspace
                    (that their contents are in the cache is the C08 oracle; that the next build brings them back without
                    running a command are the C01 / C02 oracles) */
                if cleaned.is_ok()
                {
                    let in_scope : Vec<&str> = match a { Act::CleanStanza => vec!["stanza.txt"], Act::CleanAside => vec!["aside.txt", "copy.txt"], _ => if reduced { vec!["stanza.txt", "poem.txt", "aside.txt", "copy.txt", "left.txt", "right.txt", "tail.txt"] } else { vec!["stanza.txt", "poem.txt", "aside.txt", "copy.txt", "song.txt", "album.txt", "left.txt", "right.txt", "tail.txt"] } };
                    for p in in_scope.iter() { if system.is_file(p) { complaints.push(("B-build-C10".to_string(), format!("{} is still in the workspace after a clean that reported success", p))); } }
                }
            },
        }
        if is_ruler
        {
            let mut scope_free : Vec<&str> = match a { Act::BuildPoem => OUT_OF_POEM_SCOPE.to_vec(), Act::CleanStanza => OUT_OF_STANZA_SCOPE.to_vec(), _ => vec![] };
            /*  files that are no rule's target (any more) are out of every scope */
            if reduced { scope_free.push("song.txt"); scope_free.push("album.txt"); }
            for (p, st) in stats_before.iter()
            {
                if (UNTOUCHABLE.contains(&p.as_str()) || scope_free.contains(&p.as_str())) && stat(&system, p) != *st
                {
                    complaints.push(("B-build-C09".to_string(), format!("{} was changed by the invocation (content, modification time or permission)", p)));
                }
            }
            if let Some(c) = cache_ok(&system) { complaints.push(("B-build-C07".to_string(), c)); }
            let after = held(&system);
            /*  ruler moves a target out of the way before a command may overwrite it: whatever was held before is still held */
            for c in before.iter() { if !after.contains(c) { complaints.push(("B-build-C08".to_string(), format!("content {:?} was held before the invocation and is gone", c))); } }
        }
        match a
        {
            Act::TamperStanza | Act::DeleteStanza | Act::DeleteAside | Act::DropCacheEntryOfStanza | Act::HiddenGone | Act::HiddenBack | Act::DropSongRules | Act::StashStanza | Act::UnstashStanza | Act::NoteLikeVerseA | Act::DropWholeCache => seen_ok.clear(),
            _ => {},
        }
        match a
        {
            Act::Build => {},
            Act::Clean => { last_was_clean_after_ok_build = last_was_ok_build; last_was_ok_build = false; },
            _ => { last_was_ok_build = false; last_was_clean_after_ok_build = false; },
        }
        if *a == Act::Build { last_was_clean_after_ok_build = false; }
    }
    let mut finals = vec![];
    for p in ["verse.txt", "refrain.txt", "stanza.txt", "poem.txt", "aside.txt", "copy.txt"].iter() { finals.push(read(&system, p)); }
    Outcome { finals, verdicts, complaints }
}

#[test]
fn verif_build_histories()
{
    let max_len : usize = std::env::var("VERIF_HISTORY_LEN").ok().and_then(|s| s.parse().ok()).unwrap_or(4);
    let names = ["B-build-C01", "B-build-C02", "B-build-C04", "B-build-C07", "B-build-C08", "B-build-C09", "B-build-C10", "B-build-C18", "B-build-C20"];
    let mut bad = vec![0u64; names.len()]; let mut cases = 0u64;
    for len in 1..=max_len
    {
        let total = ACTS.len().pow(len as u32);
        for code in 0..total
        {
            let mut c = code; let mut h = vec![];
            for _ in 0..len { h.push(ACTS[c % ACTS.len()]); c /= ACTS.len(); }
            /*  only histories that end with a build are interesting (prefixes are covered by shorter histories) */
            if !matches!(h[len - 1], Act::Build | Act::BuildPoem | Act::Clean) { continue; }
            cases += 1;
            let o1 = run_history(&h, false);
            let mut all = o1.complaints.clone();
            if h.iter().filter(|a| matches!(a, Act::Build | Act::BuildPoem)).count() >= 2
            {
                let o2 = run_history(&h, true);
                if o1.finals != o2.finals || o1.verdicts != o2.verdicts
                {
                    all.push(("B-build-C18".to_string(), format!("with the file-state table: verdicts {:?} files {:?}; with the table erased before every build: verdicts {:?} files {:?}", o1.verdicts, o1.finals, o2.verdicts, o2.finals)));
                }
            }
            for (name, what) in all.iter()
            {
                let k = names.iter().position(|n| n == name).unwrap();
                bad[k] += 1;
                if bad[k] <= 6 { println!("WITNESS {} :: {:?} :: {}", name, h, what); }
            }
        }
    }
    for (k, n) in names.iter().enumerate() { println!("SUMMARY {} cases={} disagreements={} max_history_len={}", n, cases, bad[k], max_len); }
}

/*  longer, hand-picked histories around the modification-time shortcut (C18 under the one-tick-per-invocation clock) */
#[test]
fn verif_build_long_histories()
{
    use Act::*;
    let hs : Vec<Vec<Act>> = vec![
        vec![Build, VerseB, Build, CleanStanza, VerseA, Build],
        vec![Build, VerseB, Build, VerseA, Build, VerseB, Build],
        vec![Build, VerseB, RefrainS, Build, CleanStanza, VerseA, Build],
        vec![Build, VerseB, Build, Clean, VerseA, Build],
        vec![Build, VerseB, Build, VerseA, Build, Build],
        vec![Build, VerseB, Build, CleanStanza, VerseA, BuildPoem],
        vec![Build, VerseB, Build, TamperStanza, VerseA, Build],
        vec![Build, VerseB, Build, DeleteStanza, VerseA, Build, VerseB, Build],
        vec![HiddenGone, Build, Build, HiddenBack, Build, Build],
        /*  two targets written in one tick, one of them with the bytes another target had before; then clean and revert (C18, coarse clock) */
        vec![Build, VerseB, NoteLikeVerseA, Build, CleanAside, VerseA, Build],
        vec![Build, VerseB, NoteLikeVerseA, Build, CleanAside, VerseA, BuildPoem],
        vec![Build, VerseB, NoteLikeVerseA, Build, Clean, VerseA, Build],
        vec![Build, HiddenGone, VerseB, Build, HiddenBack, Build],
        vec![Build, SwapVerseRefrain, Build],
        vec![Build, SwapVerseRefrain, Build, SwapVerseRefrain, Build],
        vec![Build, DropSongRules, Build],
        vec![Build, DropSongRules, Build, Clean, Build],
        vec![Build, DeleteAside, NoteP, Build, NoteN, Build, NoteP, Build],
        vec![Build, StashStanza, VerseB, Build, UnstashStanza, Build],
        vec![Build, DeleteAside, Clean],
        vec![Build, DeleteAside, Clean, Build],
        vec![Build, SwapLeftRight, Build, DropWholeCache, SwapLeftRight, Build],
        vec![Build, SwapLeftRight, Build, SwapLeftRight, Build],
        vec![Build, EditRightSrc, Build],
        vec![Build, EditRightSrc, Build, SwapLeftRight, Build],
        vec![Build, VerseB, NoteLikeVerseA, Build, CleanAside, DeleteStanza, VerseA, Build],
        vec![Build, VerseB, NoteLikeVerseA, Build, CleanAside, CleanStanza, VerseA, Build],
        /*  a target comes back from the cache, is then found up to date, and is displaced by the next edit */
        vec![Build, VerseB, Build, VerseA, Build, Build, VerseB, Build],
        vec![Build, VerseB, Build, VerseA, Build, Build, RefrainS, Build, VerseB, Build],
        /*  the two targets of one rule trade contents and trade back (each restore puts back the file the other path just lost), then one changes */
        vec![Build, SwapLeftRight, Build, SwapLeftRight, Build, EditRightSrc, Build],
        vec![Build, SwapLeftRight, Build, SwapLeftRight, Build, EditLeftSrc, Build],
        vec![Build, SwapLeftRight, Build, SwapLeftRight, Build, Build, EditRightSrc, Build, Clean, Build],
        /*  rules-file edits that keep a command's words and change their order */
        vec![Build, TailSwapArgs, Build],
        vec![Build, TailSwapArgs, Build, TailSwapArgs, Build],
        vec![Build, TailSwapArgs, Build, Clean, Build, TailSwapArgs, Build],
        vec![TailSwapArgs, Build, DropSongRules, TailSwapArgs, Build],
    ];
    let names = ["B-build-C01", "B-build-C02", "B-build-C04", "B-build-C07", "B-build-C08", "B-build-C09", "B-build-C10", "B-build-C18", "B-build-C20"];
    let mut bad = vec![0u64; names.len()];
    for h in hs.iter()
    {
        /*  under four mild schedule perturbations (none; renames from / to every third target held up, for each of the three residues): what a
            history shows may depend on which of two rule threads reaches a shared cache entry first */
        let mut all : Vec<(String, String)> = vec![];
        for skew in 0..4usize
        {
            SKEW.store(skew, std::sync::atomic::Ordering::SeqCst);
            let o1 = run_history(h, false); let o2 = run_history(h, true);
            for c in o1.complaints.iter() { if !all.contains(c) { all.push(c.clone()); } }
            if o1.finals != o2.finals || o1.verdicts != o2.verdicts { let c = ("B-build-C18".to_string(), format!("with table: {:?} {:?}; table erased: {:?} {:?}", o1.verdicts, o1.finals, o2.verdicts, o2.finals)); if !all.iter().any(|x| x.0 == c.0) { all.push(c); } }
        }
        SKEW.store(0, std::sync::atomic::Ordering::SeqCst);
        for (name, what) in all.iter() { let k = names.iter().position(|n| n == name).unwrap(); bad[k] += 1; println!("WITNESS {}-long :: {:?} :: {}", name, h, what); }
        /*  the same history with a fine clock (every write has its own modification time) */
        let o3 = run_history_clock(h, false, true);
        for (name, what) in o3.complaints.iter() { let k = names.iter().position(|n| n == name).unwrap(); bad[k] += 1; println!("WITNESS {}-long :: {:?} (fine clock) :: {}", name, h, what); }
    }
    for (k, n) in names.iter().enumerate() { println!("SUMMARY {}-long cases={} disagreements={}", n, hs.len(), bad[k]); }
}

/*  ---------------------------------------------------------------------------------------------------------------------------
    MINI SCENARIOS: small workspaces with shapes the big one lacks (targets in sub-directories, names that differ by leading dots,
    executable targets, several rules failing alike), each with a few hand-picked histories.  The oracles are generic -- they need no
    hand-written model of the rules:
      C01  after a successful build every target equals what the real build() gives on a FRESH file system holding the same
           non-target files (a from-scratch build; if that one fails nothing is compared)
      C02  a build right after a successful build (or after build + clean) runs no command when the target contents are pairwise different
      C04 / C20  a build marked BuildErrors(n) reports exactly n failures; one marked BuildReport(n, names) also names every
           missing file in the rendered report
      C05  build() / clean() return (a panic is a disagreement)
      C07 / C08  as above (cache entries named by content; contents held before are held after)
      C09  no non-target file outside the ruler directory changes, none appears or disappears, and the set of directories outside
           the ruler directory stays as it was
      C10  after a successful clean no target is left; a target that was executable when it was cleaned away is executable again
           after the next successful build
      C18  the same history with the table erased before every invocation gives the same verdicts and files
    --------------------------------------------------------------------------------------------------------------------------- */
#[derive(Clone, Copy, Debug, PartialEq)]
enum Op { Build, BuildErrors(usize), BuildReport(usize, &'static [&'static str]), BuildGoal(&'static str, &'static [&'static str]), CleanGoal(&'static str, &'static [&'static str]), Clean, Write(&'static str, &'static str), Delete(&'static str), RemoveDir(&'static str), MkDir(&'static str), SetExec(&'static str) }
struct Mini { name: &'static str, rules: &'static str, files: &'static [(&'static str, &'static str)], dirs: &'static [&'static str], targets: &'static [&'static str], histories: Vec<Vec<Op>> }

type Snap = (std::collections::BTreeMap<String, (String, std::time::SystemTime, bool)>, BTreeSet<String>);
fn walk(system: &FakeSystem, dir: &str, snap: &mut Snap)
{
    if let Ok(names) = system.list_dir(dir)
    {
        for n in names
        {
            let p = n.trim_start_matches('/').to_string();
            if p == ".ruler" { continue; }
            if system.is_dir(&p) { snap.1.insert(p.clone()); walk(system, &p, snap); }
            else if let Some(st) = stat(system, &p) { snap.0.insert(p, st); }
        }
    }
}
fn snapshot(system: &FakeSystem) -> Snap { let mut s : Snap = (std::collections::BTreeMap::new(), BTreeSet::new()); walk(system, "", &mut s); s }
fn held_mini(system: &FakeSystem, targets: &[&str]) -> BTreeSet<String>
{
    let mut out = BTreeSet::new();
    for t in targets.iter() { if let Some(c) = read(system, t) { out.insert(c); } }
    if let Ok(names) = system.list_dir(".ruler/cache") { for n in names { if let Some(c) = read(system, &n) { out.insert(c); } } }
    out
}
/*  what the real build() makes of these non-target files on a fresh file system */
fn from_scratch(m: &Mini, snap: &Snap) -> Option<Vec<Option<String>>>
{
    let mut fresh = FakeSystem::new(10);
    for d in snap.1.iter() { fresh.create_dir(d).ok()?; }
    for (p, (c, _, x)) in snap.0.iter() { if !m.targets.contains(&p.as_str()) { write_str_to_file(&mut fresh, p, c).ok()?; if *x { fresh.set_is_executable(p, true).ok()?; } } }
    fresh.time_passes(1);
    match build(fresh.clone(), &mut EmptyPrinter::new(), params(None)) { Ok(()) => Some(m.targets.iter().map(|t| read(&fresh, t)).collect()), Err(_) => None }
}
fn run_mini(m: &Mini, h: &Vec<Op>, drop_table: bool) -> Outcome
{
    let mut system = FakeSystem::new(10);
    for d in m.dirs.iter() { system.create_dir(d).unwrap(); }
    write_str_to_file(&mut system, "build.rules", m.rules).unwrap();
    for (p, c) in m.files.iter() { write_str_to_file(&mut system, p, c).unwrap(); }
    let mut complaints = vec![]; let mut verdicts = vec![];
    let mut quiet_since_ok_build = false;      /*  the last invocations were: a successful build [, a successful clean], nothing else */
    let mut exec_at_clean : Vec<(String, bool)> = vec![];
    for op in h.iter()
    {
        system.time_passes(1);
        let before = snapshot(&system);
        let held_before = held_mini(&system, m.targets);
        let log_before = system.get_command_log().len();
        let mut is_ruler = false;
        match op
        {
            Op::Write(p, c) => { write_str_to_file(&mut system, p, c).unwrap(); quiet_since_ok_build = false; },
            Op::Delete(p) => { if system.is_file(p) { system.remove_file(p).unwrap(); } quiet_since_ok_build = false; exec_at_clean.retain(|(q, _)| q != p); },
            Op::RemoveDir(p) => { if system.is_dir(p) { let _ = system.remove_dir(p); } quiet_since_ok_build = false; },
            Op::MkDir(p) => { if !system.is_dir(p) { system.create_dir(p).unwrap(); } quiet_since_ok_build = false; },
            Op::SetExec(p) => { if system.is_file(p) { system.set_is_executable(p, true).unwrap(); } quiet_since_ok_build = false; },
            Op::Build | Op::BuildErrors(_) | Op::BuildReport(_, _) | Op::BuildGoal(_, _) =>
            {
                is_ruler = true;
                if drop_table && system.is_file(".ruler/current_file_states") { system.remove_file(".ruler/current_file_states").unwrap(); }
                let sys2 = system.clone();
                let (goal, scope) : (Option<&'static str>, Vec<&str>) = match op { Op::BuildGoal(g, sc) => (Some(*g), sc.to_vec()), _ => (None, m.targets.to_vec()) };
                let (result, banners) = match std::panic::catch_unwind(std::panic::AssertUnwindSafe(move || { let mut pr = RecordingPrinter { banners: vec![], errors: vec![] }; let r = build(sys2, &mut pr, params(goal)); (r, pr.banners) }))
                {
                    Ok(r) => r,
                    Err(_) => { complaints.push(("B-build-C05".to_string(), "build() panicked".to_string())); verdicts.push(false); continue; },
                };
                let ok = result.is_ok();
                verdicts.push(ok);
                let ran = system.get_command_log()[log_before..].len();
                /*  C20: at most one status per target and build; 'Built' only in a build that ran a command; a successful build of
                    everything reports every target exactly once */
                for t in m.targets.iter()
                {
                    let lines : Vec<&String> = banners.iter().filter(|(_, p)| p == t).map(|(b, _)| b).collect();
                    if lines.len() > 1 { complaints.push(("B-build-C20".to_string(), format!("{} status lines for {}: {:?}", lines.len(), t, lines))); }
                    if ran == 0 && lines.iter().any(|l| l.as_str() == "Built") { complaints.push(("B-build-C20".to_string(), format!("{} reported Built in a build that ran no command", t))); }
                    if ok && goal.is_none() && lines.is_empty() { complaints.push(("B-build-C20".to_string(), format!("successful build of everything: no status line for {}", t))); }
                    /*  a status line is TRUE of its own target: 'Recovered' = other bytes are at the path now than before (they came
                        back from the cache, no command ran for it); 'Up-to-date' = the bytes at the path were not touched */
                    if ok && lines.len() == 1
                    {
                        let was : Option<String> = before.0.get(&t.to_string()).map(|x| x.0.clone());
                        let is : Option<String> = read(&system, t);
                        match lines[0].as_str()
                        {
                            "Recovered" => if was.is_some() && was == is { complaints.push(("B-build-C20".to_string(), format!("{} reported Recovered but the bytes at its path are the ones that were there before ({:?})", t, is))); },
                            "Up-to-date" => if was != is { complaints.push(("B-build-C20".to_string(), format!("{} reported Up-to-date but the bytes at its path changed from {:?} to {:?}", t, was, is))); },
                            _ => {},
                        }
                    }
                }
                /*  the failure report as the user sees it (main prints the error with `{}`): every missing file is named in it */
                if let Op::BuildReport(_, names) = op
                {
                    let text = match &result { Err(e) => format!("{}", e), Ok(()) => String::new() };
                    for name in names.iter()
                    {
                        if !text.contains(name)
                        {
                            complaints.push(("B-build-C04".to_string(), format!("{} is missing and the failure report does not name it: {:?}", name, text)));
                            complaints.push(("B-build-C20".to_string(), format!("{} is missing and the failure report does not name it: {:?}", name, text)));
                        }
                    }
                }
                if let Op::BuildErrors(n) | Op::BuildReport(n, _) = op
                {
                    let got = match &result { Err(crate::build::BuildError::WorkErrors(v)) => v.len(), Err(_) => usize::MAX, Ok(()) => 0 };
                    if got == usize::MAX
                    {
                        let what = format!("{} rule(s) fail in this build; instead of reporting them the build ends with: {}", n, match &result { Err(e) => format!("{}", e), Ok(()) => String::new() });
                        complaints.push(("B-build-C04".to_string(), what.clone())); complaints.push(("B-build-C05".to_string(), what));
                    }
                    else if got != *n
                    {
                        complaints.push(("B-build-C04".to_string(), format!("{} rule(s) fail in this build, {} failure(s) reported", n, got)));
                        complaints.push(("B-build-C20".to_string(), format!("{} rule(s) fail in this build, {} failure(s) reported", n, got)));
                    }
                }
                if ok
                {
                    let after = snapshot(&system);
                    if let Some(want) = from_scratch(m, &after)
                    {
                        for (t, w) in m.targets.iter().zip(want.iter())
                        {
                            if scope.contains(t) && read(&system, t) != *w { complaints.push(("B-build-C01".to_string(), format!("after a successful build {} holds {:?}, a from-scratch build of the same sources gives {:?}", t, read(&system, t), w))); }
                        }
                    }
                    let mut contents : Vec<Option<String>> = m.targets.iter().map(|t| read(&system, t)).collect();
                    let k = contents.len(); contents.sort(); contents.dedup();
                    if goal.is_none() && quiet_since_ok_build && contents.len() == k && ran != 0
                    {
                        complaints.push(("B-build-C02".to_string(), format!("{} command(s) ran in a build that follows a successful build (and possibly a clean) with nothing changed", ran)));
                    }
                    for (p, x) in exec_at_clean.iter()
                    {
                        if system.is_executable(p).ok() != Some(*x) { complaints.push(("B-build-C10".to_string(), format!("{} was {}executable when it was cleaned away and is {}executable after the build that brought it back", p, if *x { "" } else { "not " }, if *x { "not " } else { "" }))); }
                    }
                    exec_at_clean.clear();
                }
                quiet_since_ok_build = ok && goal.is_none();
                /*  C09: a goal build leaves every target outside the goal's scope exactly as it was */
                if goal.is_some()
                {
                    let after = snapshot(&system);
                    for t in m.targets.iter() { if !scope.contains(t) && after.0.get(*t) != before.0.get(*t) { complaints.push(("B-build-C09".to_string(), format!("{} is outside the scope of goal {:?} and was changed by the build", t, goal))); } }
                }
            },
            Op::Clean | Op::CleanGoal(_, _) =>
            {
                is_ruler = true;
                if drop_table && system.is_file(".ruler/current_file_states") { system.remove_file(".ruler/current_file_states").unwrap(); }
                let recorded : Vec<(String, bool)> = m.targets.iter().filter(|t| system.is_file(t)).map(|t| (t.to_string(), system.is_executable(t).unwrap_or(false))).collect();
                let sys2 = system.clone();
                let (goal, scope) : (Option<String>, Vec<&str>) = match op { Op::CleanGoal(g, sc) => (Some(g.to_string()), sc.to_vec()), _ => (None, m.targets.to_vec()) };
                let goal2 = goal.clone();
                let cleaned = match std::panic::catch_unwind(std::panic::AssertUnwindSafe(move || clean(sys2, ".ruler", vec!["build.rules".to_string()], goal2)))
                {
                    Ok(r) => r,
                    Err(_) => { complaints.push(("B-build-C05".to_string(), "clean() panicked".to_string())); verdicts.push(false); continue; },
                };
                verdicts.push(cleaned.is_ok());
                if cleaned.is_ok()
                {
                    for t in scope.iter() { if system.is_file(t) { complaints.push(("B-build-C10".to_string(), format!("{} is still in the workspace after a clean that reported success", t))); } }
                    exec_at_clean = recorded.into_iter().filter(|(p, _)| scope.contains(&p.as_str())).collect();
                }
                else { quiet_since_ok_build = false; }
                if goal.is_some()
                {
                    quiet_since_ok_build = false;
                    let after = snapshot(&system);
                    for t in m.targets.iter() { if !scope.contains(t) && after.0.get(*t) != before.0.get(*t) { complaints.push(("B-build-C09".to_string(), format!("{} is outside the scope of goal {:?} and was changed by the clean", t, goal))); } }
                }
            },
        }
        if is_ruler
        {
            let after = snapshot(&system);
            for (p, st) in before.0.iter() { if !m.targets.contains(&p.as_str()) && after.0.get(p) != Some(st) { complaints.push(("B-build-C09".to_string(), format!("{} is not a target and was changed or removed by the invocation", p))); } }
            for (p, _) in after.0.iter() { if !m.targets.contains(&p.as_str()) && !before.0.contains_key(p) { complaints.push(("B-build-C09".to_string(), format!("{} is not a target and was created by the invocation", p))); } }
            if before.1 != after.1 { complaints.push(("B-build-C09".to_string(), format!("the directories outside the ruler directory were {:?} and are {:?} after the invocation", before.1, after.1))); }
            if let Some(c) = cache_ok(&system) { complaints.push(("B-build-C07".to_string(), c)); }
            let held_after = held_mini(&system, m.targets);
            for c in held_before.iter() { if !held_after.contains(c) { complaints.push(("B-build-C08".to_string(), format!("content {:?} was held before the invocation and is gone", c))); } }
        }
    }
    let finals = m.targets.iter().map(|t| read(&system, t)).collect();
    Outcome { finals, verdicts, complaints }
}

const RULES_SUBDIR : &str = "\
out/poem.txt
:
verse.txt
:
mycat
verse.txt
out/poem.txt
:

out/sub/deep.txt
:
refrain.txt
verse.txt
:
mycat
verse.txt
refrain.txt
out/sub/deep.txt
:
";
const RULES_DOTTED : &str = "\
.config
:
defconfig
:
mycat
defconfig
.config
:

config
:
config.in
:
mycat
config.in
config
:

..data
:
defconfig
data
:
mycat
data
defconfig
..data
:

data
:
config.in
:
mycat
config.in
config.in
data
:

notes.txt
:
.notes.src
:
mycat
.notes.src
notes.txt
:
";
const RULES_TOOL : &str = "\
tool.sh
:
tool.src
:
mycat
tool.src
tool.sh
:

manual.txt
:
tool.src
intro.txt
:
mycat
intro.txt
tool.src
manual.txt
:
";
const RULES_STAMP : &str = "\
stamp
:
nothing.src
:
mycat
nothing.src
stamp
:

words.txt
:
words.src
:
mycat
words.src
words.txt
:
";
const RULES_TWICE : &str = "\
out
\tpoem.txt
out/poem.txt
:
verse.txt
:
mycat
verse.txt
out/poem.txt
:
";
fn many_rules(n: usize) -> String
{
    let mut out = String::new();
    for i in 0..n { out.push_str(&format!("chapter{:02}.txt\n:\ndraft{:02}.txt\n:\nmycat\ndraft{:02}.txt\nchapter{:02}.txt\n:\n\n", i, i, i, i)); }
    out.push_str("book.txt\n:\n");
    for i in 0..n { out.push_str(&format!("chapter{:02}.txt\n", i)); }
    out.push_str(":\nmycat\n");
    for i in 0..n { out.push_str(&format!("chapter{:02}.txt\n", i)); }
    out.push_str("book.txt\n:\n");
    out
}
fn many_files(n: usize) -> Vec<(&'static str, &'static str)>
{
    (0..n).map(|i| { let p : &'static str = Box::leak(format!("draft{:02}.txt", i).into_boxed_str()); let c : &'static str = Box::leak(format!("draft number {}\n", i).into_boxed_str()); (p, c) }).collect()
}
fn many_targets(n: usize) -> Vec<&'static str>
{
    let mut v : Vec<&'static str> = (0..n).map(|i| { let p : &'static str = Box::leak(format!("chapter{:02}.txt", i).into_boxed_str()); p }).collect();
    v.push("book.txt"); v
}
fn chain_rules(n: usize) -> String
{
    let mut out = String::new();
    for i in 0..n
    {
        let src = if i == 0 { "link00.src".to_string() } else { format!("link{:02}.txt", i - 1) };
        out.push_str(&format!("link{:02}.txt\n:\n{}\n:\nmycat\n{}\nlink{:02}.txt\n:\n\n", i, src, src, i));
    }
    out
}
fn chain_targets(n: usize) -> Vec<&'static str> { (0..n).map(|i| { let p : &'static str = Box::leak(format!("link{:02}.txt", i).into_boxed_str()); p }).collect() }
const RULES_SIX : &str = "\
t1.txt
t2.txt
t3.txt
t4.txt
t5.txt
t6.txt
:
p.src
q.src
:
mycat
p.src
t1.txt
;
mycat
q.src
t2.txt
;
mycat
p.src
q.src
t3.txt
;
mycat
q.src
p.src
t4.txt
;
mycat
p.src
p.src
t5.txt
;
mycat
q.src
q.src
t6.txt
:

last.txt
:
t6.txt
:
mycat
t6.txt
t6.txt
t6.txt
last.txt
:
";
fn long_name() -> String { format!("{}.txt", "l".repeat(180)) }
fn odd_rules() -> String
{
    format!("my notes.txt\n:\nmy notes.src\n:\nmycat\nmy notes.src\nmy notes.txt\n:\n\np\u{e4}th/\u{fc}ber.txt\n:\nmy notes.txt\n:\nmycat\nmy notes.txt\nmy notes.txt\np\u{e4}th/\u{fc}ber.txt\n:\n\n{}\n:\nbig.src\nmy notes.src\n:\nmycat\nbig.src\nmy notes.src\n{}\n:\n", long_name(), long_name())
}
fn odd_files() -> Vec<(&'static str, &'static str)>
{
    let big : &'static str = Box::leak((0..7000).map(|i| format!("line {:04}\n", i)).collect::<String>().into_boxed_str());
    vec![("my notes.src", "my notes\n"), ("big.src", big)]
}
fn odd_targets() -> Vec<&'static str> { let l : &'static str = Box::leak(long_name().into_boxed_str()); vec!["my notes.txt", "p\u{e4}th/\u{fc}ber.txt", l] }
const RULES_DIRSRC : &str = "\
whole.txt
:
parts
:
mycat
parts/a.txt
parts/sub/b.txt
whole.txt
:
";
const RULES_NOCMD : &str = "\
before.txt
:
in.txt
:
mycat
in.txt
before.txt
:

nothing.txt
:
before.txt
:
:

after.txt
:
nothing.txt
:
mycat
nothing.txt
after.txt
:

apart.txt
:
in.txt
:
mycat
in.txt
in.txt
apart.txt
:
";
const RULES_DOCS : &str = "\
docs
:
manual.txt
:
mycat
manual.txt
docs
:

book.txt
:
docs/intro.txt
:
mycat
docs/intro.txt
book.txt
:
";
fn deep_dirs(n: usize) -> Vec<&'static str>
{
    let mut v : Vec<&'static str> = vec!["assets"]; let mut p = "assets".to_string();
    for i in 0..n { p = format!("{}/level{}", p, i); v.push(Box::leak(p.clone().into_boxed_str())); }
    v
}
fn deep_path(n: usize) -> String { let mut p = "assets".to_string(); for i in 0..n { p = format!("{}/level{}", p, i); } format!("{}/deep.txt", p) }
fn deep_files(n: usize) -> Vec<(&'static str, &'static str)> { vec![("assets/top.txt", "top\n"), (Box::leak(deep_path(n).into_boxed_str()), "far down\n")] }
fn deep_rules(n: usize) -> String { format!("deep_out.txt\n:\nassets\n:\nmycat\nassets/top.txt\n{}\ndeep_out.txt\n:\n", deep_path(n)) }
const RULES_EQUAL : &str = "\
joined.txt
:
a.src
b.src
c.src
:
mycat
a.src
b.src
c.src
joined.txt
:

final.txt
:
joined.txt
tail.src
:
mycat
joined.txt
tail.src
final.txt
:
";
const RULES_TWINS : &str = "\
out1.txt
out2.txt
:
in.txt
:
mycat2
in.txt
out1.txt
out2.txt
:

after.txt
:
out2.txt
:
mycat
out2.txt
after.txt
:
";
const RULES_PAIR_SIB : &str = "\
a.txt
b.txt
:
s.txt
:
mycat2
s.txt
a.txt
b.txt
:

c.txt
:
r.txt
:
mycat
r.txt
c.txt
:

d.txt
:
b.txt
:
mycat
b.txt
d.txt
:
";
const RULES_FAILS : &str = "\
left.txt
:
in.txt
:
error
:

right.txt
:
in.txt
:
error
:

middle.txt
:
in.txt
:
mycat
in.txt
middle.txt
:

far.txt
:
absent.txt
:
mycat
absent.txt
far.txt
:

further.txt
:
nowhere.txt
:
mycat
nowhere.txt
further.txt
:
";

#[test]
fn verif_build_mini_scenarios()
{
    use Op::*;
    let minis = vec![
        Mini { name: "targets in sub-directories", rules: RULES_SUBDIR, files: &[("verse.txt", "Roses are red.\n"), ("refrain.txt", "La la la.\n")], dirs: &["out", "out/sub"],
               targets: &["out/poem.txt", "out/sub/deep.txt"],
               histories: vec![
                   vec![Build, Build, Clean, Build],
                   vec![Build, Clean, RemoveDir("out/sub"), RemoveDir("out"), Build],
                   vec![Build, Clean, RemoveDir("out/sub"), Build, MkDir("out/sub"), Build],
                   vec![Build, Write("verse.txt", "Violets are blue.\n"), Build, Delete("out/sub/deep.txt"), RemoveDir("out/sub"), Write("verse.txt", "Roses are red.\n"), Build],
                   vec![Build, Write("verse.txt", "Violets are blue.\n"), Build, Write("verse.txt", "Roses are red.\n"), Build, Clean, Build],
               ] },
        Mini { name: "names that differ by leading dots", rules: RULES_DOTTED, files: &[("defconfig", "CONFIG_FROM_DEFCONFIG=y\n"), ("config.in", "option from config.in\n"), (".notes.src", "hidden notes\n"), ("notes.src", "a file that only looks related\n")], dirs: &[],
               targets: &[".config", "config", "..data", "data", "notes.txt"],
               histories: vec![
                   vec![Build, Build, Delete(".config"), Delete("config"), Build],
                   vec![Build, Build, Delete("..data"), Delete("data"), Build],
                   vec![Build, Clean, Build],
                   vec![Build, Write("defconfig", "CONFIG_NEW=y\n"), Build, Write("defconfig", "CONFIG_FROM_DEFCONFIG=y\n"), Build, Build],
                   vec![Build, Write("config.in", "another option\n"), Build, Clean, Write("config.in", "option from config.in\n"), Build],
                   /*  a source whose name starts with a dot, next to a file with the name without the dot */
                   vec![Build, Write(".notes.src", "hidden notes, revised\n"), Build, Write(".notes.src", "hidden notes\n"), Build],
                   /*  goals whose names start with dots, next to targets with the names without them */
                   vec![BuildGoal(".config", &[".config"]), Write("defconfig", "CONFIG_NEW=y\n"), Write("config.in", "another option\n"), BuildGoal(".config", &[".config"]), Build],
                   vec![Build, CleanGoal(".config", &[".config"]), Build, CleanGoal("..data", &["..data", "data"]), Build],
               ] },
        Mini { name: "an executable target", rules: RULES_TOOL, files: &[("tool.src", "#!/bin/sh\necho tool\n"), ("intro.txt", "How to use the tool.\n")], dirs: &[],
               targets: &["tool.sh", "manual.txt"],
               histories: vec![
                   vec![Build, SetExec("tool.sh"), Build, Clean, Build],
                   vec![Build, SetExec("tool.sh"), Clean, Build, Clean, Build],
                   vec![Build, SetExec("tool.sh"), Build, Write("tool.src", "#!/bin/sh\necho tool 2\n"), Build, Write("tool.src", "#!/bin/sh\necho tool\n"), Build],
               ] },
        /*  sources of one rule that hold the same bytes: which of them holds what matters (the sequence of hashes, not the set) */
        Mini { name: "neighbouring sources with equal contents", rules: RULES_EQUAL, files: &[("a.src", "P\n"), ("b.src", "P\n"), ("c.src", "Q\n"), ("tail.src", "tail one\n")], dirs: &[],
               targets: &["joined.txt", "final.txt"],
               histories: vec![
                   vec![Build, Write("b.src", "Q\n"), Build],
                   vec![Build, Write("b.src", "Q\n"), Write("tail.src", "tail two\n"), Build, Write("b.src", "P\n"), Build],
                   vec![Build, Write("a.src", "Q\n"), Write("c.src", "P\n"), Build, Clean, Build],
               ] },
        /*  a target that holds no bytes at all (a stamp file): it comes back from the cache like any other */
        Mini { name: "an empty target", rules: RULES_STAMP, files: &[("nothing.src", ""), ("words.src", "words\n")], dirs: &[],
               targets: &["stamp", "words.txt"],
               histories: vec![
                   vec![Build, Build, Clean, Build],
                   vec![Build, Write("nothing.src", "something\n"), Build, Write("nothing.src", ""), Build],
                   vec![Build, Delete("stamp"), Build],
               ] },
        /*  one target reached twice by the target lines of one rule (plainly and through a directory group): such a rules file is
            refused; whatever happens, no target gets two status lines */
        Mini { name: "a target spelled twice in one rule", rules: RULES_TWICE, files: &[("verse.txt", "Roses are red.\n")], dirs: &["out"],
               targets: &["out/poem.txt"],
               histories: vec![
                   vec![Build, Write("verse.txt", "Violets are blue.\n"), Build, Write("verse.txt", "Roses are red.\n"), Build],
               ] },
        /*  more rules than any fixed pool of threads: 40 independent rules and one that needs them all */
        Mini { name: "forty-one rules", rules: Box::leak(many_rules(40).into_boxed_str()), files: Box::leak(many_files(40).into_boxed_slice()), dirs: &[],
               targets: Box::leak(many_targets(40).into_boxed_slice()),
               histories: vec![
                   vec![Build, Clean, Build],
                   vec![Build, Build],
               ] },
        /*  a deep chain: 40 rules, each made from the one before */
        Mini { name: "a chain of forty rules", rules: Box::leak(chain_rules(40).into_boxed_str()), files: &[("link00.src", "the first link\n")], dirs: &[],
               targets: Box::leak(chain_targets(40).into_boxed_slice()),
               histories: vec![
                   vec![Build, Write("link00.src", "another first link\n"), Build, Write("link00.src", "the first link\n"), Build],
                   vec![Build, Clean, Build],
                   vec![BuildGoal("link20.txt", Box::leak(chain_targets(21).into_boxed_slice())), Build],
               ] },
        /*  one rule with six targets (six command lines), and a rule that needs the last of them only */
        Mini { name: "a six-target rule", rules: RULES_SIX, files: &[("p.src", "P\n"), ("q.src", "Q\n")], dirs: &[],
               targets: &["t1.txt", "t2.txt", "t3.txt", "t4.txt", "t5.txt", "t6.txt", "last.txt"],
               histories: vec![
                   vec![Build, Write("q.src", "Q2\n"), Build, Write("q.src", "Q\n"), Build],
                   vec![Build, Delete("t4.txt"), Build, Clean, Build],
                   vec![BuildGoal("last.txt", &["t1.txt", "t2.txt", "t3.txt", "t4.txt", "t5.txt", "t6.txt", "last.txt"]), Write("p.src", "P2\n"), Build],
               ] },
        /*  names with spaces, non-ASCII letters and a very long name; a big source (70 KB) */
        Mini { name: "odd names and a big file", rules: Box::leak(odd_rules().into_boxed_str()), files: Box::leak(odd_files().into_boxed_slice()), dirs: &["p\u{e4}th"],
               targets: Box::leak(odd_targets().into_boxed_slice()),
               histories: vec![
                   vec![Build, Build, Clean, Build],
                   vec![Build, Write("my notes.src", "other notes\n"), Build, Write("my notes.src", "my notes\n"), Build],
               ] },
        /*  a directory as a source: what is inside it counts */
        Mini { name: "a directory as a source", rules: RULES_DIRSRC, files: &[("parts/a.txt", "part a\n"), ("parts/sub/b.txt", "part b\n")], dirs: &["parts", "parts/sub"],
               targets: &["whole.txt"],
               histories: vec![
                   vec![Build, Write("parts/sub/b.txt", "part b, revised\n"), Build, Write("parts/sub/b.txt", "part b\n"), Build],
                   vec![Build, Write("parts/a.txt", "part b\n"), Write("parts/sub/b.txt", "part a\n"), Build],
                   vec![Build, Build, Clean, Build],
               ] },
        /*  a rule without any command line (the parser and the sorter accept it): a failure like any other */
        Mini { name: "a rule without command lines", rules: RULES_NOCMD, files: &[("in.txt", "input\n")], dirs: &[],
               targets: &["before.txt", "nothing.txt", "after.txt", "apart.txt"],
               histories: vec![
                   vec![BuildErrors(1)],
                   vec![BuildErrors(1), BuildErrors(1), Clean],
                   vec![BuildGoal("apart.txt", &["apart.txt"]), BuildErrors(1)],
               ] },
        /*  a directory source with a file twenty directories down */
        Mini { name: "a deep directory as a source", rules: Box::leak(deep_rules(20).into_boxed_str()), files: Box::leak(deep_files(20).into_boxed_slice()), dirs: Box::leak(deep_dirs(20).into_boxed_slice()),
               targets: &["deep_out.txt"],
               histories: vec![
                   vec![Build, Write(Box::leak(deep_path(20).into_boxed_str()), "far down, revised\n"), Build, Write(Box::leak(deep_path(20).into_boxed_str()), "far down\n"), Build],
               ] },
        /*  a DIRECTORY (with files that are nobody's targets) where a rule's target should be: clean leaves it alone */
        Mini { name: "a directory at a target path", rules: RULES_DOCS, files: &[("manual.txt", "the manual\n"), ("docs/intro.txt", "introduction\n"), ("docs/notes.txt", "notes\n")], dirs: &["docs"],
               targets: &["docs", "book.txt"],
               histories: vec![
                   vec![Clean],
                   vec![BuildGoal("book.txt", &["book.txt"]), Clean],
                   vec![BuildGoal("book.txt", &["book.txt"]), CleanGoal("docs", &["docs"]), CleanGoal("book.txt", &["book.txt"])],
               ] },
        /*  the two targets of one rule hold the SAME bytes (one cache entry for both), and a dependent of the second: going back to an
            earlier source state brings only one of them back from the cache, the other has to be made again */
        Mini { name: "twin targets of one rule", rules: RULES_TWINS, files: &[("in.txt", "a\n")], dirs: &[],
               targets: &["out1.txt", "out2.txt", "after.txt"],
               histories: vec![
                   vec![Build, Write("in.txt", "b\n"), Build, Write("in.txt", "a\n"), Build],
                   vec![Build, Write("in.txt", "b\n"), Build, Delete("out1.txt"), Write("in.txt", "a\n"), Build, Build],
                   vec![Build, Clean, Build, Write("in.txt", "b\n"), Build, Clean, Write("in.txt", "a\n"), Build],
               ] },
        /*  a two-target rule, a sibling rule that writes the same bytes in the same invocation, and a dependent of the second target:
            in the last build the first target is already right (written by hand) and the second comes back from the cache */
        Mini { name: "two targets, the first already right", rules: RULES_PAIR_SIB, files: &[("s.txt", "x"), ("r.txt", "q")], dirs: &[],
               targets: &["a.txt", "b.txt", "c.txt", "d.txt"],
               histories: vec![
                   vec![Build, Write("s.txt", "y"), Write("r.txt", "x"), Build, Write("r.txt", "z"), Build, Write("s.txt", "x"), Write("a.txt", "x"), Build],
                   vec![Build, Write("s.txt", "y"), Write("r.txt", "x"), Build, Write("r.txt", "z"), Build, Write("s.txt", "x"), Write("b.txt", "x"), Build],
               ] },
        Mini { name: "several rules fail alike", rules: RULES_FAILS, files: &[("in.txt", "input\n")], dirs: &[],
               targets: &["left.txt", "right.txt", "middle.txt", "far.txt", "further.txt"],
               histories: vec![
                   vec![BuildReport(4, &["absent.txt", "nowhere.txt"])],
                   vec![BuildErrors(4), BuildReport(4, &["absent.txt", "nowhere.txt"])],
                   vec![BuildErrors(4), Write("absent.txt", "now here\n"), BuildReport(3, &["nowhere.txt"]), Write("nowhere.txt", "here too\n"), BuildErrors(2)],
               ] },
    ];
    let names = ["B-build-C01", "B-build-C02", "B-build-C04", "B-build-C05", "B-build-C07", "B-build-C08", "B-build-C09", "B-build-C10", "B-build-C18", "B-build-C20"];
    let mut bad = vec![0u64; names.len()]; let mut cases = 0u64;
    for m in minis.iter()
    {
        for h in m.histories.iter()
        {
            cases += 1;
            let o1 = run_mini(m, h, false); let o2 = run_mini(m, h, true);
            let mut all = o1.complaints.clone();
            if o1.finals != o2.finals || o1.verdicts != o2.verdicts { all.push(("B-build-C18".to_string(), format!("with table: {:?} {:?}; table erased: {:?} {:?}", o1.verdicts, o1.finals, o2.verdicts, o2.finals))); }
            for (name, what) in all.iter() { let k = names.iter().position(|n| n == name).unwrap(); bad[k] += 1; println!("WITNESS {}-mini :: {}: {:?} :: {}", name, m.name, h, what); }
        }
    }
    for (k, n) in names.iter().enumerate() { println!("SUMMARY {}-mini cases={} disagreements={}", n, cases, bad[k]); }
}

/*  ---------------------------------------------------------------------------------------------------------------------------
    RANDOM WORKSPACES (seeded, reproducible): rule graphs drawn from a pool of names that includes dot names, names that differ only by
    leading dots, sub-directories and two-target rules with two command lines, and histories drawn from {build, build goal, clean, clean
    goal, edit a source, tamper with / delete a target, reorder the words of a command in the rules file}.  The oracles are the
    model-free ones of the mini scenarios (C01 against the real build() on a fresh file system with the same goal, C02, C05, C07, C08,
    C09 incl. goal scope, C10, C18) plus C04: the number of reported failures is the number of missing leaves and of failing rules
    that could start.  Bound: 150 x n workspaces in the quick tier (n = the history length of the exhaustive part), 6000 in the thorough tier, one history of 6-7 steps each.
    --------------------------------------------------------------------------------------------------------------------------- */
struct Rng(u64);
impl Rng
{
    fn next(&mut self) -> u64 { self.0 ^= self.0 << 13; self.0 ^= self.0 >> 7; self.0 ^= self.0 << 17; self.0 }
    fn below(&mut self, n: usize) -> usize { (self.next() % (n as u64)) as usize }
}
#[derive(Clone, Debug)]
struct RRule { targets: Vec<String>, sources: Vec<String>, cmds: Vec<Vec<String>>, fails: bool }
#[derive(Clone, Debug)]
enum ROp { Build, BuildGoal(String), Clean, CleanGoal(String), Edit(String, String), Tamper(String), Delete(String), Reorder(usize) }
fn rrules_text(rules: &Vec<RRule>) -> String
{
    let mut out = String::new();
    for r in rules.iter()
    {
        for t in r.targets.iter() { out.push_str(t); out.push('\n'); }
        out.push_str(":\n");
        for s in r.sources.iter() { out.push_str(s); out.push('\n'); }
        out.push_str(":\n");
        for (k, c) in r.cmds.iter().enumerate() { if k > 0 { out.push_str(";\n"); } for w in c.iter() { out.push_str(w); out.push('\n'); } }
        out.push_str(":\n\n");
    }
    out
}
/*  the targets in the scope of a goal: the goal's rule and everything it needs, transitively */
fn rscope(rules: &Vec<RRule>, goal: &str) -> Vec<String>
{
    let mut need : Vec<usize> = rules.iter().enumerate().filter(|(_, r)| r.targets.iter().any(|t| t == goal)).map(|(i, _)| i).collect();
    let mut k = 0;
    while k < need.len() { let r = &rules[need[k]]; for s in r.sources.iter() { if let Some(j) = rules.iter().position(|q| q.targets.contains(s)) { if !need.contains(&j) { need.push(j); } } } k += 1; }
    need.iter().flat_map(|i| rules[*i].targets.clone()).collect()
}
/*  how many failures a build of `scope` must report: missing leaves, and failing rules all of whose needs can be met */
fn rexpected_failures(rules: &Vec<RRule>, system: &FakeSystem, in_scope: &dyn Fn(&RRule) -> bool) -> usize
{
    let mut missing : BTreeSet<String> = BTreeSet::new();
    let mut bad : Vec<bool> = vec![false; rules.len()];      /*  the rule fails or is cancelled */
    let mut count = 0;
    /*  rules are generated in dependency order */
    for (i, r) in rules.iter().enumerate()
    {
        if !in_scope(r) { continue; }
        let mut cancelled = false;
        for s in r.sources.iter()
        {
            match rules.iter().position(|q| q.targets.contains(s))
            {
                Some(j) => if bad[j] { cancelled = true; },
                None => if !system.is_file(s) { missing.insert(s.clone()); cancelled = true; },
            }
        }
        if cancelled { bad[i] = true; } else if r.fails { bad[i] = true; count += 1; }
    }
    count + missing.len()
}
fn run_random(seed: u64, drop_table: bool, names: &[&'static str]) -> (Vec<bool>, Vec<Option<String>>, Vec<(String, String)>, String)
{
    let mut rng = Rng(seed.wrapping_mul(0x9E3779B97F4A7C15) | 1);
    for _ in 0..4 { rng.next(); }
    let target_pool = ["a.txt", ".a.txt", "b.txt", "..b.txt", "out/c.txt", "out/sub/d.txt", "out/.c.txt", "lib/libe.a", "e.a", "f"];
    let leaf_pool = ["s1.txt", ".s1.txt", "s2.txt", "src/s3.txt", "src/.s3.txt"];
    let contents = ["one\n", "two\n", "three\n", "", "one\ntwo\n"];
    /*  the rule graph */
    let nrules = 2 + rng.below(4);
    let mut free : Vec<&str> = target_pool.to_vec();
    let mut rules : Vec<RRule> = vec![];
    for _ in 0..nrules
    {
        if free.len() < 2 { break; }
        let two = rng.below(4) == 0;
        let mut targets = vec![free.remove(rng.below(free.len())).to_string()];
        if two { targets.push(free.remove(rng.below(free.len())).to_string()); }
        let mut avail : Vec<String> = leaf_pool.iter().map(|s| s.to_string()).collect();
        for r in rules.iter() { for t in r.targets.iter() { avail.push(t.clone()); } }
        let ns = 1 + rng.below(3);
        let mut sources : Vec<String> = vec![];
        for _ in 0..ns { let s = avail[rng.below(avail.len())].clone(); if !sources.contains(&s) { sources.push(s); } }
        let fails = rng.below(9) == 0;
        let cmds : Vec<Vec<String>> =
            if fails { vec![vec!["error".to_string()]] }
            else
            {
                targets.iter().enumerate().map(|(k, t)|
                {
                    let mut c = vec!["mycat".to_string()];
                    /*  the second target of a two-target rule gets its sources in reverse order (a different content, mostly) */
                    if k == 0 { for s in sources.iter() { c.push(s.clone()); } } else { for s in sources.iter().rev() { c.push(s.clone()); } c.push(sources[0].clone()); }
                    c.push(t.clone()); c
                }).collect()
            };
        rules.push(RRule { targets, sources, cmds, fails });
    }
    let all_targets : Vec<String> = rules.iter().flat_map(|r| r.targets.clone()).collect();
    let used_leaves : Vec<String> = { let mut v : Vec<String> = rules.iter().flat_map(|r| r.sources.clone()).filter(|s| !all_targets.contains(s)).collect(); v.sort(); v.dedup(); v };
    /*  the history */
    let mut ops : Vec<ROp> = vec![ROp::Build];
    for _ in 0..5
    {
        let t = all_targets[rng.below(all_targets.len())].clone();
        ops.push(match rng.below(12)
        {
            0 | 1 | 2 => ROp::Build,
            3 => ROp::BuildGoal(t),
            4 => ROp::Clean,
            5 => ROp::CleanGoal(t),
            6 | 7 | 8 => ROp::Edit(used_leaves[rng.below(used_leaves.len())].clone(), contents[rng.below(contents.len())].to_string()),
            9 => ROp::Tamper(t),
            10 => ROp::Delete(t),
            _ => ROp::Reorder(rng.below(rules.len())),
        });
    }
    if !matches!(ops.last(), Some(ROp::Build)) { ops.push(ROp::Build); }
    let label = format!("seed {} rules {:?} history {:?}", seed, rules.iter().map(|r| format!("{:?}<-{:?}{}", r.targets, r.sources, if r.fails { " FAILS" } else { "" })).collect::<Vec<String>>(), ops);
    /*  the workspace */
    let mut system = FakeSystem::new(10);
    for d in ["out", "out/sub", "lib", "src"].iter() { system.create_dir(d).unwrap(); }
    for (k, l) in leaf_pool.iter().enumerate() { write_str_to_file(&mut system, l, &format!("leaf {} {}", k, contents[k % contents.len()])).unwrap(); }
    write_str_to_file(&mut system, "build.rules", &rrules_text(&rules)).unwrap();
    let tnames : Vec<&str> = all_targets.iter().map(|s| s.as_str()).collect();
    let mut complaints : Vec<(String, String)> = vec![]; let mut verdicts = vec![];
    let mut quiet_since_ok_build = false;
    let _ = names;
    for op in ops.iter()
    {
        system.time_passes(1);
        let before = snapshot(&system);
        let held_before = held_mini(&system, &tnames);
        let log_before = system.get_command_log().len();
        let mut is_ruler = false;
        match op
        {
            ROp::Edit(p, c) => { write_str_to_file(&mut system, p, c).unwrap(); quiet_since_ok_build = false; },
            ROp::Tamper(p) => { write_str_to_file(&mut system, p, "tampered\n").unwrap(); quiet_since_ok_build = false; },
            ROp::Delete(p) => { if system.is_file(p) { system.remove_file(p).unwrap(); } quiet_since_ok_build = false; },
            ROp::Reorder(k) =>
            {
                /*  the first command line of rule k gets its input words in reverse order (same words, another command) */
                if !rules[*k].fails { let c = &mut rules[*k].cmds[0]; let n = c.len(); if n > 3 { c[1..n - 1].reverse(); } }
                write_str_to_file(&mut system, "build.rules", &rrules_text(&rules)).unwrap(); quiet_since_ok_build = false;
            },
            ROp::Build | ROp::BuildGoal(_) =>
            {
                is_ruler = true;
                if drop_table && system.is_file(".ruler/current_file_states") { system.remove_file(".ruler/current_file_states").unwrap(); }
                let goal : Option<String> = match op { ROp::BuildGoal(g) => Some(g.clone()), _ => None };
                let scope : Vec<String> = match &goal { Some(g) => rscope(&rules, g), None => all_targets.clone() };
                let expected_failures = { let sc = scope.clone(); rexpected_failures(&rules, &system, &move |r: &RRule| r.targets.iter().any(|t| sc.contains(t))) };
                let sys2 = system.clone(); let goal2 = goal.clone();
                let result = match std::panic::catch_unwind(std::panic::AssertUnwindSafe(move || build(sys2, &mut EmptyPrinter::new(), BuildParams::from_all(".ruler".to_string(), vec!["build.rules".to_string()], None, goal2))))
                {
                    Ok(r) => r,
                    Err(_) => { complaints.push(("B-build-C05".to_string(), "build() panicked".to_string())); verdicts.push(false); continue; },
                };
                let ok = result.is_ok();
                verdicts.push(ok);
                let ran = system.get_command_log()[log_before..].len();
                let got = match &result { Err(crate::build::BuildError::WorkErrors(v)) => v.len(), Err(_) => usize::MAX, Ok(()) => 0 };
                if got != usize::MAX && got != expected_failures { complaints.push(("B-build-C04".to_string(), format!("{} failure(s) reported, {} missing leaves / failing rules that could start", got, expected_failures))); }
                if ok
                {
                    /*  C01: the same goal built by the real build() on a fresh file system holding the same non-target files */
                    let after = snapshot(&system);
                    let mut fresh = FakeSystem::new(10);
                    for d in after.1.iter() { fresh.create_dir(d).unwrap(); }
                    for (p, (c, _, _)) in after.0.iter() { if !all_targets.contains(p) { write_str_to_file(&mut fresh, p, c).unwrap(); } }
                    fresh.time_passes(1);
                    if build(fresh.clone(), &mut EmptyPrinter::new(), BuildParams::from_all(".ruler".to_string(), vec!["build.rules".to_string()], None, goal.clone())).is_ok()
                    {
                        for t in scope.iter() { if read(&system, t) != read(&fresh, t) { complaints.push(("B-build-C01".to_string(), format!("after a successful build {} holds {:?}, a from-scratch build of the same sources gives {:?}", t, read(&system, t), read(&fresh, t)))); } }
                    }
                    else { complaints.push(("B-build-C01".to_string(), "the build succeeded where a from-scratch build of the same files fails".to_string())); }
                    let mut cs : Vec<Option<String>> = all_targets.iter().map(|t| read(&system, t)).collect(); let k = cs.len(); cs.sort(); cs.dedup();
                    if goal.is_none() && quiet_since_ok_build && cs.len() == k && ran != 0 { complaints.push(("B-build-C02".to_string(), format!("{} command(s) ran in a build that follows a successful build (and possibly a clean) with nothing changed", ran))); }
                }
                quiet_since_ok_build = ok && goal.is_none();
                if goal.is_some()
                {
                    let after = snapshot(&system);
                    for t in all_targets.iter() { if !scope.contains(t) && after.0.get(t) != before.0.get(t) { complaints.push(("B-build-C09".to_string(), format!("{} is outside the scope of goal {:?} and was changed by the build", t, goal))); } }
                }
            },
            ROp::Clean | ROp::CleanGoal(_) =>
            {
                is_ruler = true;
                if drop_table && system.is_file(".ruler/current_file_states") { system.remove_file(".ruler/current_file_states").unwrap(); }
                let goal : Option<String> = match op { ROp::CleanGoal(g) => Some(g.clone()), _ => None };
                let scope : Vec<String> = match &goal { Some(g) => rscope(&rules, g), None => all_targets.clone() };
                let sys2 = system.clone(); let goal2 = goal.clone();
                let cleaned = match std::panic::catch_unwind(std::panic::AssertUnwindSafe(move || clean(sys2, ".ruler", vec!["build.rules".to_string()], goal2)))
                {
                    Ok(r) => r,
                    Err(_) => { complaints.push(("B-build-C05".to_string(), "clean() panicked".to_string())); verdicts.push(false); continue; },
                };
                verdicts.push(cleaned.is_ok());
                if cleaned.is_ok() { for t in scope.iter() { if system.is_file(t) { complaints.push(("B-build-C10".to_string(), format!("{} is still in the workspace after a clean that reported success", t))); } } }
                else { quiet_since_ok_build = false; }
                if goal.is_some()
                {
                    quiet_since_ok_build = false;
                    let after = snapshot(&system);
                    for t in all_targets.iter() { if !scope.contains(t) && after.0.get(t) != before.0.get(t) { complaints.push(("B-build-C09".to_string(), format!("{} is outside the scope of goal {:?} and was changed by the clean", t, goal))); } }
                }
            },
        }
        if is_ruler
        {
            let after = snapshot(&system);
            for (p, st) in before.0.iter() { if !all_targets.contains(p) && after.0.get(p) != Some(st) { complaints.push(("B-build-C09".to_string(), format!("{} is not a target and was changed or removed by the invocation", p))); } }
            for (p, _) in after.0.iter() { if !all_targets.contains(p) && !before.0.contains_key(p) { complaints.push(("B-build-C09".to_string(), format!("{} is not a target and was created by the invocation", p))); } }
            if before.1 != after.1 { complaints.push(("B-build-C09".to_string(), format!("the directories outside the ruler directory were {:?} and are {:?} after the invocation", before.1, after.1))); }
            if let Some(c) = cache_ok(&system) { complaints.push(("B-build-C07".to_string(), c)); }
            let held_after = held_mini(&system, &tnames);
            for c in held_before.iter() { if !held_after.contains(c) { complaints.push(("B-build-C08".to_string(), format!("content {:?} was held before the invocation and is gone", c))); } }
        }
    }
    let finals = all_targets.iter().map(|t| read(&system, t)).collect();
    (verdicts, finals, complaints, label)
}

#[test]
fn verif_build_random()
{
    std::panic::set_hook(Box::new(|_| {}));
    let n : u64 = std::env::var("VERIF_RANDOM_CASES").ok().and_then(|s| s.parse().ok()).unwrap_or_else(|| { let h = std::env::var("VERIF_HISTORY_LEN").ok().and_then(|s| s.parse::<u64>().ok()).unwrap_or(4); if h >= 5 { 6000 } else { 150 * h } });
    let names = ["B-build-C01", "B-build-C02", "B-build-C04", "B-build-C05", "B-build-C07", "B-build-C08", "B-build-C09", "B-build-C10", "B-build-C18"];
    let mut bad = vec![0u64; names.len()];
    let mut stats = (0usize, 0usize);
    for seed in 1..=n
    {
        let (v1, f1, mut all, label) = run_random(seed, false, &names);
        stats.0 += v1.len(); stats.1 += v1.iter().filter(|b| **b).count();
        let (v2, f2, _, _) = run_random(seed, true, &names);
        if v1 != v2 || f1 != f2 { all.push(("B-build-C18".to_string(), format!("with table: {:?} {:?}; table erased: {:?} {:?}", v1, f1, v2, f2))); }
        for (name, what) in all.iter() { let k = names.iter().position(|x| x == name).unwrap(); bad[k] += 1; if bad[k] <= 3 { println!("WITNESS {}-random :: {} :: {}", name, label, what); } }
    }
    for (k, name) in names.iter().enumerate() { println!("SUMMARY {}-random cases={} disagreements={}", name, n, bad[k]); }
    println!("SUMMARY B-build-random-stats cases={} disagreements=0 invocations={} successful={}", n, stats.0, stats.1);
}
