/*  BOUNDED stand-in (labelled bounded, never counted as proved) for the schedule-quantified properties C03, C05, C06 on `build()`
    as a whole: the verifier decides per-thread contracts and composition lemmas, not interleavings.  DelaySystem wraps the crate's
    FakeSystem and pauses chosen operations (a rule's command, the reading of a leaf file) for a chosen time, which pushes the rule
    threads of the real `build()` into different orders.  Every assignment of a delay level (0, 40 ms; in the thorough tier also 80 ms) to six delay points is one
    schedule; every scenario of a small corpus is run under all of them:
      C05  build() returns (no hang within the time-out) and does not panic
      C04  a missing leaf is reported by exactly one error and every rule that does not depend on it is still brought up to date
      C06  verdict (Ok, or the set of errors) and the final bytes of every target are the same under every schedule
      C03  no rule's command starts before the command of a rule it depends on has finished (global command log), and a
           successful build leaves the from-scratch outputs
    Output: `WITNESS B-sched-Cxx :: <scenario> delays <...> :: <what>` and `SUMMARY B-sched-Cxx cases=N disagreements=M`. */
use crate::build::{build, BuildParams, BuildError};
use crate::printer::EmptyPrinter;
use crate::system::{System, SystemError, CommandLineOutput, CommandScript};
use crate::system::fake::{FakeSystem, FakeOpenFile};
use crate::system::util::{write_str_to_file, read_file_to_string};
use std::panic::{catch_unwind, AssertUnwindSafe};
use std::sync::Arc;
use std::sync::mpsc;
use std::time::{Duration, SystemTime};

#[derive(Clone)]
struct DelaySystem { inner: FakeSystem, delays: Arc<Vec<(&'static str, &'static str, u64)>>, mkdirs: Arc<std::sync::atomic::AtomicUsize> }
impl std::fmt::Debug for DelaySystem { fn fmt(&self, f: &mut std::fmt::Formatter<'_>) -> std::fmt::Result { write!(f, "DelaySystem") } }
impl DelaySystem
{
    fn pause(&self, op: &str, subject: &str)
    {
        for (o, s, ms) in self.delays.iter() { if *o == op && subject.contains(s) && *ms > 0 { std::thread::sleep(Duration::from_millis(*ms)); } }
    }
}
impl System for DelaySystem
{
    type File = FakeOpenFile;
    fn open(&self, path: &str) -> Result<Self::File, SystemError> { self.pause("open", path); self.inner.open(path) }
    fn create_file(&mut self, path: &str) -> Result<Self::File, SystemError> { self.inner.create_file(path) }
    /*  delay point for directories made in the workspace: the subject is "<path>#<n>", n counting such calls over all threads, so
        that ("create_dir", "#1") holds up whichever thread gets there first and lets the others overtake it */
    fn create_dir(&mut self, path: &str) -> Result<(), SystemError>
    {
        if !path.starts_with(".ruler") { let n = self.mkdirs.fetch_add(1, std::sync::atomic::Ordering::SeqCst) + 1; self.pause("create_dir", &format!("{}#{}", path, n)); }
        self.inner.create_dir(path)
    }
    fn is_dir(&self, path: &str) -> bool { self.inner.is_dir(path) }
    fn is_file(&self, path: &str) -> bool { self.inner.is_file(path) }
    fn remove_file(&mut self, path: &str) -> Result<(), SystemError> { self.inner.remove_file(path) }
    fn remove_dir(&mut self, path: &str) -> Result<(), SystemError> { self.inner.remove_dir(path) }
    fn list_dir(&self, path: &str) -> Result<Vec<String>, SystemError> { self.inner.list_dir(path) }
    fn rename(&mut self, from: &str, to: &str) -> Result<(), SystemError> { self.pause("rename", from); self.pause("rename", to); self.inner.rename(from, to) }
    fn get_modified(&self, path: &str) -> Result<SystemTime, SystemError> { self.inner.get_modified(path) }
    fn is_executable(&self, path: &str) -> Result<bool, SystemError> { self.inner.is_executable(path) }
    fn set_is_executable(&mut self, path: &str, executable: bool) -> Result<(), SystemError> { self.inner.set_is_executable(path, executable) }
    fn execute_command(&mut self, command_script: CommandScript) -> Vec<Result<CommandLineOutput, SystemError>>
    {
        self.pause("command", &format!("{}", command_script));
        self.inner.execute_command(command_script)
    }
}

const RULES : &str = "\
lib.txt
:
src.txt
:
mycat
src.txt
hid.txt
lib.txt
:

app1.txt
:
a_in.txt
lib.txt
:
mycat
a_in.txt
lib.txt
app1.txt
:

app2.txt
:
lib.txt
:
mycat
lib.txt
app2.txt
:

top.txt
:
app1.txt
app2.txt
:
mycat
app1.txt
app2.txt
top.txt
:
";
const TARGETS : [&str; 4] = ["lib.txt", "app1.txt", "app2.txt", "top.txt"];
/*  (first words of the command of a rule, first words of the commands of the rules it depends on) */
const ORDER : [(&str, &[&str]); 3] = [
    ("mycat a_in.txt lib.txt app1.txt", &["mycat src.txt hid.txt lib.txt"]),
    ("mycat lib.txt app2.txt", &["mycat src.txt hid.txt lib.txt"]),
    ("mycat app1.txt app2.txt top.txt", &["mycat a_in.txt lib.txt app1.txt", "mycat lib.txt app2.txt"])];
/*  the six delay points: a rule's command (by its target), the reading of a leaf (by its path), every rename from or to lib.txt
    (its displacement into the cache and its recovery from it) */
const POINTS : [(&str, &str); 6] = [("command", "hid.txt lib.txt"), ("command", "lib.txt app1.txt"), ("command", "lib.txt app2.txt"), ("open", "src.txt"), ("open", "a_in.txt"), ("rename", "lib.txt")];
const DELAY_MS : u64 = 40;

fn params() -> BuildParams { BuildParams::from_all(".ruler".to_string(), vec!["build.rules".to_string()], None, None) }
fn read(system: &FakeSystem, p: &str) -> Option<String> { if system.is_file(p) { read_file_to_string(system, p).ok() } else { None } }
fn fresh() -> FakeSystem
{
    let mut system = FakeSystem::new(10);
    write_str_to_file(&mut system, "build.rules", RULES).unwrap();
    write_str_to_file(&mut system, "src.txt", "S1\n").unwrap();
    write_str_to_file(&mut system, "hid.txt", "H\n").unwrap();
    write_str_to_file(&mut system, "a_in.txt", "A\n").unwrap();
    system
}
fn built_once() -> FakeSystem { let mut s = fresh(); build(s.clone(), &mut EmptyPrinter::new(), params()).unwrap(); s.time_passes(1); s }

/*  expect: what C04 demands of the outcome -- (the verdict, which targets must hold their from-scratch bytes; the others must not have been built by this invocation) */
struct Scenario { name: &'static str, make: fn() -> FakeSystem, expect: Option<(&'static str, &'static [&'static str])> }
fn s_fresh() -> FakeSystem { let mut s = fresh(); s.time_passes(1); s }
fn s_missing_leaf() -> FakeSystem { let mut s = fresh(); s.remove_file("a_in.txt").unwrap(); s.time_passes(1); s }
fn s_edit_after_build() -> FakeSystem { let mut s = built_once(); write_str_to_file(&mut s, "src.txt", "S2\n").unwrap(); s.time_passes(1); s }
fn s_failing_command() -> FakeSystem { let mut s = fresh(); s.remove_file("hid.txt").unwrap(); s.time_passes(1); s }
fn s_missing_leaf_after_build() -> FakeSystem { let mut s = built_once(); write_str_to_file(&mut s, "src.txt", "S2\n").unwrap(); s.remove_file("a_in.txt").unwrap(); s.time_passes(1); s }
fn s_corrupt_history() -> FakeSystem
{
    let mut s = built_once();
    let names = s.list_dir(".ruler/history").unwrap();
    write_str_to_file(&mut s, &names[0], "this is not a rule history").unwrap();
    write_str_to_file(&mut s, "src.txt", "S2\n").unwrap();
    s.time_passes(1); s
}
fn s_flip_back() -> FakeSystem
{
    let mut s = built_once(); write_str_to_file(&mut s, "src.txt", "S2\n").unwrap(); build(s.clone(), &mut EmptyPrinter::new(), params()).unwrap(); s.time_passes(1);
    write_str_to_file(&mut s, "src.txt", "S1\n").unwrap(); s.time_passes(1); s
}

/*  the producer lib.txt recovers its target from the cache while a dependent (new a_in.txt) has to run its command */
fn s_flip_back_and_edit() -> FakeSystem { let mut s = s_flip_back(); write_str_to_file(&mut s, "a_in.txt", "A2\n").unwrap(); s.time_passes(1); s }

fn work_error_name(e: &crate::work::WorkError) -> String
{
    use crate::work::WorkError::*;
    match e
    {
        FileNotFound(p) => format!("FileNotFound({})", p), TargetFileNotGenerated(p) => format!("TargetFileNotGenerated({})", p),
        FileNotAvailableToCache(p, _) => format!("FileNotAvailableToCache({})", p), ReadWriteError(p, _) => format!("ReadWriteError({})", p),
        TicketAlignmentError(_) => "TicketAlignmentError".to_string(), ResolutionError(_) => "ResolutionError".to_string(), GetCurrentFileInfoError(_) => "GetCurrentFileInfoError".to_string(),
        CommandExecutedButErrored => "CommandExecutedButErrored".to_string(), CommandFailedToExecute(_) => "CommandFailedToExecute".to_string(), NoCommandExecuted => "NoCommandExecuted".to_string(),
        Contradiction(v) => format!("Contradiction({:?})", v), Weird => "Weird".to_string(),
    }
}
fn verdict(r: &Result<(), BuildError>) -> String
{
    match r
    {
        Ok(()) => "Ok".to_string(),
        /*  by variant, not by message text: rewording a message is not a change of outcome */
        Err(BuildError::WorkErrors(v)) => { let mut e : Vec<String> = v.iter().map(|x| work_error_name(x)).collect(); e.sort(); format!("WorkErrors{:?}", e) },
        Err(BuildError::Canceled) => "Err(Canceled)".to_string(),
        Err(BuildError::Weird) => "Err(Weird)".to_string(),
        Err(_) => "Err(other build error)".to_string(),
    }
}

/*  second corpus: two INDEPENDENT rules whose left-over targets hold identical bytes; rule a's command never writes its target.
    Whatever the other rule does to the shared cache, a.txt must be reported as not generated under every schedule (C04, C06). */
const RULES_TWINS : &str = "\
a.txt
:
in.txt
:
mycat
in.txt
misnamed.txt
:

b.txt
:
in.txt
:
mycat
in.txt
b.txt
:
";
#[test]
fn verif_sched_twins()
{
    std::panic::set_hook(Box::new(|_| {}));
    let points : [(&str, &str); 4] = [("rename", "a.txt"), ("rename", "b.txt"), ("open", "a.txt"), ("open", "b.txt")];
    let (mut c04, mut b04, mut c05, mut b05, mut c06, mut b06) = (0usize, 0usize, 0usize, 0usize, 0usize, 0usize);
    let mut reference : Option<(String, Vec<Option<String>>, String)> = None;
    let levels : usize = std::env::var("VERIF_SCHED_LEVELS").ok().and_then(|s| s.parse().ok()).unwrap_or(2);
    for code in 0..levels.pow(points.len() as u32)
    {
        let delays : Vec<(&'static str, &'static str, u64)> = points.iter().enumerate().map(|(i, (o, s))| (*o, *s, ((code / levels.pow(i as u32)) % levels) as u64 * DELAY_MS)).collect();
        let label = format!("twin left-over targets, delays {:?}", delays.iter().map(|d| d.2).collect::<Vec<u64>>());
        let mut system = FakeSystem::new(10);
        write_str_to_file(&mut system, "build.rules", RULES_TWINS).unwrap();
        write_str_to_file(&mut system, "in.txt", "input\n").unwrap();
        write_str_to_file(&mut system, "a.txt", "left over\n").unwrap();
        write_str_to_file(&mut system, "b.txt", "left over\n").unwrap();
        system.time_passes(1);
        let ds = DelaySystem { inner: system.clone(), delays: Arc::new(delays), mkdirs: Arc::new(std::sync::atomic::AtomicUsize::new(0)) };
        let (tx, rx) = mpsc::channel();
        std::thread::spawn(move || { let r = catch_unwind(AssertUnwindSafe(|| build(ds, &mut EmptyPrinter::new(), params()))); let _ = tx.send(r); });
        c05 += 1;
        let result = match rx.recv_timeout(Duration::from_secs(20))
        {
            Err(_) => { b05 += 1; println!("WITNESS B-sched-C05 :: {} :: build() did not return within 20 s", label); continue; },
            Ok(Err(_)) => { b05 += 1; println!("WITNESS B-sched-C05 :: {} :: build() panicked", label); continue; },
            Ok(Ok(r)) => r,
        };
        let v = verdict(&result);
        let finals : Vec<Option<String>> = ["a.txt", "b.txt"].iter().map(|t| read(&system, t)).collect();
        c04 += 1;
        if !v.contains("a.txt") || result.is_ok() || finals[1] != Some("input\n".to_string())
        {
            b04 += 1; if b04 <= 4 { println!("WITNESS B-sched-C04 :: {} :: verdict {} files {:?}: a.txt is not generated by its command and must be reported; b.txt must be built", label, v, finals); }
        }
        c06 += 1;
        match &reference
        {
            None => reference = Some((v, finals, label.clone())),
            Some((rv, rf, rl)) => if *rv != v || *rf != finals { b06 += 1; if b06 <= 4 { println!("WITNESS B-sched-C06 :: {} :: outcome {} {:?} differs from {} {:?} under [{}]", label, v, finals, rv, rf, rl); } },
        }
    }
    println!("SUMMARY B-sched-twins-C04 cases={} disagreements={}", c04, b04);
    println!("SUMMARY B-sched-twins-C05 cases={} disagreements={}", c05, b05);
    println!("SUMMARY B-sched-twins-C06 cases={} disagreements={}", c06, b06);
}

/*  generic runner for the small corpora below: one rules text, a set-up, delay points, and what every schedule must give */
fn run_corpus(name: &str, rules: &str, setup: fn(&mut FakeSystem), points: &[(&'static str, &'static str)], targets: &[&str],
              want_verdict: Option<&str>, forbidden_commands: &[&str], tallies: &mut [(usize, usize); 4])
{
    run_corpus_with(name, rules, setup, points, DELAY_MS, targets, want_verdict, forbidden_commands, tallies)
}
/*  the same with the length of one delay step given: a LONG pause (most of a second) is what shows a thread that stops listening
    after a while instead of waiting for every source (a "grace period" is a schedule dependence) */
fn run_corpus_with(name: &str, rules: &str, setup: fn(&mut FakeSystem), points: &[(&'static str, &'static str)], step_ms: u64, targets: &[&str],
              want_verdict: Option<&str>, forbidden_commands: &[&str], tallies: &mut [(usize, usize); 4])
{
    let levels : usize = std::env::var("VERIF_SCHED_LEVELS").ok().and_then(|s| s.parse().ok()).unwrap_or(2);
    let mut reference : Option<(String, Vec<Option<String>>, String)> = None;
    for code in 0..levels.pow(points.len() as u32)
    {
        let delays : Vec<(&'static str, &'static str, u64)> = points.iter().enumerate().map(|(i, (o, s))| (*o, *s, ((code / levels.pow(i as u32)) % levels) as u64 * step_ms)).collect();
        let label = format!("{}, delays {:?}", name, delays.iter().map(|d| d.2).collect::<Vec<u64>>());
        let mut system = FakeSystem::new(10);
        write_str_to_file(&mut system, "build.rules", rules).unwrap();
        setup(&mut system);
        system.time_passes(1);
        let log_before = system.get_command_log().len();
        let ds = DelaySystem { inner: system.clone(), delays: Arc::new(delays), mkdirs: Arc::new(std::sync::atomic::AtomicUsize::new(0)) };
        let (tx, rx) = mpsc::channel();
        std::thread::spawn(move || { let r = catch_unwind(AssertUnwindSafe(|| build(ds, &mut EmptyPrinter::new(), params()))); let _ = tx.send(r); });
        tallies[2].0 += 1;
        let result = match rx.recv_timeout(Duration::from_secs(20))
        {
            other @ (Err(_) | Ok(Err(_))) =>
            {
                /*  no return value: a C05 failure, and -- when another schedule of the same workspace gives a different outcome -- a C06 one */
                let hung = other.is_err();
                let what = if hung { "build() did not return within 20 s" } else { "build() panicked" };
                tallies[2].1 += 1; println!("WITNESS B-sched-C05 :: {} :: {}", label, what);
                tallies[3].0 += 1;
                match &reference
                {
                    None => reference = Some((what.to_string(), vec![], label.clone())),
                    Some((rv, _rf, rl)) => if *rv != what { tallies[3].1 += 1; if tallies[3].1 <= 4 { println!("WITNESS B-sched-C06 :: {} :: {} but the outcome is {} under [{}]", label, what, rv, rl); } },
                }
                continue;
            },
            Ok(Ok(r)) => r,
        };
        /*  a moment for threads the build may have left behind (a build that gave up early does not join them) */
        std::thread::sleep(Duration::from_millis(60));
        let v = verdict(&result);
        let finals : Vec<Option<String>> = targets.iter().map(|t| read(&system, t)).collect();
        let log : Vec<String> = system.get_command_log()[log_before..].to_vec();
        tallies[0].0 += 1;
        for f in forbidden_commands.iter() { if log.iter().any(|c| c.starts_with(f)) { tallies[0].1 += 1; println!("WITNESS B-sched-C03 :: {} :: `{}` ran although the rule that makes its source did not finish", label, f); break; } }
        if let Some(w) = want_verdict { tallies[1].0 += 1; if v != w { tallies[1].1 += 1; if tallies[1].1 <= 4 { println!("WITNESS B-sched-C04 :: {} :: verdict {}, expected {}", label, v, w); } } }
        tallies[3].0 += 1;
        match &reference
        {
            None => reference = Some((v, finals, label.clone())),
            Some((rv, rf, rl)) => if *rv != v || *rf != finals { tallies[3].1 += 1; if tallies[3].1 <= 4 { println!("WITNESS B-sched-C06 :: {} :: outcome {} {:?} differs from {} {:?} under [{}]", label, v, finals, rv, rf, rl); } },
        }
    }
}
/*  two rules fail in the same way in one build: two errors */
const RULES_TWO_FAIL : &str = "\
left.txt
:
in.txt
:
error
:

right.txt
:
in.txt
:
error
:

middle.txt
:
in.txt
:
mycat
in.txt
middle.txt
:
";
/*  two independent rules with their targets in one sub-directory */
const RULES_OUTDIR : &str = "\
out/apples.txt
:
a.txt
:
mycat
a.txt
out/apples.txt
:

out/bananas.txt
:
b.txt
:
mycat
b.txt
out/bananas.txt
:
";
/*  built, cleaned (both targets are in the cache, both histories know them); then the user removes the empty directory */
fn setup_outdir_kept(s: &mut FakeSystem)
{
    s.create_dir("out").unwrap();
    write_str_to_file(s, "a.txt", "apples\n").unwrap(); write_str_to_file(s, "b.txt", "bananas\n").unwrap();
    s.time_passes(1);
    build(s.clone(), &mut EmptyPrinter::new(), params()).unwrap();
    s.time_passes(1);
    crate::build::clean(s.clone(), ".ruler", vec!["build.rules".to_string()], None).unwrap();
}
fn setup_outdir(s: &mut FakeSystem) { setup_outdir_kept(s); s.remove_dir("out").unwrap(); }
const RULES_NUL_TARGET : &str = "\
nul\0target.txt
:
in.txt
:
mycat
in.txt
nul\0target.txt
:
";
const RULES_NUL_SOURCE : &str = "\
plain.txt
:
in.txt
nul\0source.txt
:
mycat
in.txt
plain.txt
:
";
fn fan_rules() -> String
{
    let mut out = String::from("base.txt\n:\nsrc.txt\n:\nmycat\nsrc.txt\nhid.txt\nbase.txt\n:\n\n");
    for i in 0..8 { out.push_str(&format!("part{}.txt\n:\nbase.txt\nextra.txt\n:\nmycat\nbase.txt\nextra.txt\npart{}.txt\n:\n\n", i, i)); }
    out.push_str("join.txt\n:\n");
    for i in 0..8 { out.push_str(&format!("part{}.txt\n", i)); }
    out.push_str(":\nmycat\n");
    for i in 0..8 { out.push_str(&format!("part{}.txt\n", i)); }
    out.push_str("join.txt\n:\n\n");
    for i in 0..5 { let src = if i == 0 { "join.txt".to_string() } else { format!("tail{}.txt", i - 1) }; out.push_str(&format!("tail{}.txt\n:\n{}\n:\nmycat\n{}\ntail{}.txt\n:\n\n", i, src, src, i)); }
    out
}
fn fan_targets() -> Vec<&'static str>
{
    let mut v : Vec<&'static str> = vec!["base.txt", "join.txt"];
    for i in 0..8 { v.push(Box::leak(format!("part{}.txt", i).into_boxed_str())); }
    for i in 0..5 { v.push(Box::leak(format!("tail{}.txt", i).into_boxed_str())); }
    v
}
/*  (the producer's command reads hid.txt, which no rule declares: with it the command works, without it the command fails) */
fn setup_fan(s: &mut FakeSystem) { write_str_to_file(s, "src.txt", "source\n").unwrap(); write_str_to_file(s, "hid.txt", "hidden\n").unwrap(); write_str_to_file(s, "extra.txt", "extra\n").unwrap(); }
fn setup_fan_broken(s: &mut FakeSystem) { write_str_to_file(s, "src.txt", "source\n").unwrap(); write_str_to_file(s, "extra.txt", "extra\n").unwrap(); }
fn setup_in(s: &mut FakeSystem) { write_str_to_file(s, "in.txt", "input\n").unwrap(); }
/*  a rule with two missing leaves and a slow one between them in receive order, and a dependent: one error per missing leaf */
const RULES_FANIN : &str = "\
middle.txt
:
a_missing.txt
m_slow.txt
z_missing.txt
:
mycat
a_missing.txt
m_slow.txt
z_missing.txt
middle.txt
:

poem.txt
:
middle.txt
:
mycat
middle.txt
poem.txt
:
";
fn setup_fanin(s: &mut FakeSystem) { write_str_to_file(s, "m_slow.txt", "slow\n").unwrap(); }
/*  two rules whose remembered targets are the same bytes: after a clean ONE cache entry serves both; whoever comes second rebuilds */
const RULES_SHARED : &str = "\
a.txt
:
in.txt
:
mycat
in.txt
a.txt
:

b.txt
:
in.txt
:
mycat
in.txt
b.txt
:
";
fn setup_shared(s: &mut FakeSystem)
{
    write_str_to_file(s, "in.txt", "input\n").unwrap();
    build(s.clone(), &mut EmptyPrinter::new(), params()).unwrap(); s.time_passes(1);
    crate::build::clean(s.clone(), ".ruler", vec!["build.rules".to_string()], None).unwrap();
}
#[test]
fn verif_sched_corpora()
{
    std::panic::set_hook(Box::new(|_| {}));
    let mut t = [(0usize, 0usize); 4];
    run_corpus("two rules fail alike", RULES_TWO_FAIL, setup_in, &[("open", "in.txt"), ("command", "middle.txt")], &["left.txt", "right.txt", "middle.txt"],
               Some("WorkErrors[\"CommandExecutedButErrored\", \"CommandExecutedButErrored\"]"), &[], &mut t);
    run_corpus("two missing leaves around a slow one", RULES_FANIN, setup_fanin, &[("open", "m_slow.txt"), ("command", "poem.txt")], &["middle.txt", "poem.txt"],
               Some("WorkErrors[\"FileNotFound(a_missing.txt)\", \"FileNotFound(z_missing.txt)\"]"), &["mycat middle.txt poem.txt"], &mut t);
    run_corpus_with("two missing leaves around a VERY slow one", RULES_FANIN, setup_fanin, &[("open", "m_slow.txt")], 700, &["middle.txt", "poem.txt"],
               Some("WorkErrors[\"FileNotFound(a_missing.txt)\", \"FileNotFound(z_missing.txt)\"]"), &["mycat middle.txt poem.txt"], &mut t);
    run_corpus("one cache entry for two rules", RULES_SHARED, setup_shared, &[("open", ".ruler/cache"), ("rename", "a.txt"), ("rename", "b.txt")], &["a.txt", "b.txt"], Some("Ok"), &[], &mut t);
    run_corpus("two independent rules bring their targets back into one directory that is gone", RULES_OUTDIR, setup_outdir,
               &[("create_dir", "#1"), ("create_dir", "#2"), ("open", "a.txt"), ("open", "b.txt"), ("rename", "out/apples.txt")], &["out/apples.txt", "out/bananas.txt"], None, &[], &mut t);
    run_corpus("two independent rules bring their targets back into one directory", RULES_OUTDIR, setup_outdir_kept,
               &[("create_dir", "#1"), ("open", "a.txt"), ("rename", "out/apples.txt"), ("rename", "out/bananas.txt")], &["out/apples.txt", "out/bananas.txt"], Some("Ok"), &[], &mut t);
    /*  a wider and deeper graph: one producer, eight consumers, a rule that needs all eight, and a chain of five behind it */
    {
        let rules : &'static str = Box::leak(fan_rules().into_boxed_str());
        let targets : Vec<&'static str> = fan_targets();
        run_corpus("one producer, eight consumers, a join and a chain", rules, setup_fan, &[("command", "base.txt"), ("command", "part3.txt"), ("command", "part6.txt"), ("open", "src.txt"), ("command", "join.txt")], &targets, Some("Ok"), &[], &mut t);
        run_corpus("the same with the producer's command failing", rules, setup_fan_broken, &[("command", "part3.txt"), ("open", "src.txt"), ("open", "extra.txt")], &targets, None,
                   &["mycat base.txt extra.txt part0.txt", "mycat base.txt extra.txt part7.txt", "mycat part0.txt", "mycat join.txt"], &mut t);
    }
    /*  odd bytes in path names: whatever the verdict, build() and clean() return it */
    run_corpus("a target path with a NUL byte", RULES_NUL_TARGET, setup_in, &[], &["nul\0target.txt"], None, &[], &mut t);
    run_corpus("a missing source path with a NUL byte", RULES_NUL_SOURCE, setup_in, &[], &["plain.txt"], None, &[], &mut t);
    for (name, rules) in [("clean: a target path with a NUL byte", RULES_NUL_TARGET), ("clean: a missing source path with a NUL byte", RULES_NUL_SOURCE)].iter()
    {
        let mut system = FakeSystem::new(10);
        write_str_to_file(&mut system, "build.rules", rules).unwrap();
        setup_in(&mut system);
        let (tx, rx) = mpsc::channel();
        let sys2 = system.clone();
        std::thread::spawn(move || { let r = catch_unwind(AssertUnwindSafe(|| crate::build::clean(sys2, ".ruler", vec!["build.rules".to_string()], None))); let _ = tx.send(r.map(|_| ())); });
        t[2].0 += 1;
        match rx.recv_timeout(Duration::from_secs(20))
        {
            Err(_) => { t[2].1 += 1; println!("WITNESS B-sched-C05 :: {} :: clean() did not return within 20 s", name); },
            Ok(Err(_)) => { t[2].1 += 1; println!("WITNESS B-sched-C05 :: {} :: clean() panicked", name); },
            Ok(Ok(())) => {},
        }
    }
    for (k, n) in ["C03", "C04", "C05", "C06"].iter().enumerate() { println!("SUMMARY B-sched-corpora-{} cases={} disagreements={}", n, t[k].0, t[k].1); }
}

#[test]
fn verif_sched_build()
{
    std::panic::set_hook(Box::new(|_| {}));
    let scenarios = [
        Scenario { name: "fresh build", make: s_fresh, expect: Some(("Ok", &["lib.txt", "app1.txt", "app2.txt", "top.txt"])) },
        Scenario { name: "leaf a_in.txt missing", make: s_missing_leaf, expect: Some(("WorkErrors[\"FileNotFound(a_in.txt)\"]", &["lib.txt", "app2.txt"])) },
        Scenario { name: "build; edit src; build", make: s_edit_after_build, expect: Some(("Ok", &["lib.txt", "app1.txt", "app2.txt", "top.txt"])) },
        Scenario { name: "command of lib.txt fails", make: s_failing_command, expect: None },
        Scenario { name: "build; edit src, remove a_in.txt; build", make: s_missing_leaf_after_build, expect: Some(("WorkErrors[\"FileNotFound(a_in.txt)\"]", &["lib.txt", "app2.txt"])) },
        Scenario { name: "build; one rule history corrupted, edit src; build", make: s_corrupt_history, expect: None },
        Scenario { name: "build S1; build S2; back to S1; build", make: s_flip_back, expect: Some(("Ok", &["lib.txt", "app1.txt", "app2.txt", "top.txt"])) },
        Scenario { name: "build S1; build S2; back to S1 and edit a_in.txt; build", make: s_flip_back_and_edit, expect: Some(("Ok", &["lib.txt", "app1.txt", "app2.txt", "top.txt"])) },
    ];
    let (mut c03, mut b03, mut c05, mut b05, mut c06, mut b06) = (0usize, 0usize, 0usize, 0usize, 0usize, 0usize);
    let (mut c04, mut b04) = (0usize, 0usize);
    for sc in scenarios.iter()
    {
        let mut reference : Option<(String, Vec<Option<String>>, String)> = None;
        let levels : usize = std::env::var("VERIF_SCHED_LEVELS").ok().and_then(|s| s.parse().ok()).unwrap_or(2);
        for code in 0..levels.pow(POINTS.len() as u32)
        {
            let delays : Vec<(&'static str, &'static str, u64)> = POINTS.iter().enumerate().map(|(i, (o, s))| (*o, *s, ((code / levels.pow(i as u32)) % levels) as u64 * DELAY_MS)).collect();
            let label = format!("{} delays {:?}", sc.name, delays.iter().map(|d| d.2).collect::<Vec<u64>>());
            let system = (sc.make)();
            let log_before = system.get_command_log().len();
            let ds = DelaySystem { inner: system.clone(), delays: Arc::new(delays), mkdirs: Arc::new(std::sync::atomic::AtomicUsize::new(0)) };
            let (tx, rx) = mpsc::channel();
            std::thread::spawn(move || { let r = catch_unwind(AssertUnwindSafe(|| build(ds, &mut EmptyPrinter::new(), params()))); let _ = tx.send(r); });
            c05 += 1;
            let result = match rx.recv_timeout(Duration::from_secs(20))
            {
                Err(_) => { b05 += 1; if b05 <= 4 { println!("WITNESS B-sched-C05 :: {} :: build() did not return within 20 s", label); } continue; },
                Ok(Err(_)) => { b05 += 1; if b05 <= 4 { println!("WITNESS B-sched-C05 :: {} :: build() panicked", label); } continue; },
                Ok(Ok(r)) => r,
            };
            /*  C03: command order */
            c03 += 1;
            let log : Vec<String> = system.get_command_log()[log_before..].to_vec();
            let mut complaint : Option<String> = None;
            for (cmd, producers) in ORDER.iter()
            {
                if let Some(at) = log.iter().position(|c| c.starts_with(cmd))
                {
                    for p in producers.iter() { if let Some(pat) = log.iter().position(|c| c.starts_with(p)) { if pat > at { complaint = Some(format!("`{}` ran before `{}`, whose output it reads", cmd, p)); } } }
                }
            }
            let finals : Vec<Option<String>> = TARGETS.iter().map(|t| read(&system, t)).collect();
            if result.is_ok()
            {
                let (src, hid, a) = (read(&system, "src.txt").unwrap(), read(&system, "hid.txt").unwrap(), read(&system, "a_in.txt").unwrap());
                let lib = format!("{}{}", src, hid); let app1 = format!("{}{}", a, lib); let app2 = lib.clone(); let top = format!("{}{}", app1, app2);
                let want = vec![Some(lib), Some(app1), Some(app2), Some(top)];
                if finals != want { complaint = Some(format!("successful build leaves {:?}, a from-scratch build gives {:?}", finals, want)); }
            }
            if let Some(c) = complaint { b03 += 1; if b03 <= 4 { println!("WITNESS B-sched-C03 :: {} :: {}", label, c); } }
            /*  C04: exactly the expected failure is reported; every rule that does not depend on the failed one is brought up to date */
            if let Some((want_verdict, up_to_date)) = sc.expect
            {
                c04 += 1;
                let src = read(&system, "src.txt").unwrap(); let hid = read(&system, "hid.txt").unwrap_or("".to_string());
                let lib = format!("{}{}", src, hid);
                let mut what : Option<String> = None;
                if verdict(&result) != want_verdict { what = Some(format!("verdict {}, expected {}", verdict(&result), want_verdict)); }
                if up_to_date.contains(&"lib.txt") && read(&system, "lib.txt") != Some(lib.clone()) { what = Some("lib.txt does not depend on what failed and was not brought up to date".to_string()); }
                if up_to_date.contains(&"app2.txt") && read(&system, "app2.txt") != Some(lib.clone()) { what = Some("app2.txt does not depend on what failed and was not brought up to date".to_string()); }
                if let Some(w) = what { b04 += 1; if b04 <= 4 { println!("WITNESS B-sched-C04 :: {} :: {}", label, w); } }
            }
            /*  C06: same outcome under every schedule */
            c06 += 1;
            let v = verdict(&result);
            match &reference
            {
                None => reference = Some((v, finals, label.clone())),
                Some((rv, rf, rl)) => if *rv != v || *rf != finals { b06 += 1; if b06 <= 4 { println!("WITNESS B-sched-C06 :: {} :: outcome {} {:?} differs from {} {:?} under [{}]", label, v, finals, rv, rf, rl); } },
            }
        }
    }
    println!("SUMMARY B-sched-C03 cases={} disagreements={}", c03, b03);
    println!("SUMMARY B-sched-C04 cases={} disagreements={}", c04, b04);
    println!("SUMMARY B-sched-C05 cases={} disagreements={}", c05, b05);
    println!("SUMMARY B-sched-C06 cases={} disagreements={}", c06, b06);
}
