//@ unit L
//@ default-props C01
// Unit L: composition lemmas.  NO repo code: spec-level proofs whose hypotheses are exactly the statements of proved
// contracts (named in the comments) plus the named environment assumptions.  Counted separately from obligations on real code.
use vstd::prelude::*;
verus! {

uninterp spec fn sha256_raw(c: Seq<u8>) -> Seq<u8>;
spec fn sha256(c: Seq<u8>) -> Seq<u8> { if sha256_raw(c).len() == 32 { sha256_raw(c) } else { Seq::new(32, |i: int| 0u8) } }
// the hash of what a rule's deterministic command writes at `path` when its declared sources hash together to `st` (as in unit D)
uninterp spec fn out_hash(script: Seq<Seq<char>>, st: Seq<u8>, path: Seq<char>) -> Seq<u8>;

// the plan as the sorter hands it over: node i lists its sources as leaves or as (earlier node, target number)
enum Src { Leaf(int), Pair(int, int) }
struct NodeSpec { sources: Seq<Src>, script: Seq<Seq<char>>, targets: Seq<Seq<char>> }
spec fn plan_ok(plan: Seq<NodeSpec>, n_leaves: int) -> bool {
    forall|i: int, k: int| 0 <= i < plan.len() && 0 <= k < plan[i].sources.len() ==> match #[trigger] plan[i].sources[k] {
        Src::Leaf(l) => 0 <= l < n_leaves,
        Src::Pair(j, sub) => 0 <= j < i && 0 <= sub < plan[j].targets.len(),      // O-S-order / O-S-binding (bounded stand-in B-S-sort-exhaustive)
    }
}

// ---- what a from-scratch build produces: run the commands in plan order on the current leaves ----
spec fn scratch(plan: Seq<NodeSpec>, leaf_h: Seq<Seq<u8>>, i: int, sub: int) -> Seq<u8>
    decreases i, 2int, 0int
{
    if 0 <= i < plan.len() { out_hash(plan[i].script, sha256(scratch_cat(plan, leaf_h, i, plan[i].sources.len() as int)), plan[i].targets[sub]) } else { Seq::empty() }
}
// concatenation of the hashes of the first k sources of node i
spec fn scratch_cat(plan: Seq<NodeSpec>, leaf_h: Seq<Seq<u8>>, i: int, k: int) -> Seq<u8>
    decreases i, 1int, k
{
    if k <= 0 || !(0 <= i < plan.len()) || k > plan[i].sources.len() { Seq::empty() } else { scratch_cat(plan, leaf_h, i, k - 1) + scratch_src(plan, leaf_h, i, k - 1) }
}
spec fn scratch_src(plan: Seq<NodeSpec>, leaf_h: Seq<Seq<u8>>, i: int, k: int) -> Seq<u8>
    decreases i, 0int, 0int
{
    if !(0 <= i < plan.len()) || !(0 <= k < plan[i].sources.len()) { Seq::empty() } else {
        match plan[i].sources[k] {
            Src::Leaf(l) => leaf_h[l],
            Src::Pair(j, sub) => if 0 <= j < i { scratch(plan, leaf_h, j, sub) } else { Seq::empty() },
        }
    }
}

// ---- what the incremental build did, as ghost functions of the run ----
//   recvd(i, k): the hash node i's thread received on its k-th channel
//   st(i):       the sources ticket node i's thread computed
//   built(i, s): the hash of target s of node i on disk when the build returned
spec fn cat_recvd(recvd: spec_fn(int, int) -> Seq<u8>, i: int, k: int) -> Seq<u8>
    decreases k
{ if k <= 0 { Seq::empty() } else { cat_recvd(recvd, i, k - 1) + recvd(i, k - 1) } }

// the three hypotheses are the proved per-thread contracts:
//   H1  wiring + payload + channel semantics: what node i receives on channel k is the true hash of the leaf file
//       (O-D-src-true-hash, O-E-leaf-payload) or of target `sub` of node j as its thread left it (O-D-hrn-true-hash, O-E-node-order:
//       sent after the work; O-D-frame: nobody else writes that target afterwards)
//   H2  O-E-sources-ticket: st(i) = sha256(received hashes in channel order)
//   H3  O-D-hrn-outputs: under deterministic commands and a true history, every target of a successful rule holds the from-scratch
//       output for st(i)
spec fn run_ok(plan: Seq<NodeSpec>, leaf_h: Seq<Seq<u8>>, recvd: spec_fn(int, int) -> Seq<u8>, st: spec_fn(int) -> Seq<u8>, built: spec_fn(int, int) -> Seq<u8>) -> bool {
    &&& forall|i: int, k: int| 0 <= i < plan.len() && 0 <= k < plan[i].sources.len() ==> #[trigger] recvd(i, k) == (match plan[i].sources[k] { Src::Leaf(l) => leaf_h[l], Src::Pair(j, sub) => built(j, sub) })
    &&& forall|i: int| 0 <= i < plan.len() ==> #[trigger] st(i) == sha256(cat_recvd(recvd, i, plan[i].sources.len() as int))
    &&& forall|i: int, sub: int| 0 <= i < plan.len() && 0 <= sub < plan[i].targets.len() ==> #[trigger] built(i, sub) == out_hash(plan[i].script, st(i), plan[i].targets[sub])
}

proof fn cat_eq(plan: Seq<NodeSpec>, leaf_h: Seq<Seq<u8>>, recvd: spec_fn(int, int) -> Seq<u8>, i: int, k: int)
    requires 0 <= i < plan.len(), 0 <= k <= plan[i].sources.len(),
        forall|kk: int| 0 <= kk < k ==> #[trigger] recvd(i, kk) == scratch_src(plan, leaf_h, i, kk)
    ensures cat_recvd(recvd, i, k) == scratch_cat(plan, leaf_h, i, k)
    decreases k
{ if k > 0 { cat_eq(plan, leaf_h, recvd, i, k - 1); } }

//# L1-build-equals-scratch [C01]
// L1: if the build succeeded (every rule thread returned Ok, so H1-H3 hold for every node), every target in scope holds
// exactly what running the commands from scratch, in dependency order, on the current sources would produce.
// "Whatever came before" is absorbed by the universally quantified pre-state of the unit-D contracts.
proof fn lemma_build_equals_scratch(plan: Seq<NodeSpec>, n_leaves: int, leaf_h: Seq<Seq<u8>>, recvd: spec_fn(int, int) -> Seq<u8>, st: spec_fn(int) -> Seq<u8>, built: spec_fn(int, int) -> Seq<u8>, i: int, sub: int)
    requires plan_ok(plan, n_leaves), run_ok(plan, leaf_h, recvd, st, built), 0 <= i < plan.len(), 0 <= sub < plan[i].targets.len()
    ensures built(i, sub) == scratch(plan, leaf_h, i, sub)
    decreases i
{
    assert forall|k: int| 0 <= k < plan[i].sources.len() implies #[trigger] recvd(i, k) == scratch_src(plan, leaf_h, i, k) by {
        match plan[i].sources[k] {
            Src::Leaf(l) => {},
            Src::Pair(j, s2) => { lemma_build_equals_scratch(plan, n_leaves, leaf_h, recvd, st, built, j, s2); },
        }
    }
    cat_eq(plan, leaf_h, recvd, i, plan[i].sources.len() as int);
    /*VACPROBE-PROOF*/
}

} // verus!
fn main() {}
