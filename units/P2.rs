//@ unit P2
//@ default-props C14
// Unit P2: bundle.rs -- path bundles (tab-indented directory groups).  Totality: no panic, termination, on every input.
use vstd::prelude::*;
use vstd::std_specs::cmp::*;
verus! {

//@ extract bundle.rs enum PathNodeType
//@ end
//@ extract bundle.rs struct PathNode
//@ end
//@ extract bundle.rs struct PathBundle
//@ end
//@ extract bundle.rs struct NumberedIndentedLine
//@ end
//@ extract bundle.rs enum ParseError
//@ end

// R7: derived PartialEq of PathNodeType (structural)
impl PartialEqSpecImpl for PathNodeType {
    open spec fn obeys_eq_spec() -> bool { true }
    closed spec fn eq_spec(&self, other: &PathNodeType) -> bool { *self == *other }
}
impl PartialEq for PathNodeType { #[verifier::external_body] fn eq(&self, other: &PathNodeType) -> (r: bool) { unimplemented!() } }

// ASSUMED (R8): std::collections::BTreeMap as a map with key-ordered iteration
struct BTreeMap<K, V> { m: Ghost<Map<K, V>> }
impl<V> BTreeMap<String, V> {
    spec fn view(&self) -> Map<String, V> { self.m@ }
    #[verifier::external_body] fn new() -> (r: Self) ensures r@ == Map::<String, V>::empty() { unimplemented!() }
    #[verifier::external_body] fn get(&self, k: &String) -> (r: Option<&V>) ensures r matches Some(v) ==> self@.contains_key(*k) && *v == self@[*k], r is None ==> !self@.contains_key(*k) { unimplemented!() }
    #[verifier::external_body] fn insert(&mut self, k: String, v: V) -> (r: Option<V>) ensures final(self)@ == old(self)@.insert(k, v) { unimplemented!() }
}
// R4: `nodes.into_iter().map(|(_key, (node, _index))| {node}).collect()`
#[verifier::external_body]
fn btree_nodes(m: BTreeMap<String, (PathNode, usize)>) -> (r: Vec<PathNode>) { unimplemented!() }
// R4: `lines.iter().enumerate().filter(|(_, line)| !line.chars().any(|c| c != '\t')).map(|(i, _)| i).collect()`
#[verifier::external_body]
fn empty_line_indices(lines : &Vec<&str>) -> (r: Vec<usize>) { unimplemented!() }
// R4: `lines.into_iter().enumerate().map(|(num, line)| NumberedIndentedLine::new(num, line.to_owned())).collect::<Vec<NumberedIndentedLine>>()`
#[verifier::external_body]
fn number_lines(lines: Vec<&str>) -> (r: Vec<NumberedIndentedLine>) ensures r@.len() == lines@.len(), forall|i: int| 0 <= i < r@.len() ==> (#[trigger] r@[i]).num == i /* enumerate() counts from 0 */ { unimplemented!() }
// R4: String `+`
#[verifier::external_body] fn concat2(a: &String, b: &str) -> (r: String) ensures r@ == a@ + b@ { unimplemented!() }
#[verifier::external_body] fn concat3(a: &String, b: &str, c: &str) -> (r: String) ensures r@ == a@ + b@ + c@ { unimplemented!() }
#[verifier::external_body] fn char_to_string(c: char) -> (r: String) ensures r@ == seq![c] { c.to_string() }
#[verifier::external_body] fn vec_extend(v: &mut Vec<String>, w: Vec<String>) ensures final(v)@ == old(v)@ + w@ { v.extend(w) }
#[verifier::external_body] fn is_last_empty(lines: &Vec<&str>) -> (r: bool) ensures r ==> lines@.len() > 0 { matches!(lines.last(), Some(&"")) }

// ---------- NumberedIndentedLine::new: how deep a line is indented, and what it says ----------
// ASSUMED (R4): std::str::Chars as a cursor over the characters of the string
struct Chars { s: Ghost<Seq<char>>, pos: Ghost<int> }
impl Chars {
    spec fn rest(&self) -> Seq<char> { self.s@.subrange(self.pos@, self.s@.len() as int) }
    #[verifier::external_body]
    fn next(&mut self) -> (r: Option<char>)
        requires 0 <= old(self).pos@ <= old(self).s@.len(),
        ensures final(self).s@ == old(self).s@, 0 <= final(self).pos@ <= final(self).s@.len(),
            old(self).pos@ < old(self).s@.len() ==> r == Some(old(self).s@[old(self).pos@]) && final(self).pos@ == old(self).pos@ + 1,
            old(self).pos@ == old(self).s@.len() ==> r is None && final(self).pos@ == old(self).pos@,
    { unimplemented!() }
}
#[verifier::external_body] fn chars_of(line: &String) -> (r: Chars) ensures r.s@ == line@, r.pos@ == 0, line@.len() <= usize::MAX /* a String's character count fits usize */ { unimplemented!() }
// `c.to_string() + &it.collect::<String>()`
#[verifier::external_body] fn char_and_rest(c: char, it: Chars) -> (r: String) requires 0 <= it.pos@ <= it.s@.len() ensures r@ == seq![c] + it.rest() { unimplemented!() }
#[verifier::external_body] fn empty_string() -> (r: String) ensures r@ == Seq::<char>::empty() { String::new() }
// the number of leading tabs of s
spec fn tabs(s: Seq<char>) -> int decreases s.len() { if s.len() > 0 && s[0] == '\t' { 1 + tabs(s.subrange(1, s.len() as int)) } else { 0 } }
proof fn tabs_props(s: Seq<char>)
    ensures 0 <= tabs(s) <= s.len(), forall|j: int| 0 <= j < tabs(s) ==> s[j] == '\t', tabs(s) < s.len() ==> s[tabs(s)] != '\t'
    decreases s.len()
{
    if s.len() > 0 && s[0] == '\t' {
        let t = s.subrange(1, s.len() as int);
        tabs_props(t);
        assert forall|j: int| 0 <= j < tabs(s) implies s[j] == '\t' by { if j > 0 { assert(s[j] == t[j - 1]); } }
        if tabs(s) < s.len() { assert(s[tabs(s)] == t[tabs(t)]); }
    }
}
// k leading tabs followed by something that is not a tab (or by the end): k is the number of leading tabs
proof fn tabs_is(s: Seq<char>, k: int)
    requires 0 <= k <= s.len(), forall|j: int| 0 <= j < k ==> s[j] == '\t', k < s.len() ==> s[k] != '\t',
    ensures tabs(s) == k
    decreases s.len()
{
    if k > 0 {
        let t = s.subrange(1, s.len() as int);
        assert forall|j: int| 0 <= j < k - 1 implies t[j] == '\t' by { assert(t[j] == s[j + 1]); }
        if k - 1 < t.len() { assert(t[k - 1] == s[k]); }
        tabs_is(t, k - 1);
    }
}
impl NumberedIndentedLine {
//@ extract bundle.rs impl /^NumberedIndentedLine$/ fn new
//@ props C14 C05
//@ ret res
//@ rewrite 1 /line\.chars\(\)/ => chars_of(&line)
//@ rewrite 1 /c\.to_string\(\) \+ &it\.collect::<String>\(\)/ => char_and_rest(c, it)
//@ rewrite 1 /""\.to_string\(\)/ => empty_string()
//@ retype 1 /let mut level = 0;/ => let mut level : usize = 0;
//@ spec
        ensures
            // the level is the number of leading tabs -- only those: tabs further right belong to the name -- and the text is the
            // rest of the line, unchanged                                                                                       //# O-P2-indent [C14]
            res.num == num, res.level == tabs(line@), res.text@ == line@.subrange(tabs(line@), line@.len() as int),
//@ loop 1 invariant
            invariant it.s@ == line@, 0 <= it.pos@ <= line@.len(), line@.len() <= usize::MAX, level == it.pos@, forall|j: int| 0 <= j < it.pos@ ==> line@[j] == '\t',
            decreases line@.len() - it.pos@,
//@ hint before 1/1 /match it\.next\(\)/
            let ghost p = it.pos@;
            proof { if p < line@.len() && line@[p] != '\t' { tabs_is(line@, p); } if p == line@.len() { tabs_is(line@, p); } }
//@ hint before 1/1 /return NumberedIndentedLine\s*\{\s*num: num,\s*level: level,\s*text: c/
                    proof { assert(seq![c] + it.rest() =~= line@.subrange(p, line@.len() as int)); }
//@ end
}

impl PathNode {
//@ extract bundle.rs impl /^PathNode$/ fn parent
//@ props C14
//@ end
//@ extract bundle.rs impl /^PathNode$/ fn leaf
//@ props C14
//@ end
}

//@ extract bundle.rs fn add_to_nodes
//@ props C14
//@ ret res
//@ spec
    ensures
        // the only complaint is a contradiction; it names the line being added, after the line of the entry it contradicts    //# O-P2-contradiction-line [C14]
        res matches Err(e) ==> e matches ParseError::Contradiction(a, b) && b == in_index && old(nodes)@.contains_key(in_node.name) && a == old(nodes)@[in_node.name].1,
        // an entry, once recorded, keeps its line number; a new one gets the number of its line
        res is Ok ==> (forall|k: String| #[trigger] final(nodes)@.contains_key(k) ==> (old(nodes)@.contains_key(k) && final(nodes)@[k].1 == old(nodes)@[k].1) || final(nodes)@[k].1 == in_index),
//@ end

impl PathBundle {
//@ extract bundle.rs impl /^PathBundle$/ fn parse_recusrive_helper
//@ props C14
//@ ret res
//@ rewrite 1 /BTreeMap::new\(\)/ => BTreeMap::<String, (PathNode, usize)>::new()
//@ rewrite 1 /nodes\.into_iter\(\)\.map\(\|\(_key, \(node, _index\)\)\| \{node\}\)\.collect\(\)/ => btree_nodes(nodes)
//@ retype 1 /let mut i = 0;/ => let mut i : usize = 0;
//@ spec
        requires level as int + lines@.len() < usize::MAX,
            forall|k: int| 0 <= k < lines@.len() ==> (#[trigger] lines@[k]).level >= level,
            // the lines carry increasing numbers (their positions in the section)
            forall|k: int, l: int| 0 <= k < l < lines@.len() ==> (#[trigger] lines@[k]).num < (#[trigger] lines@[l]).num,
        ensures
            // "rejected ... at the offending line": a wrong-indent error carries the number of one of these lines, and that line is
            // indented deeper than its place allows (deeper than `level`, the depth this group of lines has to start at)          //# O-P2-wrong-indent-line [C14]
            res matches Err(ParseError::WrongIndent(x)) ==> exists|k: int| 0 <= k < lines@.len() && (#[trigger] lines@[k]).num == x && lines@[k].level > level,
            // a contradiction names one of these lines as the second of the two, and an EARLIER line as the first                //# O-P2-contradiction-of-these [C14]
            res matches Err(ParseError::Contradiction(a, b)) ==> a < b && exists|k: int| 0 <= k < lines@.len() && (#[trigger] lines@[k]).num == b,
            res matches Err(ParseError::Empty) ==> lines@.len() == 0,
            !(res matches Err(ParseError::ContainsEmptyLines(_))),
        decreases lines@.len(),
//@ loop 1 invariant
            invariant n == lines@.len(), i <= n, level as int + lines@.len() < usize::MAX,
                forall|k: int| 0 <= k < lines@.len() ==> (#[trigger] lines@[k]).level >= level,
                forall|k: int, l: int| 0 <= k < l < lines@.len() ==> (#[trigger] lines@[k]).num < (#[trigger] lines@[l]).num,
                // every recorded entry carries the number of a line already read
                forall|k: String| #[trigger] nodes@.contains_key(k) ==> (i < n ==> nodes@[k].1 < lines@[i as int].num) && (i > 0 ==> nodes@[k].1 <= lines@[i - 1].num),
            decreases n - i,
//@ loop 2 invariant
                invariant n == lines@.len(), i < j <= n,
                    forall|k: int| i < k < j ==> (#[trigger] lines@[k]).level > level,
                decreases n - j,
//@ end

//@ extract bundle.rs impl /^PathBundle$/ fn parse_lines
//@ props C14
//@ ret res
//@ rewrite 1 /(?s)match lines\.last\(\)\s*\{\s*Some\(&""\) => \{lines\.pop\(\);\},\s*_ => \{\}\s*\}/ => if is_last_empty(&lines) { lines.pop(); }
//@ rewrite 1 /Self::get_empty_line_indices\(&lines\)/ => empty_line_indices(&lines)
//@ rewrite 1 /(?s)&lines\.into_iter\(\)\.enumerate\(\)\.map\(\|\(num, line\)\|\s*\{\s*NumberedIndentedLine::new\(num, line\.to_owned\(\)\)\s*\}\)\.collect::<Vec<NumberedIndentedLine>>\(\)/ => number_lines(lines).as_slice()
//@ spec
        requires lines@.len() < usize::MAX,
//@ end

//@ extract bundle.rs impl /^PathBundle$/ fn get_path_strings_with_prefix
//@ props C14
//@ ret res
//@ rewrite 1 /prefix\.clone\(\) \+ node\.name\.as_str\(\) \+ separator/ => concat3(&prefix, node.name.as_str(), separator)
//@ rewrite 1 /prefix\.clone\(\) \+ node\.name\.as_str\(\)(?! \+)/ => concat2(&prefix, node.name.as_str())
//@ rewrite 1 /path_strings\.extend\(/ => vec_extend(&mut path_strings,
//@ retype 1 /let mut path_strings = vec!\[\];/ => let mut path_strings : Vec<String> = Vec::new();
//@ spec
        decreases self,
//@ end

//@ extract bundle.rs impl /^PathBundle$/ fn get_path_strings
//@ props C14
//@ ret res
//@ rewrite 1 /"".to_string\(\)/ => String::new()
//@ rewrite 1 /separator\.to_string\(\)\.as_str\(\)/ => char_to_string(separator).as_str()
//@ end
}

} // verus!
fn main() {}
