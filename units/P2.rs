//@ unit P2
//@ default-props C14
// Unit P2: bundle.rs -- path bundles (tab-indented directory groups).  Totality: no panic, termination, on every input.
use vstd::prelude::*;
use vstd::std_specs::cmp::*;
verus! {

//@ extract bundle.rs enum PathNodeType
//@ end
//@ extract bundle.rs struct PathNode
//@ end
//@ extract bundle.rs struct PathBundle
//@ end
//@ extract bundle.rs struct NumberedIndentedLine
//@ end
//@ extract bundle.rs enum ParseError
//@ end

// R7: derived PartialEq of PathNodeType (structural)
impl PartialEqSpecImpl for PathNodeType {
    open spec fn obeys_eq_spec() -> bool { true }
    closed spec fn eq_spec(&self, other: &PathNodeType) -> bool { *self == *other }
}
impl PartialEq for PathNodeType { #[verifier::external_body] fn eq(&self, other: &PathNodeType) -> (r: bool) { unimplemented!() } }

// ASSUMED (R8): std::collections::BTreeMap as a map with key-ordered iteration
struct BTreeMap<K, V> { m: Ghost<Map<K, V>> }
impl<V> BTreeMap<String, V> {
    spec fn view(&self) -> Map<String, V> { self.m@ }
    #[verifier::external_body] fn new() -> (r: Self) ensures r@ == Map::<String, V>::empty() { unimplemented!() }
    #[verifier::external_body] fn get(&self, k: &String) -> (r: Option<&V>) ensures r matches Some(v) ==> self@.contains_key(*k) && *v == self@[*k], r is None ==> !self@.contains_key(*k) { unimplemented!() }
    #[verifier::external_body] fn insert(&mut self, k: String, v: V) -> (r: Option<V>) ensures final(self)@ == old(self)@.insert(k, v) { unimplemented!() }
}
// R4: `nodes.into_iter().map(|(_key, (node, _index))| {node}).collect()`
#[verifier::external_body]
fn btree_nodes(m: BTreeMap<String, (PathNode, usize)>) -> (r: Vec<PathNode>) { unimplemented!() }
// R4: `lines.iter().enumerate().filter(|(_, line)| !line.chars().any(|c| c != '\t')).map(|(i, _)| i).collect()`
#[verifier::external_body]
fn empty_line_indices(lines : &Vec<&str>) -> (r: Vec<usize>) { unimplemented!() }
// R4: `lines.into_iter().enumerate().map(|(num, line)| NumberedIndentedLine::new(num, line.to_owned())).collect::<Vec<NumberedIndentedLine>>()`
#[verifier::external_body]
fn number_lines(lines: Vec<&str>) -> (r: Vec<NumberedIndentedLine>) ensures r@.len() == lines@.len() { unimplemented!() }
// R4: String `+`
#[verifier::external_body] fn concat2(a: &String, b: &str) -> (r: String) ensures r@ == a@ + b@ { unimplemented!() }
#[verifier::external_body] fn concat3(a: &String, b: &str, c: &str) -> (r: String) ensures r@ == a@ + b@ + c@ { unimplemented!() }
#[verifier::external_body] fn char_to_string(c: char) -> (r: String) ensures r@ == seq![c] { c.to_string() }
#[verifier::external_body] fn vec_extend(v: &mut Vec<String>, w: Vec<String>) ensures final(v)@ == old(v)@ + w@ { v.extend(w) }
#[verifier::external_body] fn is_last_empty(lines: &Vec<&str>) -> (r: bool) ensures r ==> lines@.len() > 0 { matches!(lines.last(), Some(&"")) }

impl PathNode {
//@ extract bundle.rs impl /^PathNode$/ fn parent
//@ props C14
//@ end
//@ extract bundle.rs impl /^PathNode$/ fn leaf
//@ props C14
//@ end
}

//@ extract bundle.rs fn add_to_nodes
//@ props C14
//@ ret res
//@ end

impl PathBundle {
//@ extract bundle.rs impl /^PathBundle$/ fn parse_recusrive_helper
//@ props C14
//@ ret res
//@ rewrite 1 /BTreeMap::new\(\)/ => BTreeMap::<String, (PathNode, usize)>::new()
//@ rewrite 1 /nodes\.into_iter\(\)\.map\(\|\(_key, \(node, _index\)\)\| \{node\}\)\.collect\(\)/ => btree_nodes(nodes)
//@ retype 1 /let mut i = 0;/ => let mut i : usize = 0;
//@ spec
        requires level as int + lines@.len() < usize::MAX,
        decreases lines@.len(),
//@ loop 1 invariant
            invariant n == lines@.len(), i <= n, level as int + lines@.len() < usize::MAX,
            decreases n - i,
//@ loop 2 invariant
                invariant n == lines@.len(), i < j <= n,
                decreases n - j,
//@ end

//@ extract bundle.rs impl /^PathBundle$/ fn parse_lines
//@ props C14
//@ ret res
//@ rewrite 1 /(?s)match lines\.last\(\)\s*\{\s*Some\(&""\) => \{lines\.pop\(\);\},\s*_ => \{\}\s*\}/ => if is_last_empty(&lines) { lines.pop(); }
//@ rewrite 1 /Self::get_empty_line_indices\(&lines\)/ => empty_line_indices(&lines)
//@ rewrite 1 /(?s)&lines\.into_iter\(\)\.enumerate\(\)\.map\(\|\(num, line\)\|\s*\{\s*NumberedIndentedLine::new\(num, line\.to_owned\(\)\)\s*\}\)\.collect::<Vec<NumberedIndentedLine>>\(\)/ => number_lines(lines).as_slice()
//@ spec
        requires lines@.len() < usize::MAX,
//@ end

//@ extract bundle.rs impl /^PathBundle$/ fn get_path_strings_with_prefix
//@ props C14
//@ ret res
//@ rewrite 1 /prefix\.clone\(\) \+ node\.name\.as_str\(\) \+ separator/ => concat3(&prefix, node.name.as_str(), separator)
//@ rewrite 1 /prefix\.clone\(\) \+ node\.name\.as_str\(\)(?! \+)/ => concat2(&prefix, node.name.as_str())
//@ rewrite 1 /path_strings\.extend\(/ => vec_extend(&mut path_strings,
//@ retype 1 /let mut path_strings = vec!\[\];/ => let mut path_strings : Vec<String> = Vec::new();
//@ spec
        decreases self,
//@ end

//@ extract bundle.rs impl /^PathBundle$/ fn get_path_strings
//@ props C14
//@ ret res
//@ rewrite 1 /"".to_string\(\)/ => String::new()
//@ rewrite 1 /separator\.to_string\(\)\.as_str\(\)/ => char_to_string(separator).as_str()
//@ end
}

} // verus!
fn main() {}
