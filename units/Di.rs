//@ unit Di
//@ default-props C06
// Unit Di: the cache / resolution chain of cache.rs and blob.rs re-verified against the INTERFERENCE contract of
// System (other rule threads add and remove cache entries between any two of my calls).  Same repo text as unit D.
use vstd::prelude::*;
use vstd::std_specs::cmp::*;
verus! {

//@ include prelude/world.rs

//@ extract system/mod.rs enum SystemError
//@ end
//@ extract system/mod.rs enum ReadWriteError
//@ end
//@ extract ticket.rs struct Ticket
//@ end
//@ extract cache.rs enum RestoreResult
//@ end
//@ extract cache.rs enum DownloadResult
//@ end
//@ extract cache.rs struct DownloaderCache
//@ end
//@ extract cache.rs struct SysCache
//@ end
//@ extract blob.rs enum FileResolution
//@ end
//@ extract blob.rs struct FileState
//@ end
//@ extract blob.rs struct FileInfo
//@ end
//@ extract blob.rs enum ResolutionError
//@ end

//@ include prelude/system_rely.rs

impl Ticket { spec fn bytes(&self) -> Seq<u8> { self.sha@ } }
impl PartialEqSpecImpl for Ticket {
    open spec fn obeys_eq_spec() -> bool { true }
    closed spec fn eq_spec(&self, other: &Ticket) -> bool { self.bytes() == other.bytes() }
}
impl PartialEq for Ticket { #[verifier::external_body] fn eq(&self, other: &Ticket) -> (r: bool) { self.sha == other.sha } }
impl Ticket {
    #[verifier::external_body]
    fn human_readable(&self) -> (res: String)
//@ include shared/human_readable.spec
    { unimplemented!() }
}
#[verifier::external_body]
fn fmt_slash(a: &String, b: &String) -> (r: String) ensures r@ == a@ + seq!['/'] + b@ { format!("{}/{}", a, b) }

impl<SystemType : System> SysCache<SystemType> {
    spec fn wf(&self, w: World) -> bool { w.cache_dir == self.path@ }
}
spec fn no_urls(d: Option<DownloaderCache>) -> bool { d matches Some(dc) ==> dc.base_urls@.len() == 0 }
impl DownloaderCache {
    // ASSUMED (verified in unit D on the repo text for the sequential contract): without URLs nothing is downloaded
    #[verifier::external_body]
    fn restore_file<SystemType : System>(&self, ticket : &Ticket, system : &mut SystemType, target_path : &str, Tracked(w): Tracked<&mut World>) -> (res: DownloadResult)
        ensures self.base_urls@.len() == 0 ==> (res is NotThere && *final(w) == *old(w))
    { unimplemented!() }
}
// ASSUMED (unit D proves it for a quiescent world; under interference the target is mine, so stable):
// the current hash of my own target, or None if it does not exist
#[verifier::external_body]
fn get_file_ticket<SystemType: System>(system : &SystemType, path : &str, assumed_file_state : &FileState, Tracked(w): Tracked<&mut World>)
    -> (res: Result<Option<Ticket>, ReadWriteError>)
    requires !under(old(w).cache_dir, path@)
    ensures rely(*old(w), *final(w)),
        res matches Ok(Some(t)) ==> final(w).files.contains_key(path@) && t.bytes() == sha256(final(w).files[path@].content),
        res matches Ok(None) ==> !final(w).files.contains_key(path@),
{ unimplemented!() }

// my target p ends up holding hash r / ends up absent
spec fn target_has(w: World, p: Seq<char>, r: Seq<u8>) -> bool { w.files.contains_key(p) && sha256(w.files[p].content) == r }

impl<SystemType : System> SysCache<SystemType> {
//@ extract cache.rs impl /SysCache<SystemType>$/ fn restore_file
//@ props C06
//@ ret res
//@ param Tracked(w): Tracked<&mut World>
//@ addarg * /system\.(is_dir|is_file|rename|remove_file)/ Tracked(w)
//@ rewrite 1 /format!\("\{\}\/\{\}", self\.path, ticket\.human_readable\(\)\)/ => fmt_slash(&self.path, &ticket.human_readable())
//@ spec
        requires old(self).wf(*old(w)), inv_cache(*old(w)), !under(old(w).cache_dir, target_path@), !old(w).files.contains_key(target_path@),
        ensures final(self).wf(*final(w)), final(self).path@ == old(self).path@, inv_cache(*final(w)), same_consts(*old(w), *final(w)),
            // a cache entry that another thread took between my check and my rename is "not there", never a system error   //# O-Di-restore-total [C06]
            res matches RestoreResult::SystemError(e) ==> !src_missing_kind(e),
            res is Done ==> target_has(*final(w), target_path@, ticket.bytes()),            //# O-Di-restore-done [C06]
            !(res is Done) ==> !final(w).files.contains_key(target_path@),                  //# O-Di-restore-else [C06]
//@ hint start
        broadcast use cpath_inj_b;
//@ hint after 1/1 /let cache_path = [^;]*;/
            proof { cpath_under(self.path@, ticket.bytes()); }
//@ end

//@ extract cache.rs impl /SysCache<SystemType>$/ fn back_up_file_with_ticket
//@ props C06
//@ ret res
//@ param Tracked(w): Tracked<&mut World>
//@ addarg * /system\.(is_dir|is_file|rename|remove_file)/ Tracked(w)
//@ rewrite 1 /format!\("\{\}\/\{\}", self\.path, ticket\.human_readable\(\)\)/ => fmt_slash(&self.path, &ticket.human_readable())
//@ spec
        requires old(self).wf(*old(w)), inv_cache(*old(w)), !under(old(w).cache_dir, target_path@),
            old(w).files.contains_key(target_path@), ticket.bytes() == sha256(old(w).files[target_path@].content),
        ensures final(self).wf(*final(w)), final(self).path@ == old(self).path@, inv_cache(*final(w)), same_consts(*old(w), *final(w)),
            // backing up my own (stable) target into the shared cache cannot fail because of interference    //# O-Di-backup-total [C06]
            res matches Err(ReadWriteError::SystemError(e)) ==> !src_missing_kind(e),
            res is Ok ==> !final(w).files.contains_key(target_path@),
            res is Err ==> final(w).files.contains_key(target_path@) && final(w).files[target_path@] == old(w).files[target_path@],
//@ hint after 1/1 /let cache_path = [^;]*;/
        proof { cpath_under(self.path@, ticket.bytes()); }
//@ end
}

//@ extract blob.rs fn restore_or_download
//@ props C06
//@ ret res
//@ param Tracked(w): Tracked<&mut World>
//@ addarg * /cache\.restore_file|downloader_cache\.restore_file|system\.set_is_executable/ Tracked(w)
//@ rewrite * /println!\([^;]*\);/ => <empty>
//@ spec
    requires old(cache).wf(*old(w)), inv_cache(*old(w)), no_urls(*downloader_cache_opt),
        !under(old(w).cache_dir, target_info.path@), !old(w).files.contains_key(target_info.path@),
    ensures final(cache).wf(*final(w)), final(cache).path@ == old(cache).path@, inv_cache(*final(w)), same_consts(*old(w), *final(w)),
        res matches Err(ResolutionError::CacheMalfunction(e)) ==> !src_missing_kind(e),                                  //# O-Di-rod-total [C06]
        res matches Err(e) ==> e is CacheDirectoryMissing || e is CacheMalfunction,
        res matches Ok(FileResolution::Recovered) ==> target_has(*final(w), target_info.path@, remembered_target_content_info.ticket.bytes()),
        res matches Ok(FileResolution::NeedsRebuild) ==> !final(w).files.contains_key(target_info.path@),
        res matches Ok(r) ==> r is Recovered || r is NeedsRebuild,
//@ end

//@ extract blob.rs fn resolve_single_target
//@ props C06
//@ ret res
//@ param Tracked(w): Tracked<&mut World>
//@ addarg * /get_file_ticket|cache\.back_up_file_with_ticket|restore_or_download/ Tracked(w)
//@ spec
    requires old(cache).wf(*old(w)), inv_cache(*old(w)), no_urls(*downloader_cache_opt), !under(old(w).cache_dir, target_info.path@),
    ensures final(cache).wf(*final(w)), final(cache).path@ == old(cache).path@, inv_cache(*final(w)), same_consts(*old(w), *final(w)),
        // Under every behaviour of the other threads the outcome for my target is one of: it holds the remembered content
        // (up to date or recovered), or it is absent and will be rebuilt -- never an error caused by a cache entry that
        // another thread moved.  (Recovered and rebuilt content agree by HIST_TRUE + determinism: lemma L4, DESIGN.md.)
        res matches Err(ResolutionError::CacheMalfunction(e)) ==> !src_missing_kind(e),                                  //# O-Di-outcome-no-race-error [C06]
        res matches Err(ResolutionError::FileNotAvailableToCache(_, ReadWriteError::SystemError(e))) ==> !src_missing_kind(e),
        res matches Ok(FileResolution::AlreadyCorrect) ==> target_has(*final(w), target_info.path@, remembered_target_content_info.ticket.bytes()),   //# O-Di-outcome [C06]
        res matches Ok(FileResolution::Recovered) ==> target_has(*final(w), target_info.path@, remembered_target_content_info.ticket.bytes()),
        res matches Ok(FileResolution::NeedsRebuild) ==> !final(w).files.contains_key(target_info.path@),
        res matches Ok(r) ==> !(r is Downloaded),
//@ end

} // verus!
fn main() {}
