//@ unit S2
//@ default-props C12 C05 C01
// Unit S2: sort.rs -- the traversal: TopologicalSortMachine::{new, sort_once, get_result}.
use vstd::prelude::*;
use vstd::std_specs::hash::*;
use std::collections::HashMap;
use std::collections::HashSet;
verus! {

//@ extract ticket.rs struct Ticket
//@ end
//@ extract sort.rs struct Frame
//@ end
//@ extract sort.rs struct FrameBufferValue
//@ end
//@ extract sort.rs enum TopologicalSortError
//@ end
//@ extract sort.rs enum SourceIndex
//@ end
//@ extract sort.rs struct Node
//@ end
//@ extract sort.rs struct NodePack
//@ end

spec fn strs(v: Seq<String>) -> Seq<Seq<char>> { v.map_values(|l: String| l@) }

// ASSUMED (R8): std::collections::BTreeSet<String> as a set with ordered iteration
struct BTreeSet<K> { s: Ghost<Set<K>> }
impl BTreeSet<String> {
    spec fn view(&self) -> Set<String> { self.s@ }
    #[verifier::external_body] fn new() -> (r: Self) ensures r@ == Set::<String>::empty() { unimplemented!() }
    #[verifier::external_body] fn insert(&mut self, k: String) -> (r: bool) ensures final(self)@ == old(self)@.insert(k) { unimplemented!() }
}
//@ extract sort.rs struct TopologicalSortMachine
//@ end
#[verifier::external_body] proof fn string_key_model() ensures obeys_key_model::<String>() {}
#[verifier::external_body] proof fn usize_key_model() ensures obeys_key_model::<usize>() {}
#[verifier::external_body] fn string_to_owned(s: &String) -> (r: String) ensures r@ == s@ { s.to_owned() }
// R4: `stack.iter().position(|f| f.index == *buffer_index && !f.visited)`
#[verifier::external_body]
fn position_unvisited(stack: &Vec<Frame>, idx: usize) -> (r: Option<usize>)
    ensures r matches Some(p) ==> p < stack@.len() && stack@[p as int].index == idx && !stack@[p as int].visited,
        r is None ==> forall|p: int| 0 <= p < stack@.len() ==> !(#[trigger] stack@[p].index == idx && !stack@[p].visited),
{ stack.iter().position(|f| f.index == idx && !f.visited) }

impl Frame {
//@ extract sort.rs impl /^Frame$/ fn visit
//@ props C12 C05
//@ ret res
//@ spec
        ensures res.targets == self.targets, res.sources == self.sources, res.command == self.command, res.rule_ticket == self.rule_ticket,
            res.index == self.index, res.sub_index == self.sub_index, res.visited,
//@ end
}

// ---------- termination measure ----------
spec fn unv(f: Frame) -> int { if f.visited { 0 } else { 1 } }
spec fn count_unv(s: Seq<Frame>) -> int decreases s.len() { if s.len() == 0 { 0 } else { count_unv(s.drop_last()) + unv(s.last()) } }
spec fn has(v: FrameBufferValue) -> int { if v.opt_frame is Some { 1 } else { 0 } }
spec fn count_some(s: Seq<FrameBufferValue>) -> int decreases s.len() { if s.len() == 0 { 0 } else { count_some(s.drop_last()) + has(s.last()) } }
proof fn count_unv_nonneg(s: Seq<Frame>) ensures count_unv(s) >= 0 decreases s.len() { if s.len() > 0 { count_unv_nonneg(s.drop_last()); } }
proof fn count_some_nonneg(s: Seq<FrameBufferValue>) ensures count_some(s) >= 0 decreases s.len() { if s.len() > 0 { count_some_nonneg(s.drop_last()); } }
proof fn count_unv_push(s: Seq<Frame>, f: Frame) ensures count_unv(s.push(f)) == count_unv(s) + unv(f) { assert(s.push(f).drop_last() =~= s); }
proof fn count_unv_remove(s: Seq<Frame>, p: int) requires 0 <= p < s.len() ensures count_unv(s.remove(p)) == count_unv(s) - unv(s[p])
    decreases s.len()
{
    if p == s.len() - 1 { assert(s.remove(p) =~= s.drop_last()); }
    else {
        count_unv_remove(s.drop_last(), p);
        assert(s.remove(p).drop_last() =~= s.drop_last().remove(p));
        assert(s.remove(p).last() == s.last());
    }
}
proof fn count_some_update(s: Seq<FrameBufferValue>, b: int, v: FrameBufferValue) requires 0 <= b < s.len() ensures count_some(s.update(b, v)) == count_some(s) - has(s[b]) + has(v)
    decreases s.len()
{
    if b == s.len() - 1 { assert(s.update(b, v).drop_last() =~= s.drop_last()); }
    else {
        count_some_update(s.drop_last(), b, v);
        assert(s.update(b, v).drop_last() =~= s.drop_last().update(b, v));
        assert(s.update(b, v).last() == s.last());
    }
}
spec fn all_unv(v: Seq<Frame>) -> bool { forall|p: int| 0 <= p < v.len() ==> !(#[trigger] v[p]).visited }
proof fn count_all_unv(s: Seq<Frame>) requires all_unv(s) ensures count_unv(s) == s.len()
    decreases s.len()
{ if s.len() > 0 { assert(all_unv(s.drop_last())) by { assert forall|p: int| 0 <= p < s.drop_last().len() implies !(#[trigger] s.drop_last()[p]).visited by { assert(s.drop_last()[p] == s[p]); } } count_all_unv(s.drop_last()); } }

// ---------- safety vocabulary: tl[b] = number of targets of the rule at buffer index b ----------
spec fn fok(f: Frame, tl: Seq<int>) -> bool { f.index < tl.len() && f.targets@.len() == tl[f.index as int] && f.sub_index < f.targets@.len() }
spec fn all_fok(v: Seq<Frame>, tl: Seq<int>) -> bool { forall|p: int| 0 <= p < v.len() ==> fok(#[trigger] v[p], tl) }
impl TopologicalSortMachine {
    // machine well-formedness, safety part: buffered frames sit at their own index with at least one target; the target index
    // only mentions existing (rule, position) pairs
    spec fn wf_s(&self, tl: Seq<int>) -> bool {
        &&& self.frame_buffer@.len() == tl.len()
        &&& forall|b: int| 0 <= b < tl.len() ==> ((#[trigger] self.frame_buffer@[b]).opt_frame matches Some(f) ==> f.index == b && f.sub_index == 0 && !f.visited && fok(f, tl))
        &&& forall|key: String| #![trigger self.to_buffer_index@[key]] self.to_buffer_index@.contains_key(key) ==> self.to_buffer_index@[key].0 < tl.len() && self.to_buffer_index@[key].1 < tl[self.to_buffer_index@[key].0 as int]
    }

//@ extract sort.rs impl /^TopologicalSortMachine$/ fn sort_once
//@ props C12 C05
//@ ret res
//@ rewrite 1 /HashSet::new\(\)/ => HashSet::<usize>::new()
//@ rewrite 1 /stack\.iter\(\)\.position\(\|f\| f\.index == \*buffer_index && !f\.visited\)/ => position_unvisited(&stack, *buffer_index)
//@ rewrite 1 /source\.to_owned\(\)/ => string_to_owned(source)
//@ retype 1 /let mut reverser = vec!\[\];/ => let mut reverser : Vec<Frame> = Vec::new();
//@ retype 1 /let mut target_cycle = vec!\[\];/ => let mut target_cycle : Vec<String> = Vec::new();
//@ param Ghost(tl): Ghost<Seq<int>>
//@ spec
        requires old(self).wf_s(tl), index < tl.len(), sub_index < tl[index as int],
        ensures final(self).wf_s(tl),                                                     //# O-S-machine-wf [C12,C05]
//@ hint start
        broadcast use vstd::std_specs::hash::group_hash_axioms;
        proof { string_key_model(); usize_key_model(); }
//@ loop 1 invariant
            invariant self.wf_s(tl), all_fok(stack@, tl), obeys_key_model::<String>(), obeys_key_model::<usize>(),
            decreases count_some(self.frame_buffer@) + count_unv(stack@), stack@.len(),
//@ hint after 1/1 /while let Some\(frame\) = stack\.pop\(\)\s*\{/
            let ghost fb0 = self.frame_buffer@; let ghost st0 = stack@;     // (stack already popped: st0 is the rest)
            let ghost m0 = count_some(fb0) + count_unv(st0) + unv(frame);
            proof { count_unv_nonneg(st0); count_some_nonneg(fb0); assert(st0.push(frame).drop_last() =~= st0); }
//@ hint after 1/1 /self\.frame_buffer\[frame\.index\]\.final_index = self\.frames_in_order\.len\(\);/
                proof { count_some_update(fb0, frame.index as int, self.frame_buffer@[frame.index as int]); assert(self.frame_buffer@ =~= fb0.update(frame.index as int, self.frame_buffer@[frame.index as int])); }
//@ loop 2 binder it
//@ loop 2 invariant
                    invariant self.wf_s(tl), all_fok(stack@, tl), all_fok(reverser@, tl), fok(frame, tl), obeys_key_model::<String>(), obeys_key_model::<usize>(),
                        all_unv(reverser@), !frame.visited,
                        count_some(self.frame_buffer@) + count_unv(stack@) + reverser@.len() == m0 - 1,
//@ loop 3 binder it3
//@ loop 3 invariant
                                                invariant all_fok(stack@, tl), fok(frame, tl),
//@ loop 4 invariant
                    invariant self.wf_s(tl), all_fok(stack@, tl), all_fok(reverser@, tl), obeys_key_model::<usize>(),
                        all_unv(reverser@),
                        count_some(self.frame_buffer@) + count_unv(stack@) + reverser@.len() == m0 - 1,
                    ensures reverser@.len() == 0,
                    decreases reverser@.len(),
//@ hint before 1/1 /if let Some\(mut frame\) = self\.frame_buffer\[\*buffer_index\]\.opt_frame\.take\(\)/
                            let ghost fb1 = self.frame_buffer@; let ghost rv1 = reverser@; let ghost st1 = stack@;
//@ hint after 1/1 /frame\.sub_index = \*sub_index;\s*reverser\.push\(frame\);/
                                proof {
                                    assert(self.frame_buffer@ =~= fb1.update(*buffer_index as int, self.frame_buffer@[*buffer_index as int]));
                                    count_some_update(fb1, *buffer_index as int, self.frame_buffer@[*buffer_index as int]);
                                }
//@ hint after 1/1 /sibling\.sub_index = \*sub_index;\s*reverser\.push\(sibling\);/
                                            proof { count_unv_remove(st1, position as int); assert(self.frame_buffer@ =~= fb1); }
//@ hint before 1/1 /\},\s*None =>\s*\{\s*self\.source_leaves\.insert/
                            proof { if reverser@.len() == rv1.len() { assert(self.frame_buffer@ =~= fb1); } }
//@ hint after 1/1 /stack\.push\(frame\.visit\(\)\);/
                proof { count_unv_push(st_before_visit, stack@.last()); }
//@ hint before 1/1 /stack\.push\(frame\.visit\(\)\);/
                let ghost st_before_visit = stack@;
//@ hint after 1/1 /while let Some\(f\) = reverser\.pop\(\)\s*\{/
                    let ghost st4 = stack@;
//@ hint after 1/1 /indices_in_stack\.insert\(f\.index\);\s*stack\.push\(f\);/
                    proof { count_unv_push(st4, f); }
//@ end
}

} // verus!
fn main() {}
