//@ unit B
//@ default-props C13 C01 C02 C05
// Unit B: rule.rs::Rule::get_ticket -- the rule identity -- and the injectivity of the hashed layout.
use vstd::prelude::*;
use vstd::multiset::*;
verus! {

uninterp spec fn sha256_raw(c: Seq<u8>) -> Seq<u8>;
spec fn sha256(c: Seq<u8>) -> Seq<u8> { if sha256_raw(c).len() == 32 { sha256_raw(c) } else { Seq::new(32, |i: int| 0u8) } }
uninterp spec fn utf8(s: Seq<char>) -> Seq<u8>;

//@ extract ticket.rs struct Ticket
//@ end
//@ extract rule.rs struct Rule
//@ end

spec fn strs(v: Seq<String>) -> Seq<Seq<char>> { v.map_values(|l: String| l@) }
#[allow(non_snake_case)]
spec fn NL() -> Seq<char> { seq!['\n'] }
#[allow(non_snake_case)]
spec fn SEP() -> Seq<char> { seq!['\n', ':', '\n'] }
spec fn lines(v: Seq<Seq<char>>) -> Seq<char> decreases v.len() { if v.len() == 0 { Seq::empty() } else { lines(v.drop_last()) + v.last() + NL() } }
spec fn ser(t: Seq<Seq<char>>, s: Seq<Seq<char>>, c: Seq<Seq<char>>) -> Seq<char> { lines(t) + SEP() + lines(s) + SEP() + lines(c) + SEP() }

// ---------- ASSUMED: String ordering, is_sorted, Vec<String>::sort (std; R4/R8) ----------
// the total order `<=` on strings
uninterp spec fn str_le(a: Seq<char>, b: Seq<char>) -> bool;
spec fn sorted(v: Seq<Seq<char>>) -> bool { forall|i: int, j: int| 0 <= i <= j < v.len() ==> str_le(#[trigger] v[i], #[trigger] v[j]) }
// the sorted rearrangement
uninterp spec fn sort_spec(v: Seq<Seq<char>>) -> Seq<Seq<char>>;
// ASSUMED: sorting gives a sorted permutation; a sorted list is its own sorting; permutations sort to the same list
#[verifier::external_body] proof fn sort_axioms(v: Seq<Seq<char>>)
    ensures sorted(sort_spec(v)), sort_spec(v).to_multiset() == v.to_multiset(), sorted(v) ==> sort_spec(v) == v {}
#[verifier::external_body] proof fn sort_canonical(a: Seq<Seq<char>>, b: Seq<Seq<char>>)
    requires a.to_multiset() == b.to_multiset() ensures sort_spec(a) == sort_spec(b) {}

impl Ticket { spec fn bytes(&self) -> Seq<u8> { self.sha@ } }
impl Ticket {
    // ASSUMED here, PROVED in unit A (O-A-from-strings)
    #[verifier::external_body]
    fn from_strings(targets: &Vec<String>, sources: &Vec<String>, command: &Vec<String>) -> (res: Ticket)
//@ include shared/from_strings.spec
    { unimplemented!() }
}
// ASSUMED: rule.rs::is_sorted (`windows(2).all(..)`, adapter code)
#[verifier::external_body]
fn is_sorted(data: &Vec<String>) -> (r: bool) ensures r == sorted(strs(data@)) { unimplemented!() }
// ASSUMED: Vec<String>::clone, Vec<String>::sort
#[verifier::external_body]
fn clone_strings(v: &Vec<String>) -> (r: Vec<String>) ensures strs(r@) == strs(v@) { v.clone() }
#[verifier::external_body]
fn sort_strings(v: &mut Vec<String>) ensures strs(final(v)@) == sort_spec(strs(old(v)@)) { v.sort() }

// the characters hashed into a rule's identity
spec fn ident_input(t: Seq<Seq<char>>, s: Seq<Seq<char>>, c: Seq<Seq<char>>) -> Seq<char> { ser(sort_spec(t), sort_spec(s), c) }

impl Rule {
//@ extract rule.rs impl /^Rule$/ fn get_ticket
//@ props C13 C01 C02 C05
//@ ret res
//@ rewrite 1 /self\.targets\.clone\(\)/ => clone_strings(&self.targets)
//@ rewrite 1 /self\.sources\.clone\(\)/ => clone_strings(&self.sources)
//@ rewrite 1 /t\.sort\(\);/ => sort_strings(&mut t);
//@ rewrite 1 /s\.sort\(\);/ => sort_strings(&mut s);
//@ spec
        ensures res.bytes() == sha256(utf8(ident_input(strs(self.targets@), strs(self.sources@), strs(self.command@)))),      //# O-B-identity [C13,C01,C02]
//@ hint start
        proof { sort_axioms(strs(self.targets@)); sort_axioms(strs(self.sources@)); }
//@ end
}

// ---------- injectivity of the layout (no repo code) ----------
spec fn clean(x: Seq<char>) -> bool { x.len() > 0 && forall|i: int| 0 <= i < x.len() ==> #[trigger] x[i] != '\n' }
spec fn all_clean(v: Seq<Seq<char>>) -> bool { forall|i: int| 0 <= i < v.len() ==> clean(#[trigger] v[i]) }
// front-recursive form of `lines`
spec fn linesf(v: Seq<Seq<char>>) -> Seq<char> decreases v.len() { if v.len() == 0 { Seq::empty() } else { v[0] + NL() + linesf(v.drop_first()) } }

proof fn lines_push(v: Seq<Seq<char>>, x: Seq<char>) ensures lines(v.push(x)) == lines(v) + x + NL()
{ assert(v.push(x).drop_last() =~= v); }
proof fn linesf_push(v: Seq<Seq<char>>, x: Seq<char>) ensures linesf(v.push(x)) =~= linesf(v) + x + NL()
    decreases v.len()
{
    if v.len() == 0 { assert(v.push(x).drop_first() =~= Seq::<Seq<char>>::empty()); assert(linesf(v.push(x).drop_first()) =~= Seq::<char>::empty()); }
    else {
        assert(v.push(x).drop_first() =~= v.drop_first().push(x));
        linesf_push(v.drop_first(), x);
        assert(v.push(x)[0] == v[0]);
    }
}
proof fn lines_eq_linesf(v: Seq<Seq<char>>) ensures lines(v) =~= linesf(v)
    decreases v.len()
{
    if v.len() > 0 {
        lines_eq_linesf(v.drop_last());
        assert(v =~= v.drop_last().push(v.last()));
        linesf_push(v.drop_last(), v.last());
    }
}
// two newline-free prefixes followed by a newline: the first newline decides where the prefix ends
proof fn first_line(a: Seq<char>, x: Seq<char>, b: Seq<char>, y: Seq<char>)
    requires forall|i: int| 0 <= i < a.len() ==> #[trigger] a[i] != '\n', forall|i: int| 0 <= i < b.len() ==> #[trigger] b[i] != '\n',
        a + NL() + x == b + NL() + y
    ensures a == b, x == y
{
    let l = a + NL() + x; let r = b + NL() + y;
    if a.len() < b.len() { assert(l[a.len() as int] == '\n'); assert(r[a.len() as int] == b[a.len() as int]); }
    if b.len() < a.len() { assert(r[b.len() as int] == '\n'); assert(l[b.len() as int] == a[b.len() as int]); }
    assert(a.len() == b.len());
    assert forall|i: int| 0 <= i < a.len() implies a[i] == b[i] by { assert(l[i] == a[i]); assert(r[i] == b[i]); }
    assert(a =~= b);
    assert(x.len() == y.len()) by { assert(l.len() == r.len()); }
    assert forall|i: int| 0 <= i < x.len() implies x[i] == y[i] by { assert(l[a.len() + 1 + i] == x[i]); assert(r[b.len() + 1 + i] == y[i]); }
    assert(x =~= y);
}
// a list of clean lines followed by an empty line: the list and the rest are determined
proof fn linesf_inj(v1: Seq<Seq<char>>, x: Seq<char>, v2: Seq<Seq<char>>, y: Seq<char>)
    requires all_clean(v1), all_clean(v2), linesf(v1) + NL() + x == linesf(v2) + NL() + y
    ensures v1 == v2, x == y
    decreases v1.len()
{
    let l = linesf(v1) + NL() + x; let r = linesf(v2) + NL() + y;
    if v1.len() == 0 {
        if v2.len() > 0 { assert(clean(v2[0])); assert(l[0] == '\n'); assert(r[0] == v2[0][0]); }
        assert(v1 =~= v2);
        assert(linesf(v1) =~= Seq::<char>::empty() && linesf(v2) =~= Seq::<char>::empty());
        first_line(Seq::empty(), x, Seq::empty(), y);
    } else if v2.len() == 0 {
        assert(clean(v1[0])); assert(r[0] == '\n'); assert(l[0] == v1[0][0]);
    } else {
        assert(clean(v1[0]) && clean(v2[0]));
        let x1 = linesf(v1.drop_first()) + NL() + x; let y1 = linesf(v2.drop_first()) + NL() + y;
        assert(l =~= v1[0] + NL() + x1);
        assert(r =~= v2[0] + NL() + y1);
        first_line(v1[0], x1, v2[0], y1);
        assert(all_clean(v1.drop_first())) by { assert forall|i: int| 0 <= i < v1.drop_first().len() implies clean(#[trigger] v1.drop_first()[i]) by { assert(v1.drop_first()[i] == v1[i + 1]); } }
        assert(all_clean(v2.drop_first())) by { assert forall|i: int| 0 <= i < v2.drop_first().len() implies clean(#[trigger] v2.drop_first()[i]) by { assert(v2.drop_first()[i] == v2[i + 1]); } }
        linesf_inj(v1.drop_first(), x, v2.drop_first(), y);
        assert(v1 =~= seq![v1[0]] + v1.drop_first());
        assert(v2 =~= seq![v2[0]] + v2.drop_first());
    }
}
//# L-B-ser-injective [C13]
// property-facing: on parser-producible rules (every path / command line non-empty and newline-free) the hashed layout determines
// the three lists: moving a string across a section boundary, splitting or merging lines, ':' inside a string -- all change it
proof fn ser_injective(t1: Seq<Seq<char>>, s1: Seq<Seq<char>>, c1: Seq<Seq<char>>, t2: Seq<Seq<char>>, s2: Seq<Seq<char>>, c2: Seq<Seq<char>>)
    requires all_clean(t1), all_clean(s1), all_clean(c1), all_clean(t2), all_clean(s2), all_clean(c2), ser(t1, s1, c1) == ser(t2, s2, c2)
    ensures t1 == t2, s1 == s2, c1 == c2
{
    lines_eq_linesf(t1); lines_eq_linesf(s1); lines_eq_linesf(c1); lines_eq_linesf(t2); lines_eq_linesf(s2); lines_eq_linesf(c2);
    let col = seq![':', '\n'];
    assert(SEP() =~= NL() + col);
    let r1 = col + lines(s1) + SEP() + lines(c1) + SEP();
    let r2 = col + lines(s2) + SEP() + lines(c2) + SEP();
    assert(ser(t1, s1, c1) =~= linesf(t1) + NL() + r1);
    assert(ser(t2, s2, c2) =~= linesf(t2) + NL() + r2);
    linesf_inj(t1, r1, t2, r2);
    let q1 = col + lines(c1) + SEP(); let q2 = col + lines(c2) + SEP();
    assert(r1.subrange(2, r1.len() as int) =~= linesf(s1) + NL() + q1);
    assert(r2.subrange(2, r2.len() as int) =~= linesf(s2) + NL() + q2);
    linesf_inj(s1, q1, s2, q2);
    assert(q1.subrange(2, q1.len() as int) =~= linesf(c1) + NL() + col);
    assert(q2.subrange(2, q2.len() as int) =~= linesf(c2) + NL() + col);
    linesf_inj(c1, col, c2, col);
    /*VACPROBE-PROOF*/
}
//# L-B-identity [C13]
// property-facing: two rules hash the same characters exactly when they have the same targets and the same sources (as
// multisets; sets for duplicate-free lists) and the same command lines in the same order.  The rule identity is
// sha256(utf8(these characters)): equal identities <=> equal characters, modulo SHA-256 collisions and UTF-8 injectivity.
proof fn identity_iff(t1: Seq<Seq<char>>, s1: Seq<Seq<char>>, c1: Seq<Seq<char>>, t2: Seq<Seq<char>>, s2: Seq<Seq<char>>, c2: Seq<Seq<char>>)
    requires all_clean(t1), all_clean(s1), all_clean(c1), all_clean(t2), all_clean(s2), all_clean(c2)
    ensures (ident_input(t1, s1, c1) == ident_input(t2, s2, c2)) <==> (t1.to_multiset() == t2.to_multiset() && s1.to_multiset() == s2.to_multiset() && c1 == c2)
{
    sort_axioms(t1); sort_axioms(s1); sort_axioms(t2); sort_axioms(s2);
    if t1.to_multiset() == t2.to_multiset() && s1.to_multiset() == s2.to_multiset() && c1 == c2 {
        sort_canonical(t1, t2); sort_canonical(s1, s2);
    }
    if ident_input(t1, s1, c1) == ident_input(t2, s2, c2) {
        clean_perm(t1, sort_spec(t1)); clean_perm(s1, sort_spec(s1)); clean_perm(t2, sort_spec(t2)); clean_perm(s2, sort_spec(s2));
        ser_injective(sort_spec(t1), sort_spec(s1), c1, sort_spec(t2), sort_spec(s2), c2);
    }
}
// a rearrangement of clean lines is clean
proof fn clean_perm(v: Seq<Seq<char>>, p: Seq<Seq<char>>) requires all_clean(v), p.to_multiset() == v.to_multiset() ensures all_clean(p)
{
    assert forall|i: int| 0 <= i < p.len() implies clean(#[trigger] p[i]) by {
        p.to_multiset_ensures();
        v.to_multiset_ensures();
        assert(p.to_multiset().count(p[i]) > 0);
        assert(v.contains(p[i]));
        let j = choose|j: int| 0 <= j < v.len() && v[j] == p[i];
        assert(clean(v[j]));
    }
}

} // verus!
fn main() {}
