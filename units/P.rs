//@ unit P
//@ default-props C14
// Unit P: the rules-file parser -- rule.rs::{parse, parse_all} and bundle.rs (path bundles).
use vstd::prelude::*;
verus! {

//@ extract rule.rs struct Rule
//@ end
//@ extract bundle.rs enum PathNodeType
//@ end
//@ extract bundle.rs struct PathNode
//@ end
//@ extract bundle.rs struct PathBundle
//@ end
//@ extract bundle.rs struct NumberedIndentedLine
//@ end
// (single-file unit: bundle.rs's `ParseError` is renamed BundleParseError to keep it apart from rule.rs's `ParseError`)
//@ extract bundle.rs enum ParseError
//@ rewrite 1 /enum ParseError/ => enum BundleParseError
//@ end
//@ extract rule.rs enum ParseError
//@ rewrite 1 /bundle::ParseError/ => BundleParseError
//@ end

// ---------- ASSUMED (R4): std string helpers ----------
// the lines of a text: the pieces between '\n' characters (always at least one)
uninterp spec fn split_nl(s: Seq<char>) -> Seq<Seq<char>>;
spec fn strv(v: Seq<&str>) -> Seq<Seq<char>> { v.map_values(|l: &str| l@) }
spec fn strs(v: Seq<String>) -> Seq<Seq<char>> { v.map_values(|l: String| l@) }
#[verifier::external_body]
fn split_lines<'a>(content: &'a String) -> (r: Vec<&'a str>)
    ensures strv(r@) == split_nl(content@), r@.len() >= 1, r@.len() < usize::MAX
{ content.split('\n').collect::<Vec<&str>>() }
// ASSUMED: a str is determined by its characters (Verus encodes a string-literal pattern as equality of str values)
#[verifier::external_body] proof fn str_ext(a: &str, b: &str) requires a@ == b@ ensures a == b {}
#[verifier::external_body]
fn str_to_string(s: &str) -> (r: String) ensures r@ == s@ { s.to_string() }

// ---------- spec of the documented format ----------
// a bundle-parse error, as a value
enum BErr { Empty, ContainsEmptyLines(Seq<usize>), Contradiction(usize, usize), WrongIndent(usize) }
spec fn berr_view(e: BundleParseError) -> BErr {
    match e {
        BundleParseError::Empty => BErr::Empty,
        BundleParseError::ContainsEmptyLines(v) => BErr::ContainsEmptyLines(v@),
        BundleParseError::Contradiction(a, b) => BErr::Contradiction(a, b),
        BundleParseError::WrongIndent(n) => BErr::WrongIndent(n),
    }
}
// a rules-file parse error, as a value (kind, line number / bundle error)
enum PErr { EmptyLine(int), ExtraColon(int), EofTargets(int), EofSources(int), EofCommand(int), Bundle(BErr) }
spec fn perr_view(e: ParseError) -> (Seq<char>, PErr) {
    match e {
        ParseError::UnexpectedEmptyLine(f, n) => (f@, PErr::EmptyLine(n as int)),
        ParseError::UnexpectedExtraColon(f, n) => (f@, PErr::ExtraColon(n as int)),
        ParseError::UnexpectedEndOfFileMidTargets(f, n) => (f@, PErr::EofTargets(n as int)),
        ParseError::UnexpectedEndOfFileMidSources(f, n) => (f@, PErr::EofSources(n as int)),
        ParseError::UnexpectedEndOfFileMidCommand(f, n) => (f@, PErr::EofCommand(n as int)),
        ParseError::BundleError(f, b) => (f@, PErr::Bundle(berr_view(b))),
    }
}
// the path list a section's lines stand for (flat or tab-indented bundles): bundle.rs parse_lines + get_path_strings('/')
uninterp spec fn bundle_paths(lines: Seq<Seq<char>>) -> Result<Seq<Seq<char>>, BErr>;
struct RuleS { targets: Seq<Seq<char>>, sources: Seq<Seq<char>>, command: Seq<Seq<char>> }
spec fn rule_view(r: Rule) -> RuleS { RuleS { targets: strs(r.targets@), sources: strs(r.sources@), command: strs(r.command@) } }
spec fn rules_view(v: Seq<Rule>) -> Seq<RuleS> { v.map_values(|r: Rule| rule_view(r)) }

// the section state machine of the documented format: 0 between rules, 1 targets, 2 sources, 3 command
struct PS { mode: int, rules: Seq<RuleS>, t: Seq<Seq<char>>, s: Seq<Seq<char>>, c: Seq<Seq<char>>, err: Option<PErr> }
spec fn ps0() -> PS { PS { mode: 0, rules: Seq::empty(), t: Seq::empty(), s: Seq::empty(), c: Seq::empty(), err: None } }
spec fn colon() -> Seq<char> { seq![':'] }
// one line (ln = its 1-based number)
spec fn step(st: PS, ln: int, line: Seq<char>) -> PS {
    if st.err is Some { st }
    else if st.mode == 0 {
        if line.len() == 0 { st } else if line == colon() { PS { err: Some(PErr::ExtraColon(ln)), ..st } } else { PS { mode: 1, t: st.t.push(line), ..st } }
    } else if st.mode == 1 {
        if line.len() == 0 { PS { err: Some(PErr::EmptyLine(ln)), ..st } } else if line == colon() { PS { mode: 2, ..st } } else { PS { t: st.t.push(line), ..st } }
    } else if st.mode == 2 {
        if line.len() == 0 { PS { err: Some(PErr::EmptyLine(ln)), ..st } } else if line == colon() { PS { mode: 3, ..st } } else { PS { s: st.s.push(line), ..st } }
    } else {
        if line.len() == 0 { PS { err: Some(PErr::EmptyLine(ln)), ..st } }
        else if line == colon() {
            match bundle_paths(st.t) {
                Err(e) => PS { err: Some(PErr::Bundle(e)), ..st },
                Ok(tp) => match bundle_paths(st.s) {
                    Err(e) => PS { err: Some(PErr::Bundle(e)), ..st },
                    Ok(sp) => PS { mode: 0, rules: st.rules.push(RuleS { targets: tp, sources: sp, command: st.c }), t: Seq::empty(), s: Seq::empty(), c: Seq::empty(), err: None },
                },
            }
        } else { PS { c: st.c.push(line), ..st } }
    }
}
spec fn run(lines: Seq<Seq<char>>, k: int) -> PS decreases k { if k <= 0 { ps0() } else { step(run(lines, k - 1), k, lines[k - 1]) } }
// what parsing a file with these lines yields
spec fn parse_spec(lines: Seq<Seq<char>>) -> Result<Seq<RuleS>, PErr> {
    let st = run(lines, lines.len() as int);
    if st.err is Some { Err(st.err->Some_0) }
    else if st.mode == 0 { Ok(st.rules) }
    else if st.mode == 1 { Err(PErr::EofTargets(lines.len() as int + 1)) }
    else if st.mode == 2 { Err(PErr::EofSources(lines.len() as int + 1)) }
    else { Err(PErr::EofCommand(lines.len() as int + 1)) }
}
// an error, once raised, is the result
proof fn run_sticky(lines: Seq<Seq<char>>, k: int, n: int) requires 0 <= k <= n <= lines.len(), run(lines, k).err is Some ensures run(lines, n) == run(lines, k)
    decreases n - k
{ if k < n { run_sticky(lines, k, n - 1); } }
proof fn step_err_is_result(lines: Seq<Seq<char>>, k: int) requires 0 <= k < lines.len(), run(lines, k + 1).err is Some
    ensures parse_spec(lines) == Err::<Seq<RuleS>, PErr>(run(lines, k + 1).err->Some_0)
{ run_sticky(lines, k + 1, lines.len() as int); }

impl PathBundle {
    // (stub for the first stage of this unit; replaced below when bundle.rs is under contract)
    spec fn paths(&self) -> Seq<Seq<char>>;
    #[verifier::external_body]
    fn parse_lines(lines: Vec<&str>) -> (r: Result<PathBundle, BundleParseError>)
        ensures r matches Ok(b) ==> bundle_paths(strv(lines@)) == Ok::<Seq<Seq<char>>, BErr>(b.paths()),
            r matches Err(e) ==> bundle_paths(strv(lines@)) == Err::<Seq<Seq<char>>, BErr>(berr_view(e)),
    { unimplemented!() }
    #[verifier::external_body]
    fn get_path_strings(&self, separator : char) -> (r: Vec<String>) ensures separator == '/' ==> strs(r@) == self.paths() { unimplemented!() }
}
impl Rule {
//@ extract rule.rs impl /^Rule$/ fn new
//@ props C14
//@ ret res
//@ spec
        ensures res.targets == targets, res.sources == sources, res.command == command,
//@ end
}

proof fn strv_push(v: Seq<&str>, x: &str) ensures strv(v.push(x)) =~= strv(v).push(x@) {}
proof fn strs_push(v: Seq<String>, x: String) ensures strs(v.push(x)) =~= strs(v).push(x@) {}
proof fn rules_push(v: Seq<Rule>, x: Rule) ensures rules_view(v.push(x)) =~= rules_view(v).push(rule_view(x)) {}
spec fn res_view(res: Result<Vec<Rule>, ParseError>) -> Result<Seq<RuleS>, PErr> {
    match res { Ok(v) => Ok(rules_view(v@)), Err(e) => Err(perr_view(e).1) }
}

//@ extract rule.rs fn parse
//@ props C14
//@ attr #[verifier::loop_isolation(false)]
//@ ret res
//@ rewrite 1 /content\.split\('\\n'\)\.collect::<Vec<&str>>\(\)/ => split_lines(&content)
//@ rewrite 1 /line\.to_string\(\)/ => str_to_string(line)
//@ retype 1 /let mut rules = Vec::new\(\);/ => let mut rules : Vec<Rule> = Vec::new();
//@ retype 1 /let mut target_lines = vec!\[\];/ => let mut target_lines : Vec<&str> = Vec::new();
//@ retype 1 /let mut source_lines = vec!\[\];/ => let mut source_lines : Vec<&str> = Vec::new();
//@ retype 1 /let mut command = vec!\[\];/ => let mut command : Vec<String> = Vec::new();
//@ retype 1 /let mut line_number = 1;/ => let mut line_number : usize = 1;
//@ spec
    ensures
        // total: returns a rule list or an error naming the file and the line; never panics (native obligations)
        // faithful: exactly what the section state machine of the documented format yields, with the matching error kind at the offending line   //# O-P-parse [C14]
        res_view(res) == parse_spec(split_nl(content@)),
        res matches Err(e) ==> perr_view(e).0 == filename@,                                                                               //# O-P-error-names-file [C14]
//@ hint after 1/1 /let lines = [^;]*;/
    let ghost ls = strv(lines@);
    proof { reveal_strlit(""); reveal_strlit(":"); assert(":"@ =~= colon()); }
//@ loop 1 binder it
//@ loop 1 invariant
        invariant line_number == it.index@ + 1, ls == strv(lines@), ls == split_nl(content@), lines@.len() < usize::MAX,
            run(ls, it.index@).err is None,
            run(ls, it.index@).mode == (match mode { Mode::Pending => 0int, Mode::Targets => 1int, Mode::Sources => 2int, Mode::Command => 3int }),
            rules_view(rules@) == run(ls, it.index@).rules,
            strv(target_lines@) == run(ls, it.index@).t, strv(source_lines@) == run(ls, it.index@).s, strs(command@) == run(ls, it.index@).c,
//@ hint before 1/2 /match mode\s*\{\s*Mode::Pending =>/
        let ghost k = it.index@;
        let ghost tlv0 = target_lines@; let ghost slv0 = source_lines@; let ghost cv0 = command@; let ghost rv0 = rules@;
        proof {
            strv_push(tlv0, line); strv_push(slv0, line);
            assert(strv(Seq::<&str>::empty()) =~= Seq::<Seq<char>>::empty()); assert(strs(Seq::<String>::empty()) =~= Seq::<Seq<char>>::empty());
            assert(ls[k] == line@);
            reveal_strlit(""); reveal_strlit(":");
            assert(":"@ =~= colon());
            if line@.len() == 0 { assert(line@ =~= ""@); str_ext(line, ""); }
            if line@ == colon() { str_ext(line, ":"); }
            if run(ls, k + 1).err is Some { step_err_is_result(ls, k); }
        }
//@ hint before 1/1 /line_number \+= 1;/
        proof {
            let st0 = run(ls, k); let st1 = run(ls, k + 1);
            assert(st1 == step(st0, k + 1, ls[k]));
            if command@.len() == cv0.len() + 1 { assert(command@ =~= cv0.push(command@.last())); strs_push(cv0, command@.last()); }
            if rules@.len() == rv0.len() + 1 { assert(rules@ =~= rv0.push(rules@.last())); rules_push(rv0, rules@.last()); }
            assert(strv(target_lines@) =~= st1.t); assert(strv(source_lines@) =~= st1.s); assert(strs(command@) =~= st1.c);
            assert(rules_view(rules@) =~= st1.rules);
        }
//@ hint before 2/2 /match mode\s*\{\s*Mode::Pending =>/
    proof { assert(lines@.len() == ls.len()); }
//@ end

// all files, in order: the rules of each, or the first error
spec fn parse_all_spec(files: Seq<(Seq<char>, Seq<char>)>, k: int) -> Result<Seq<RuleS>, (Seq<char>, PErr)>
    decreases k
{
    if k <= 0 { Ok(Seq::empty()) } else {
        match parse_all_spec(files, k - 1) {
            Err(e) => Err(e),
            Ok(rs) => match parse_spec(split_nl(files[k - 1].1)) { Err(e) => Err((files[k - 1].0, e)), Ok(r2) => Ok(rs + r2) },
        }
    }
}
spec fn files_view(v: Seq<(String, String)>) -> Seq<(Seq<char>, Seq<char>)> { v.map_values(|p: (String, String)| (p.0@, p.1@)) }
// ASSUMED (R4): Vec::extend with a Vec
#[verifier::external_body]
fn vec_extend(v: &mut Vec<Rule>, w: Vec<Rule>) ensures final(v)@ == old(v)@ + w@ { v.extend(w) }

//@ extract rule.rs fn parse_all
//@ props C14
//@ attr #[verifier::loop_isolation(false)]
//@ ret res
//@ rewrite 1 /contents\.drain\(\.\.\)/ => contents
//@ rewrite 1 /result\.extend\(parse\(filename, content\)\?\);/ => let parsed = parse(filename, content)?; let ghost pv = parsed@; vec_extend(&mut result, parsed);
//@ spec
    ensures
        res matches Ok(v) ==> parse_all_spec(files_view(contents@), contents@.len() as int) == Ok::<Seq<RuleS>, (Seq<char>, PErr)>(rules_view(v@)),     //# O-P-parse-all [C14]
        res matches Err(e) ==> parse_all_spec(files_view(contents@), contents@.len() as int) == Err::<Seq<RuleS>, (Seq<char>, PErr)>(perr_view(e)),
//@ hint start
    let ghost fv = files_view(contents@);
//@ hint before 1/1 /for \(filename, content\) in contents\.drain\(\.\.\)/
    proof { assert(rules_view(result@) =~= Seq::<RuleS>::empty()); }
//@ loop 1 binder it
//@ loop 1 invariant
        invariant parse_all_spec(fv, it.index@) == Ok::<Seq<RuleS>, (Seq<char>, PErr)>(rules_view(result@)),
//@ hint before 1/1 /result\.extend\(/
        let ghost k = it.index@; let ghost r0 = result@;
        proof { assert(fv[k] == (filename@, content@)); parse_all_err_sticky(fv, k + 1, fv.len() as int); }
//@ hint after 1/1 /result\.extend\(parse\(filename, content\)\?\);/
        proof {
            assert(result@ =~= r0 + pv);
            rules_view_add(r0, pv);
        }
//@ end
proof fn rules_view_add(a: Seq<Rule>, b: Seq<Rule>) ensures rules_view(a + b) =~= rules_view(a) + rules_view(b) {}
proof fn parse_all_err_sticky(files: Seq<(Seq<char>, Seq<char>)>, k: int, n: int) requires 0 <= k <= n <= files.len()
    ensures parse_all_spec(files, k) is Err ==> parse_all_spec(files, n) == parse_all_spec(files, k)
    decreases n - k
{ if k < n { parse_all_err_sticky(files, k, n - 1); } }

// ---------- property-facing lemmas over the format spec (no repo code) ----------
//# L-P-blank-line [C14]
// a blank line inside a section is rejected with UnexpectedEmptyLine at exactly that line
proof fn lemma_blank_line(lines: Seq<Seq<char>>, k: int)
    requires 0 <= k < lines.len(), run(lines, k).err is None, run(lines, k).mode != 0, lines[k].len() == 0
    ensures parse_spec(lines) == Err::<Seq<RuleS>, PErr>(PErr::EmptyLine(k + 1))
{ step_err_is_result(lines, k); }
//# L-P-extra-colon [C14]
// a lone ':' between rules is rejected with UnexpectedExtraColon at exactly that line
proof fn lemma_extra_colon(lines: Seq<Seq<char>>, k: int)
    requires 0 <= k < lines.len(), run(lines, k).err is None, run(lines, k).mode == 0, lines[k] == colon()
    ensures parse_spec(lines) == Err::<Seq<RuleS>, PErr>(PErr::ExtraColon(k + 1))
{ step_err_is_result(lines, k); }
//# L-P-truncated [C14]
// a file that ends inside a section is rejected with the end-of-file error of that section, at line count + 1
proof fn lemma_truncated(lines: Seq<Seq<char>>)
    requires run(lines, lines.len() as int).err is None, run(lines, lines.len() as int).mode != 0
    ensures parse_spec(lines) == (if run(lines, lines.len() as int).mode == 1 { Err::<Seq<RuleS>, PErr>(PErr::EofTargets(lines.len() as int + 1)) }
        else if run(lines, lines.len() as int).mode == 2 { Err::<Seq<RuleS>, PErr>(PErr::EofSources(lines.len() as int + 1)) }
        else { Err::<Seq<RuleS>, PErr>(PErr::EofCommand(lines.len() as int + 1)) })
{}
//# L-P-blank-between-rules [C14]
// blank lines between rules (also leading and trailing ones) change nothing
proof fn lemma_blank_between(st: PS, ln: int) requires st.err is None, st.mode == 0 ensures step(st, ln, Seq::<char>::empty()) == st {}
//# L-P-rule [C14]
// a complete rule (targets, ':', sources, ':', command lines, ':') whose two path sections are well-formed adds exactly one rule made of
// the written command lines in order and the paths of the two sections
proof fn lemma_rule_closes(st: PS, ln: int, tp: Seq<Seq<char>>, sp: Seq<Seq<char>>)
    requires st.err is None, st.mode == 3, bundle_paths(st.t) == Ok::<Seq<Seq<char>>, BErr>(tp), bundle_paths(st.s) == Ok::<Seq<Seq<char>>, BErr>(sp)
    ensures step(st, ln, colon()).rules == st.rules.push(RuleS { targets: tp, sources: sp, command: st.c }), step(st, ln, colon()).mode == 0, step(st, ln, colon()).err is None
{ assert(colon().len() != 0); }
} // verus!
fn main() {}
