//@ unit F
//@ default-props C04 C20 C02 C05 C01
// Unit F: the tail of build(): joining the rule threads, printing one status line per target, writing back rule histories
// and the file-state table, collecting errors.  Lifted mechanically from `let mut work_errors` to the end of build().
use vstd::prelude::*;
verus! {

//@ extract ticket.rs struct Ticket
//@ end
//@ extract blob.rs enum FileResolution
//@ end
//@ extract system/mod.rs struct CommandLineOutput
//@ end

// ---------- ghost output log ----------
enum OutEvent {
    Banner(Seq<char>, Seq<char>),      // status text, target path
    HistWrite(Seq<u8>),                // the history of the rule with this identity was written to disk
    TableInsert(Seq<Seq<char>>),       // the blob with these paths went back into the file-state table
    TableWrite,                        // the file-state table was written to disk
    Other,                             // command output / error text
}
struct Out { log: Seq<OutEvent> }

// ---------- stand-ins (ASSUMED opaque) ----------
struct RuleHistory { x: u8 }
struct WorkError { id: u64 }
struct OtherBuildError { x: u8 }
struct Blob { paths: Vec<String> }
struct FileStateVec { x: u8 }
impl Ticket { spec fn bytes(&self) -> Seq<u8> { self.sha@ } }
spec fn strs(v: Seq<String>) -> Seq<Seq<char>> { v.map_values(|l: String| l@) }
impl Blob {
    #[verifier::external_body] fn get_paths(self : &Self) -> (r: Vec<String>) ensures strs(r@) == strs(self.paths@), r@.len() == self.paths@.len() { unimplemented!() }
}
// work.rs WorkOption / WorkResult as the join loop sees them
enum WorkOption { SourceOnly, Resolutions(Vec<FileResolution>), CommandExecuted(CommandLineOutput) }
struct WorkResult { file_state_vec : FileStateVec, blob : Blob, work_option : WorkOption, rule_history : Option<RuleHistory> }
// build.rs::BuildError restricted to what the join loop distinguishes
enum BuildError { Canceled, WorkError(WorkError), WorkErrors(Vec<WorkError>), Weird, Channel(OtherBuildError) }
impl BuildError { spec fn is_channel_error(&self) -> bool { self is Channel } }

// std::thread::JoinHandle: `join` hands back what the thread body returned (a panicking thread gives Err)
struct JoinErr { x: u8 }
struct JoinHandle { r: Ghost<Option<Result<WorkResult, BuildError>>> }
impl JoinHandle {
    spec fn outcome(&self) -> Option<Result<WorkResult, BuildError>> { self.r@ }
    #[verifier::external_body]
    fn join(self) -> (r: Result<Result<WorkResult, BuildError>, JoinErr>)
        ensures r matches Ok(x) ==> self.outcome() == Some(x), r is Err ==> self.outcome() is None
    { unimplemented!() }
}
#[derive(Clone, Copy)]
enum Color { Green, Yellow, Cyan, Red, Magenta }      // (termcolor::Color is Copy)
trait Printer {
    fn print_single_banner_line(&mut self, banner_text : &str, banner_color : Color, path : &str, Tracked(out): Tracked<&mut Out>)
        ensures final(out).log == old(out).log.push(OutEvent::Banner(banner_text@, path@));
    // command output / error text: not part of what C20 speaks about
    fn print(&mut self, text : &str, Tracked(out): Tracked<&mut Out>) ensures *final(out) == *old(out);
    fn error(&mut self, text: &str, Tracked(out): Tracked<&mut Out>) ensures *final(out) == *old(out);
}
struct HistoryError { x: u8 }
struct History { x: u8 }
impl History {
    // ASSUMED: unit H proves what the write does to the disk; here it is one event.  The join loop panics if the write is
    // refused; that the file system accepts the write is an environment assumption (DESIGN.md C05).
    #[verifier::external_body]
    fn write_rule_history(&mut self, rule_ticket: Ticket, rule_history: RuleHistory, Tracked(out): Tracked<&mut Out>) -> (r: Result<(), HistoryError>)
        ensures r is Ok, final(out).log == old(out).log.push(OutEvent::HistWrite(rule_ticket.bytes()))
    { unimplemented!() }
}
struct CurrentFileStatesError { x: u8 }
struct CurrentFileStates { x: u8 }
impl CurrentFileStates {
    #[verifier::external_body]
    fn insert_blob(self : &mut Self, blob : Blob, Tracked(out): Tracked<&mut Out>) ensures final(out).log == old(out).log.push(OutEvent::TableInsert(strs(blob.paths@))) { unimplemented!() }
    #[verifier::external_body]
    fn to_file(&mut self, Tracked(out): Tracked<&mut Out>) -> (r: Result<(), CurrentFileStatesError>) ensures final(out).log == old(out).log.push(OutEvent::TableWrite) { unimplemented!() }
}
struct Elements { current_file_states : CurrentFileStates, history : History }
#[verifier::external_body] fn string_nonempty(s: &String) -> (r: bool) { s != "" }
#[verifier::external_body] fn result_text(code: &Option<i32>) -> (r: String) { unimplemented!() }

// ---------- what must be printed / written for one finished thread ----------
spec fn banner_of(res: FileResolution) -> Seq<char> {
    match res {
        FileResolution::Recovered => " Recovered"@,
        FileResolution::Downloaded => "Downloaded"@,
        FileResolution::AlreadyCorrect => "Up-to-date"@,
        FileResolution::NeedsRebuild => "  Outdated"@,
    }
}
// the status lines of one successful result: one per target, in target order
spec fn banners(opt: WorkOption, paths: Seq<Seq<char>>, k: int) -> Seq<OutEvent>
    decreases k
{
    if k <= 0 { Seq::empty() } else {
        banners(opt, paths, k - 1).push(match opt {
            WorkOption::Resolutions(v) => OutEvent::Banner(banner_of(v@[k - 1]), paths[k - 1]),
            WorkOption::CommandExecuted(_) => OutEvent::Banner("     Built"@, paths[k - 1]),
            WorkOption::SourceOnly => OutEvent::Other,
        })
    }
}
spec fn wellformed(r: WorkResult) -> bool { r.work_option matches WorkOption::Resolutions(v) ==> v@.len() == r.blob.paths@.len() }   // O-D-option-resolutions (unit D)


type Handle = (Option<Ticket>, JoinHandle);
// everything the join loop must do for one finished thread, in order: status lines, history write-back, table write-back
spec fn events_of(h: Handle) -> Seq<OutEvent> {
    match h.1.outcome() {
        Some(Ok(r)) => {
            let b = if r.work_option is SourceOnly { Seq::<OutEvent>::empty() } else { banners(r.work_option, strs(r.blob.paths@), r.blob.paths@.len() as int) };
            let hw = if h.0 is Some && r.rule_history is Some { seq![OutEvent::HistWrite(h.0->Some_0.bytes())] } else { Seq::<OutEvent>::empty() };
            b + hw + seq![OutEvent::TableInsert(strs(r.blob.paths@))]
        },
        _ => Seq::empty(),
    }
}
spec fn expected(hs: Seq<Handle>, k: int) -> Seq<OutEvent> decreases k { if k <= 0 { Seq::empty() } else { expected(hs, k - 1) + events_of(hs[k - 1]) } }
// the errors that must be reported: exactly one per failed rule / missing leaf, none for a cancelled rule
spec fn errors(hs: Seq<Handle>, k: int) -> Seq<WorkError>
    decreases k
{
    if k <= 0 { Seq::empty() } else {
        match hs[k - 1].1.outcome() { Some(Err(BuildError::WorkError(e))) => errors(hs, k - 1).push(e), _ => errors(hs, k - 1) }
    }
}
spec fn all_joined(hs: Seq<Handle>, k: int) -> bool { forall|j: int| 0 <= j < k ==> (#[trigger] hs[j]).1.outcome() is Some }

//@ extract build.rs fn build tail /let mut work_errors = Vec::new\(\);/
//@ props C04 C20 C02 C05 C01 C18 C07
//@ sig fn join_all<PrinterType : Printer>(handles: Vec<(Option<Ticket>, JoinHandle)>, mut elements: Elements, printer : &mut PrinterType, Tracked(out): Tracked<&mut Out>) -> (res: Result<(), BuildError>)
//@ addarg * /printer\.(print_single_banner_line|print|error)|elements\.history\.write_rule_history|elements\.current_file_states\.(insert_blob|to_file)/ Tracked(out)
//@ retype 1 /let mut work_errors = Vec::new\(\);/ => let mut work_errors : Vec<WorkError> = Vec::new();
//@ rewrite 1 /for \(i, path\) in work_result\.blob\.get_paths\(\)\.iter\(\)\.enumerate\(\)/ => let paths_v = work_result.blob.get_paths(); for i in 0..paths_v.len()
//@ insert after 1/1 /for \(i, path\) in work_result\.blob\.get_paths\(\)\.iter\(\)\.enumerate\(\)\s*\{/ => let path = &paths_v[i];
//@ insert before 1/1 /for path in work_result\.blob\.get_paths\(\)\.iter\(\)\s*\{/ => let paths_w = work_result.blob.get_paths();
//@ rewrite 1 /work_result\.blob\.get_paths\(\)\.iter\(\)(?!\.enumerate)/ => paths_w.iter()
//@ rewrite 1 /output\.out != ""/ => string_nonempty(&output.out)
//@ rewrite 1 /output\.err != ""/ => string_nonempty(&output.err)
//@ rewrite 1 /(?s)&format!\("RESULT: \{\}",\s*match output\.code\s*\{.*?\}\s*\)/ => &result_text(&output.code)
//@ rewrite * /panic!\("[^"]*", error\)/ => panic!()
//@ spec
    requires
        // every thread body returned Ok, a work error or Canceled: channel errors cannot happen (C05, lemma L2) -- otherwise the loop panics   //# O-F-unreachable-channel-error [C05]
        forall|j: int| 0 <= j < handles@.len() ==> ((#[trigger] handles@[j]).1.outcome() matches Some(Err(e)) ==> e is WorkError || e is Canceled),
        forall|j: int| 0 <= j < handles@.len() ==> ((#[trigger] handles@[j]).1.outcome() matches Some(Ok(r)) ==> wellformed(r)),
    ensures
        !all_joined(handles@, handles@.len() as int) ==> res matches Err(BuildError::Weird),
        // for EVERY finished thread, in spawn order: exactly one status line per target that matches what was done ('Built' iff the
        // command ran, else the per-target resolution), the rule's history written back iff it succeeded, its blob put back;
        // nothing for failed or cancelled rules; then the table is written                                                        //# O-F-banners-history-table [C20,C04,C02,C01,C18,C07]
        all_joined(handles@, handles@.len() as int) ==> final(out).log == old(out).log + expected(handles@, handles@.len() as int) + seq![OutEvent::TableWrite],
        // exactly one error per failed rule, in order; success iff there is none                                                 //# O-F-one-error [C04]
        all_joined(handles@, handles@.len() as int) ==> (res is Ok <==> errors(handles@, handles@.len() as int).len() == 0),
        all_joined(handles@, handles@.len() as int) ==> (res matches Err(e) ==> e matches BuildError::WorkErrors(v) && v@ == errors(handles@, handles@.len() as int)),
//@ loop 1 binder it
//@ loop 1 invariant
        invariant all_joined(handles@, it.index@),
            out.log == old(out).log + expected(handles@, it.index@),
            work_errors@ == errors(handles@, it.index@),
            forall|j: int| 0 <= j < handles@.len() ==> ((#[trigger] handles@[j]).1.outcome() matches Some(Err(e)) ==> e is WorkError || e is Canceled),
            forall|j: int| 0 <= j < handles@.len() ==> ((#[trigger] handles@[j]).1.outcome() matches Some(Ok(r)) ==> wellformed(r)),
//@ hint before 1/1 /match handle\.join\(\)/
        let ghost log_i = out.log; let ghost hi = handles@[it.index@]; let ghost k = it.index@;
        proof { assert(hi == (node_ticket, handle)); assert(old(out).log + expected(handles@, k) + Seq::<OutEvent>::empty() =~= old(out).log + expected(handles@, k)); }
//@ hint after 1/1 /Err\(_error\) => return Err\(BuildError::Weird\),\s*\}/
        proof {
            assert(expected(handles@, k + 1) == expected(handles@, k) + events_of(hi));
            assert(out.log =~= log_i + events_of(hi));
            assert(old(out).log + expected(handles@, k) + events_of(hi) =~= old(out).log + (expected(handles@, k) + events_of(hi)));
        }
//@ loop 2 invariant
                                    invariant paths_v@.len() == work_result.blob.paths@.len(), strs(paths_v@) == strs(work_result.blob.paths@), resolutions@.len() == paths_v@.len(),
                                        out.log == log_i + banners(WorkOption::Resolutions(resolutions), strs(paths_v@), i as int),
//@ loop 3 binder it3
//@ loop 3 invariant
                                    invariant strs(paths_w@) == strs(work_result.blob.paths@),
                                        out.log == log_i + banners(WorkOption::CommandExecuted(output), strs(paths_w@), it3.index@),
//@ end

// ================= the tail of clean(): joining the per-rule threads (no channels: a clean thread waits for nobody) =================
struct CleanHandle { r: Ghost<Option<Result<(), WorkError>>> }
impl CleanHandle {
    spec fn outcome(&self) -> Option<Result<(), WorkError>> { self.r@ }
    #[verifier::external_body]
    fn join(self) -> (r: Result<Result<(), WorkError>, JoinErr>)
        ensures r matches Ok(x) ==> self.outcome() == Some(x), r is Err ==> self.outcome() is None
    { unimplemented!() }
}
spec fn clean_errors(hs: Seq<CleanHandle>, k: int) -> Seq<WorkError>
    decreases k
{
    if k <= 0 { Seq::empty() } else { match hs[k - 1].outcome() { Some(Err(e)) => clean_errors(hs, k - 1).push(e), _ => clean_errors(hs, k - 1) } }
}
spec fn all_cleaned(hs: Seq<CleanHandle>, k: int) -> bool { forall|j: int| 0 <= j < k ==> (#[trigger] hs[j]).outcome() is Some }

//@ extract build.rs fn clean tail /let mut work_errors : Vec<WorkError> = Vec::new\(\);/
//@ props C04 C05 C10
//@ sig fn clean_join_all(handles: Vec<CleanHandle>) -> (res: Result<(), BuildError>)
//@ spec
    ensures
        // every thread is joined, in order; success exactly when every rule's clean succeeded; otherwise exactly one error per
        // failed rule, in rule order; a panicked thread is reported as such.  (No loop but the join loop: clean cannot hang.)      //# O-F-clean-join [C04,C05,C10]
        res is Ok <==> (all_cleaned(handles@, handles@.len() as int) && clean_errors(handles@, handles@.len() as int).len() == 0),
        res matches Err(BuildError::WorkErrors(v)) ==> all_cleaned(handles@, handles@.len() as int) && v@ == clean_errors(handles@, handles@.len() as int),
        res matches Err(e) ==> e is WorkErrors || e is Weird,
        res matches Err(BuildError::Weird) ==> !all_cleaned(handles@, handles@.len() as int),
//@ loop 1 binder it
//@ loop 1 invariant
        invariant all_cleaned(handles@, it.index@), work_errors@ == clean_errors(handles@, it.index@),
//@ end
} // verus!
fn main() {}
