//@ unit H
//@ default-props C11
// Unit H: the code that persists ruler's own state -- history.rs (write/read of rule histories) and current.rs (the
// file-state table).  Crash points are the mutating System primitives; see prelude/system_state.rs.
use vstd::prelude::*;
use std::collections::HashMap;
verus! {

//@ include prelude/world.rs

//@ extract system/mod.rs enum SystemError
//@ end
//@ extract system/mod.rs enum ReadWriteError
//@ end
//@ extract ticket.rs struct Ticket
//@ end
//@ extract blob.rs struct FileState
//@ end
//@ extract blob.rs struct FileStateVec
//@ end
//@ extract blob.rs struct FileInfo
//@ end
//@ extract blob.rs struct Blob
//@ end
//@ extract history.rs struct RuleHistory
//@ end
//@ extract history.rs struct History
//@ end
//@ extract history.rs enum HistoryError
//@ end
//@ extract current.rs struct CurrentFileStatesInside
//@ end
//@ extract current.rs struct CurrentFileStates
//@ end
//@ extract current.rs enum CurrentFileStatesError
//@ end
//@ extract cache.rs struct SysCache
//@ end
//@ extract directory.rs enum InitDirectoryError
//@ end
//@ extract directory.rs struct Elements
//@ end

//@ include prelude/system_state.rs

impl Ticket {
    spec fn bytes(&self) -> Seq<u8> { self.sha@ }
    #[verifier::external_body]
    fn human_readable(&self) -> (res: String)
//@ include shared/human_readable.spec
    { unimplemented!() }
}
// ASSUMED: `format!` helpers
#[verifier::external_body] fn fmt_slash(a: &String, b: &String) -> (r: String) ensures r@ == a@ + seq!['/'] + b@ { format!("{}/{}", a, b) }
#[verifier::external_body] fn fmt_tmp_string(a: &String) -> (r: String) ensures r@ == a@ + tmp_suffix() { format!("{}.tmp", a) }
#[verifier::external_body] fn fmt_tmp_str(a: &str) -> (r: String) ensures r@ == a@ + tmp_suffix() { format!("{}.tmp", a) }
#[verifier::external_body] fn io_error_string(e: &IoError) -> (r: String) { unimplemented!() }

// ASSUMED: bincode + serde (external crates): what is serialised decodes, and decodes to the same value;
// deserialisation succeeds exactly on bytes that decode
#[derive(Debug)]
struct BincodeError { x: u8 }
uninterp spec fn decode_h(b: Seq<u8>) -> RuleHistory;
uninterp spec fn decode_c(b: Seq<u8>) -> CurrentFileStatesInside;
uninterp spec fn serialisable_h(x: RuleHistory) -> bool;
#[verifier::external_body] fn bincode_serialize_h(x: &RuleHistory) -> (r: Result<Vec<u8>, BincodeError>)
    ensures r matches Ok(b) ==> decodes_h(b@) && decode_h(b@) == *x, r is Ok <==> serialisable_h(*x) { unimplemented!() }
#[verifier::external_body] fn bincode_deserialize_h(b: &Vec<u8>) -> (r: Result<RuleHistory, BincodeError>)
    ensures r is Ok <==> decodes_h(b@), r matches Ok(x) ==> x == decode_h(b@) { unimplemented!() }
// (serialising the in-memory table cannot fail: the code unwraps it)
#[verifier::external_body] fn bincode_serialize_c(x: &CurrentFileStatesInside) -> (r: Result<Vec<u8>, BincodeError>)
    ensures r is Ok, r matches Ok(b) ==> decodes_c(b@) && decode_c(b@) == *x { unimplemented!() }
#[verifier::external_body] fn bincode_deserialize_c(b: &Vec<u8>) -> (r: Result<CurrentFileStatesInside, BincodeError>)
    ensures r is Ok <==> decodes_c(b@), r matches Ok(x) ==> x == decode_c(b@) { unimplemented!() }

spec fn is_empty_hist(h: RuleHistory) -> bool { h.source_to_targets@ == Map::<Ticket, FileStateVec>::empty() }
impl RuleHistory {
    // ASSUMED here; verified in unit D (history.rs impl RuleHistory fn new)
    #[verifier::external_body]
    fn new() -> (res: RuleHistory) ensures is_empty_hist(res) { unimplemented!() }
}

impl<SystemType : System> History<SystemType> {
    spec fn hpath(&self, t: Ticket) -> Seq<char> { self.path@ + seq!['/'] + enc62_sha(t.bytes()) }
    // the history directory holds history files
    spec fn wf(&self) -> bool { forall|t: Ticket| state_kind(#[trigger] self.hpath(t)) == 1 }

//@ extract history.rs impl /History<SystemType>$/ fn write_rule_history
//@ props C11
//@ ret res
//@ param Tracked(w): Tracked<&mut World>
//@ addarg * /system\.(create_file|rename|is_file|open)|file\.write_all/ Tracked(w)
//@ rewrite 1 /format!\("\{\}\/\{\}", self\.path, rule_ticket\)/ => fmt_slash(&self.path, &rule_ticket.human_readable())
//@ rewrite * /format!\("\{\}\.tmp", rule_history_file_path\)/ => fmt_tmp_string(&rule_history_file_path)
//@ rewrite 1 /bincode::serialize\(&rule_history\)/ => bincode_serialize_h(&rule_history)
//@ spec
        requires old(self).wf(), state_ok(*old(w)),
        ensures
            // at every crash point inside (each primitive's precondition) and at exit, no state file is empty or half written
            state_ok(*final(w)),                                                                     //# O-H-state-ok [C11]
            only_changed(*old(w), *final(w), old(self).hpath(rule_ticket), old(self).hpath(rule_ticket) + tmp_suffix()),   //# O-H-write-frame [C11,C09]
            res is Ok ==> final(w).files.contains_key(old(self).hpath(rule_ticket))                 //# O-H-written [C11]
                && decode_h(final(w).files[old(self).hpath(rule_ticket)].content) == rule_history,
            // PROGRESS: the write fails only when a System primitive failed (or the value cannot be serialised) -- whatever lies
            // around in the directory, e.g. the `.tmp` sibling a killed run left behind, does not make it fail                //# O-H-write-progress [C11]
            res is Err ==> final(w).faults > old(w).faults || !serialisable_h(rule_history),
//@ hint start
        let ghost hp = self.hpath(rule_ticket);
//@ hint after 1/1 /let rule_history_file_path = [^;]*;/
        proof { tmp_is_not_state(rule_history_file_path@); empty_does_not_decode(); assert(rule_history_file_path@ == hp); }
//@ end

//@ extract history.rs impl /History<SystemType>$/ fn read_rule_history
//@ props C11
//@ ret res
//@ param Tracked(w): Tracked<&mut World>
//@ addarg * /system\.(create_file|rename|is_file|open)/ Tracked(w)
//@ rewrite 1 /format!\("\{\}\/\{\}", self\.path, rule_ticket\)/ => fmt_slash(&self.path, &rule_ticket.human_readable())
//@ rewrite 1 /bincode::deserialize\(&content\)/ => bincode_deserialize_h(&content)
//@ retype 1 /let mut content = Vec::new\(\);/ => let mut content : Vec<u8> = Vec::new();
//@ spec-file shared/read_rule_history.spec
//@ end
}

//@ extract current.rs fn write_file
//@ props C11
//@ ret res
//@ param Tracked(w): Tracked<&mut World>
//@ addarg * /system\.(create_file|rename|is_file|open)|file\.write_all/ Tracked(w)
//@ rewrite * /format!\("\{\}\.tmp", file_path\)/ => fmt_tmp_str(file_path)
//@ rewrite 1 /format!\("\{\}", error\)/ => io_error_string(&error)
//@ spec
    requires state_ok(*old(w)), decodes_as(state_kind(file_path@), content@),
    ensures state_ok(*final(w)),                                                                     //# O-H-state-ok-table [C11]
        only_changed(*old(w), *final(w), file_path@, file_path@ + tmp_suffix()),                    //# O-H-write-frame-table [C11,C09]
        res is Ok ==> final(w).files.contains_key(file_path@) && final(w).files[file_path@].content == content@,   //# O-H-written-table [C11]
        res is Err ==> final(w).faults > old(w).faults,                                              //# O-H-write-progress-table [C11]
//@ hint start
    proof { tmp_is_not_state(file_path@); empty_does_not_decode(); }
//@ end


impl<SystemType : System> CurrentFileStates<SystemType> {
    spec fn wf(&self) -> bool { state_kind(self.path@) == 2 }

//@ extract current.rs impl /CurrentFileStates<SystemType>$/ fn to_file
//@ props C11
//@ ret res
//@ param Tracked(w): Tracked<&mut World>
//@ addarg 1 /write_file/ Tracked(w)
//@ rewrite 1 /bincode::serialize\(&self\.inside\)/ => bincode_serialize_c(&self.inside)
//@ spec
        requires old(self).wf(), state_ok(*old(w)),
        ensures final(self).wf(), final(self).path@ == old(self).path@, final(self).inside == old(self).inside,
            state_ok(*final(w)),                                                                     //# O-H-state-ok-to-file [C11]
            only_changed(*old(w), *final(w), old(self).path@, old(self).path@ + tmp_suffix()),       //# O-H-to-file-frame [C11,C09]
            res is Ok ==> final(w).files.contains_key(old(self).path@) && decode_c(final(w).files[old(self).path@].content) == old(self).inside,   //# O-H-table-written [C11]
            res matches Err(e) ==> e is CannotRecordHistoryFile,
            res is Err ==> final(w).faults > old(w).faults,                                          //# O-H-to-file-progress [C11]
//@ end

//@ extract current.rs impl /CurrentFileStates<SystemType>$/ fn from_inside
//@ props C11
//@ ret res
//@ spec
        ensures res.path@ == path@, res.inside == inside,
//@ end

//@ extract current.rs impl /CurrentFileStates<SystemType>$/ fn read_all_current_file_states_from_file
//@ props C11
//@ ret res
//@ param Tracked(w): Tracked<&mut World>
//@ addarg * /system\.(create_file|rename|is_file|open)/ Tracked(w)
//@ rewrite 1 /bincode::deserialize\(&content\)/ => bincode_deserialize_c(&content)
//@ retype 1 /let mut content = Vec::new\(\);/ => let mut content : Vec<u8> = Vec::new();
//@ spec
        ensures *final(w) == *old(w),
            // a damaged table is rejected, never misread                                             //# O-H-reject-table [C11]
            res matches Ok(c) ==> old(w).files.contains_key(current_file_statesfile_path@)
                && decodes_c(old(w).files[current_file_statesfile_path@].content) && c.inside == decode_c(old(w).files[current_file_statesfile_path@].content),
            res matches Ok(c) ==> c.path@ == current_file_statesfile_path@,
            // STATE_OK on disk means the table is accepted whenever it can be opened and read                       //# O-H-accept-table [C11]
            (old(w).files.contains_key(current_file_statesfile_path@) && decodes_c(old(w).files[current_file_statesfile_path@].content)) ==> !(res matches Err(CurrentFileStatesError::CannotInterpretFile(_))),
//@ end

//@ extract current.rs impl /CurrentFileStates<SystemType>$/ fn new
//@ props C11
//@ ret res
//@ rewrite 1 /HashMap::new\(\)/ => HashMap::<String, FileState>::new()
//@ spec
        ensures res.path@ == path@, res.inside.file_states@ == Map::<String, FileState>::empty(),
//@ end

//@ extract current.rs impl /CurrentFileStates<SystemType>$/ fn from_file
//@ props C11 C09
//@ ret res
//@ param Tracked(w): Tracked<&mut World>
//@ addarg * /system\.is_file|Self::read_all_current_file_states_from_file|current_file_states\.to_file/ Tracked(w)
//@ spec
        requires state_kind(path@) == 2, state_ok(*old(w)),
        ensures state_ok(*final(w)),                                                                   //# O-H-from-file-state-ok [C11]
            only_changed(*old(w), *final(w), path@, path@ + tmp_suffix()),                             //# O-H-from-file-frame [C11,C09]
            // a table file that is there is only read; a state that is STATE_OK is never rejected: an existing table decodes     //# O-H-table-not-fatal [C11]
            old(w).files.contains_key(path@) ==> *final(w) == *old(w),
            !(res matches Err(CurrentFileStatesError::CannotInterpretFile(_))),
            res matches Ok(c) ==> c.path@ == path@ && c.wf(),
            res matches Ok(c) ==> (old(w).files.contains_key(path@) ==> c.inside == decode_c(old(w).files[path@].content)),
            res matches Ok(c) ==> (!old(w).files.contains_key(path@) ==> c.inside.file_states@ == Map::<String, FileState>::empty()),
            // PROGRESS: with no table yet (first run, or a run killed before the table's first rename) the fresh table is written,
            // and that fails only when a System primitive failed -- not because of what a killed run left next to it              //# O-H-from-file-progress [C11]
            (!old(w).files.contains_key(path@) && res is Err) ==> final(w).faults > old(w).faults,
//@ end

// ---------- the in-memory table: handing a rule's entries out and taking them back ----------
//@ extract current.rs impl /CurrentFileStates<SystemType>$/ fn insert_file_state
//@ props C18 C07
//@ spec
        requires vstd::std_specs::hash::obeys_key_model::<String>(),
        ensures final(self).inside.file_states@ == old(self).inside.file_states@.insert(target_path, file_state), final(self).path == old(self).path,
//@ end

//@ extract current.rs impl /CurrentFileStates<SystemType>$/ fn insert_blob
//@ props C18 C07
//@ attr #[verifier::loop_isolation(false)]
//@ rewrite 1 /blob\.get_file_infos\(\)\.into_iter\(\)/ => blob.get_file_infos()
//@ spec
        requires vstd::std_specs::hash::obeys_key_model::<String>(),
        ensures
            // the table takes over every (path, state) of the blob handed back, in order, and nothing else changes           //# O-H-insert-blob [C18,C07]
            final(self).inside.file_states@ == insert_all(old(self).inside.file_states@, blob.file_infos@, blob.file_infos@.len() as int), final(self).path == old(self).path,
//@ loop 1 binder it
//@ loop 1 invariant
            invariant self.inside.file_states@ == insert_all(old(self).inside.file_states@, blob.file_infos@, it.index@), self.path == old(self).path,
//@ end
}
// the table after the first k entries of a blob went back into it
spec fn insert_all(t: Map<String, FileState>, infos: Seq<FileInfo>, k: int) -> Map<String, FileState> decreases k { if k <= 0 { t } else { insert_all(t, infos, k - 1).insert(infos[k - 1].path, infos[k - 1].file_state) } }
impl Blob {
    // ASSUMED (R8): the derived Clone of Vec<FileInfo> copies
    #[verifier::external_body] fn get_file_infos(self : &Self) -> (r: Vec<FileInfo>) ensures r@ == self.file_infos@ { unimplemented!() }
}
// ASSUMED (R8): a String key is determined by its characters; HashMap<String, V>::remove with a &str key
uninterp spec fn skey(s: Seq<char>) -> String;
#[verifier::external_body] proof fn skey_axioms() ensures forall|s: Seq<char>| #[trigger] skey(s)@ == s, forall|x: String| #[trigger] skey(x@) == x {}
#[verifier::external_body]
fn map_remove_str(m: &mut HashMap<String, FileState>, k: &str) -> (r: Option<FileState>)
    ensures final(m)@ == old(m)@.remove(skey(k@)), r == (if old(m)@.contains_key(skey(k@)) { Some(old(m)@[skey(k@)]) } else { None::<FileState> }),
{ m.remove(k) }
#[verifier::external_body]
fn map_get_str<'a>(m: &'a mut HashMap<String, FileState>, k: &str) -> (r: Option<&'a FileState>)
    ensures final(m)@ == old(m)@, r == (if old(m)@.contains_key(skey(k@)) { Some(&old(m)@[skey(k@)]) } else { None::<&FileState> }),
{ m.get(k) }
impl FileState {
    // ASSUMED here, PROVED in unit D (FileState::empty: timestamp 0, hash of the empty content, not executable)
    #[verifier::external_body] fn empty() -> (r: FileState) ensures r.timestamp == 0, !r.executable { unimplemented!() }
}
// ASSUMED (R8): the derived Clone of FileState copies
impl Clone for FileState { #[verifier::external_body] fn clone(&self) -> (r: Self) ensures r == *self { unimplemented!() } }
// closure #1 of CurrentFileStates::take_blob: the entry of one path is taken OUT of the table (take_blob applies it to every path,
// through Blob::from_paths -- iterator map/collect over an FnMut, outside Verus' reach: R4)
//@ extract current.rs impl /CurrentFileStates<SystemType>$/ fn take_blob closure 1
//@ props C18 C07 C04 C08
//@ sig fn take_one<SystemType: System>(this: &mut CurrentFileStates<SystemType>, path: &str) -> (res: FileState)
//@ rewrite * /self\.inside\.file_states\.(remove|get)\(path\)/ => map_\1_str(&mut this.inside.file_states, path)
//@ spec
    ensures
        // what a rule's thread is handed is no longer remembered by the table: a rule that then fails (its blob is not handed back)
        // leaves nothing remembered about its targets, whatever it did to them                                       //# O-H-take-forgets [C18,C07,C04,C08]
        !final(this).inside.file_states@.contains_key(skey(path@)),
        final(this).inside.file_states@ == old(this).inside.file_states@.remove(skey(path@)), final(this).path == old(this).path,
        // the entry handed out is the remembered one, or the empty state                                              //# O-H-take-entry [C18]
        old(this).inside.file_states@.contains_key(skey(path@)) ==> res == old(this).inside.file_states@[skey(path@)],
        !old(this).inside.file_states@.contains_key(skey(path@)) ==> res.timestamp == 0 && !res.executable,
//@ end

// ---------- directory.rs: what every invocation does first ----------
struct History2 { x: u8 }
#[verifier::external_body] fn fmt_cache(d: &str) -> (r: String) ensures r@ == d@ + "/cache"@ { format!("{}/cache", d) }
#[verifier::external_body] fn fmt_history(d: &str) -> (r: String) ensures r@ == d@ + "/history"@ { format!("{}/history", d) }
#[verifier::external_body] fn fmt_table(d: &str) -> (r: String) ensures r@ == d@ + "/current_file_states"@ { format!("{}/current_file_states", d) }
// ASSUMED (names): "<dir>/current_file_states" is the file-state table
#[verifier::external_body] proof fn table_name_kind(d: Seq<char>) ensures state_kind(d + "/current_file_states"@) == 2 {}
#[verifier::external_body] fn str_to_string(s: &str) -> (r: String) ensures r@ == s@ { s.to_string() }
impl<SystemType : System> SysCache<SystemType> {
//@ extract cache.rs impl /SysCache<SystemType>$/ fn new
//@ props C11 C09
//@ ret res
//@ rewrite 1 /path\.to_string\(\)/ => str_to_string(path)
//@ spec
        ensures res.path@ == path@,
//@ end
}
impl<SystemType : System> History<SystemType> {
//@ extract history.rs impl /History<SystemType>$/ fn new
//@ props C11 C09
//@ ret res
//@ rewrite 1 /path\.to_string\(\)/ => str_to_string(path)
//@ spec
        ensures res.path@ == path@,
//@ end
}
// the three directories of ruler's own state
spec fn own_dirs(d: Seq<char>) -> Set<Seq<char>> { set![d, d + "/cache"@, d + "/history"@] }

//@ extract directory.rs fn init
//@ props C11 C09 C05
//@ ret res
//@ param Tracked(w): Tracked<&mut World>
//@ addarg * /system\.(is_dir|create_dir)|CurrentFileStates::from_file/ Tracked(w)
//@ rewrite 1 /format!\("\{\}\/cache", directory\)/ => fmt_cache(directory)
//@ rewrite 1 /format!\("\{\}\/history", directory\)/ => fmt_history(directory)
//@ rewrite 1 /format!\("\{\}\/current_file_states", directory\)/ => fmt_table(directory)
//@ spec
    requires state_ok(*old(w)),
    ensures
        state_ok(*final(w)),                                                                            //# O-H-init-state-ok [C11]
        // only ruler's own directory is touched: no directory but the three of its own appears, no file but the table (and its
        // temporary) changes -- and an existing table is only read                                                             //# O-H-init-frame [C09,C11]
        same_consts(*old(w), *final(w)), final(w).execs == old(w).execs,
        old(w).dirs.subset_of(final(w).dirs), final(w).dirs.subset_of(old(w).dirs.union(own_dirs(directory@))),
        forall|x: Seq<char>| #![trigger final(w).files[x]] #![trigger final(w).files.contains_key(x)] x != directory@ + "/current_file_states"@ && x != directory@ + "/current_file_states"@ + tmp_suffix() ==>
            (old(w).files.contains_key(x) == final(w).files.contains_key(x) && (old(w).files.contains_key(x) ==> old(w).files[x] == final(w).files[x])),
        // on success ruler's three directories exist -- whichever of them were there before (a kill between two mkdirs leaves some)   //# O-H-init-dirs [C11,C05]
        res is Ok ==> own_dirs(directory@).subset_of(final(w).dirs),
        // the state left by a kill is never fatal: whenever the table on disk decodes (STATE_OK), it is accepted                    //# O-H-init-not-fatal [C11]
        !(res matches Err(InitDirectoryError::FailedToReadCurrentFileStates(CurrentFileStatesError::CannotInterpretFile(_)))),
        // PROGRESS: a directory error is reported only when a mkdir really failed                                                    //# O-H-init-progress [C11,C05]
        (res matches Err(e) && !(e is FailedToReadCurrentFileStates)) ==> final(w).faults > old(w).faults,
        res matches Ok(e) ==> e.cache.path@ == directory@ + "/cache"@ && e.history.path@ == directory@ + "/history"@ && e.current_file_states.path@ == directory@ + "/current_file_states"@,
        res matches Ok(e) ==> (old(w).files.contains_key(directory@ + "/current_file_states"@) ==> e.current_file_states.inside == decode_c(old(w).files[directory@ + "/current_file_states"@].content)),
//@ hint start
    proof { table_name_kind(directory@); }
//@ end
} // verus!
fn main() {}
