//@ unit G
//@ default-props C01
// Unit G: the SPAWN LOOPS of build() and clean() -- the statements between `let mut handles = Vec::new();` and the join loop,
// lifted as functions of their free variables.  The thread closures inside them are replaced, mechanically, by their capture
// lists (`closure-call`): the closure BODIES are items of their own (unit E: closures #1 and #2 of build(); unit D: closure #1 of
// clean()), the spawned thread is modelled by a handle that remembers what it was given (`thread::spawn` itself is external, R7).
// What is proved here: every element of the plan gets exactly one thread, in plan order, and each thread is handed ITS OWN
// resources -- the remembered states of its own targets taken out of the table, the channel ends that ChannelPack::new made for it
// (unit E: wiring), the history file read under its own rule ticket, its own command.
use vstd::prelude::*;
use std::collections::HashMap;
verus! {

trait System : Sized + Clone {}

//@ extract ticket.rs struct Ticket
//@ end
//@ extract blob.rs struct FileState
//@ end
//@ extract blob.rs struct FileInfo
//@ end
//@ extract blob.rs struct Blob
//@ end
//@ extract current.rs struct CurrentFileStatesInside
//@ end
//@ extract current.rs struct CurrentFileStates
//@ end
//@ extract cache.rs struct SysCache
//@ end
//@ extract history.rs struct History
//@ end
//@ extract directory.rs struct Elements
//@ end
//@ extract sort.rs enum SourceIndex
//@ end
//@ extract sort.rs struct Node
//@ end
//@ extract sort.rs struct NodePack
//@ end

// ASSUMED (R8): the derived Clone of SysCache copies
impl<SystemType : System> Clone for SysCache<SystemType> { #[verifier::external_body] fn clone(&self) -> (r: Self) ensures r == *self { unimplemented!() } }

// ASSUMED (R8): `v.drain(..)` hands out every element of v, in order, and leaves v empty
#[verifier::external_body]
fn drain_all<T>(v: &mut Vec<T>) -> (r: Vec<T>) ensures r@ == old(v)@, final(v)@.len() == 0 { v.drain(..).collect() }

// ---- the table hand-out.  ASSUMED here: `take_blob` applies its closure (PROVED in unit H: O-H-take-forgets, O-H-take-entry) to every
// path in order (Blob::from_paths: iterator map / collect over an FnMut, outside Verus' reach: R4) ----
spec fn table_after(t: Map<String, FileState>, paths: Seq<String>, k: int) -> Map<String, FileState>
    decreases k { if k <= 0 { t } else { table_after(t, paths, k - 1).remove(paths[k - 1]) } }
spec fn is_empty_state(s: FileState) -> bool { s.timestamp == 0 && !s.executable }
// the blob handed out for `paths` from table t: path by path, the remembered state (or the empty state), each entry taken once
spec fn blob_of(b: Blob, t: Map<String, FileState>, paths: Seq<String>) -> bool {
    &&& b.file_infos@.len() == paths.len()
    &&& forall|i: int| 0 <= i < paths.len() ==> (#[trigger] b.file_infos@[i]).path == paths[i]
            && (table_after(t, paths, i).contains_key(paths[i]) ==> b.file_infos@[i].file_state == table_after(t, paths, i)[paths[i]])
            && (!table_after(t, paths, i).contains_key(paths[i]) ==> is_empty_state(b.file_infos@[i].file_state))
}
impl<SystemType : System> CurrentFileStates<SystemType> {
    spec fn table(&self) -> Map<String, FileState> { self.inside.file_states@ }
    #[verifier::external_body]
    fn take_blob(self : &mut Self, paths : Vec<String>) -> (b: Blob)
        ensures blob_of(b, old(self).table(), paths@), final(self).table() == table_after(old(self).table(), paths@, paths@.len() as int),
            final(self).path == old(self).path, final(self).system_box == old(self).system_box,
    { unimplemented!() }
}

// ---- the real BuildError (its payload types are opaque here: only which variant is built, and from what, matters) ----
struct RecvError { x: u8 }
struct SendError<T> { x: Ghost<Option<T>> }
struct CurrentFileStatesError { x: u8 }
mod io { pub struct Error { pub x: u8 } }
struct SystemError { x: u8 }
struct WorkError { x: u8 }
struct ParseError { x: u8 }
struct TopologicalSortError { x: u8 }
struct HistoryError { x: u8 }
struct DownloadUrlsError { x: u8 }
//@ extract packet.rs struct Packet
//@ end
//@ extract packet.rs enum PacketError
//@ end
//@ extract build.rs enum BuildError
//@ end

// ================= clean(): one thread per rule of the plan =================
// the handle of a spawned clean thread remembers what the thread was given (`thread::spawn` is external: R7)
struct CleanHandle<SystemType : System> { job: Ghost<(Blob, SystemType, SysCache<SystemType>)> }
#[verifier::external_body]
fn spawn_clean<SystemType : System>(job: (Blob, SystemType, SysCache<SystemType>)) -> (h: CleanHandle<SystemType>)
    ensures h.job@ == job
{ unimplemented!() }

// the table after the first k threads of the spawn order took their paths' entries
spec fn table_upto(t: Map<String, FileState>, lists: Seq<Seq<String>>, k: int) -> Map<String, FileState>
    decreases k { if k <= 0 { t } else { table_after(table_upto(t, lists, k - 1), lists[k - 1], lists[k - 1].len() as int) } }
spec fn clean_lists(nodes: Seq<Node>) -> Seq<Seq<String>> { Seq::new(nodes.len(), |i: int| nodes[i].targets@) }

//@ extract build.rs fn clean range /let mut handles = Vec::new\(\);/ .. /let mut work_errors/
//@ props C10 C05 C04
//@ sig fn clean_spawn_all<SystemType : System + 'static>(system: &SystemType, elements: &mut Elements<SystemType>, node_pack: &mut NodePack) -> (handles: Vec<CleanHandle<SystemType>>)
//@ close handles
//@ insert before 1/1 /for node in/ => let drained = drain_all(&mut node_pack.nodes);
//@ rewrite 1 /node_pack\.nodes\.drain\(\.\.\)/ => drained
//@ closure-call 1 => (blob, system_clone, local_cache_clone)
//@ retype 1 /let mut handles = Vec::new\(\);/ => let mut handles : Vec<CleanHandle<SystemType>> = Vec::new();
//@ rewrite 1 /thread::spawn\(/ => spawn_clean(
//@ spec
    ensures
        // every rule of the plan gets exactly one clean thread, in plan order, on the remembered states of ITS OWN targets        //# O-G-clean-all-rules [C10,C04]
        handles@.len() == old(node_pack).nodes@.len(),
        forall|i: int| 0 <= i < handles@.len() ==> blob_of((#[trigger] handles@[i]).job@.0, table_upto(old(elements).current_file_states.table(), clean_lists(old(node_pack).nodes@), i), old(node_pack).nodes@[i].targets@),
        // ... working with the one cache of this invocation                                                                      //# O-G-clean-cache [C10,C09]
        forall|i: int| 0 <= i < handles@.len() ==> (#[trigger] handles@[i]).job@.2 == old(elements).cache,
        final(elements).cache == old(elements).cache, final(elements).history == old(elements).history,
//@ loop 1 binder it
//@ loop 1 invariant
        invariant
            drained@ == old(node_pack).nodes@,
            handles@.len() == it.index@,
            elements.cache == old(elements).cache, elements.history == old(elements).history,
            elements.current_file_states.table() == table_upto(old(elements).current_file_states.table(), clean_lists(old(node_pack).nodes@), it.index@),
            forall|i: int| 0 <= i < handles@.len() ==> blob_of((#[trigger] handles@[i]).job@.0, table_upto(old(elements).current_file_states.table(), clean_lists(old(node_pack).nodes@), i), old(node_pack).nodes@[i].targets@),
            forall|i: int| 0 <= i < handles@.len() ==> (#[trigger] handles@[i]).job@.2 == old(elements).cache,
//@ end

// ================= get_nodes(): the plan both build() and clean() work from =================
//@ extract rule.rs struct Rule
//@ end
// ASSUMED here (each is under contract in its own unit: parse_all in unit P, the sorter in unit S; reading the rules files goes
// through the assumed System contract): what they return is a function of their arguments
uninterp spec fn files_read(paths: Seq<String>) -> Result<Seq<(String, String)>, BuildError>;
uninterp spec fn parsed(texts: Seq<(String, String)>) -> Result<Seq<Rule>, ParseError>;
uninterp spec fn plan_for(rules: Seq<Rule>, goal: Seq<char>) -> Result<NodePack, TopologicalSortError>;
uninterp spec fn plan_for_all(rules: Seq<Rule>) -> Result<NodePack, TopologicalSortError>;
#[verifier::external_body]
fn read_all_rules_files_to_strings<SystemType : System>(system : &SystemType, rulefile_paths : Vec<String>) -> (r: Result<Vec<(String, String)>, BuildError>)
    ensures (match r { Ok(v) => files_read(rulefile_paths@) == Ok::<Seq<(String, String)>, BuildError>(v@), Err(e) => files_read(rulefile_paths@) == Err::<Seq<(String, String)>, BuildError>(e) })
{ unimplemented!() }
#[verifier::external_body]
fn parse_all(contents : Vec<(String, String)>) -> (r: Result<Vec<Rule>, ParseError>)
    ensures (match r { Ok(v) => parsed(contents@) == Ok::<Seq<Rule>, ParseError>(v@), Err(e) => parsed(contents@) == Err::<Seq<Rule>, ParseError>(e) })
{ unimplemented!() }
#[verifier::external_body]
fn topological_sort(rules : Vec<Rule>, goal_target : &str) -> (r: Result<NodePack, TopologicalSortError>)
    ensures r == plan_for(rules@, goal_target@)
{ unimplemented!() }
#[verifier::external_body]
fn topological_sort_all(rules : Vec<Rule>) -> (r: Result<NodePack, TopologicalSortError>)
    ensures r == plan_for_all(rules@)
{ unimplemented!() }

//@ extract build.rs fn get_nodes
//@ props C01 C02 C09 C10 C12
//@ ret res
//@ spec
    ensures
        // the plan is the sorter's plan for the rules parsed from exactly the given files: restricted to the goal when one is given,
        // the whole graph otherwise; a file that cannot be read, a parse error and a sorter error each come back as such          //# O-G-plan-of-given-files [C01,C02,C09,C10,C12]
        files_read(rulefile_paths@) matches Err(e) ==> res == Err::<NodePack, BuildError>(e),
        files_read(rulefile_paths@) matches Ok(texts) ==> (match parsed(texts) {
            Err(pe) => res matches Err(BuildError::RuleFileFailedToParse(e)) && e == pe,
            Ok(rules) => (match goal_target_opt {
                Some(goal) => (match plan_for(rules, goal@) { Ok(pack) => res == Ok::<NodePack, BuildError>(pack), Err(se) => res matches Err(BuildError::TopologicalSortFailed(e)) && e == se }),
                None => (match plan_for_all(rules) { Ok(pack) => res == Ok::<NodePack, BuildError>(pack), Err(se) => res matches Err(BuildError::TopologicalSortFailed(e)) && e == se }),
            }),
        }),
//@ end

// ---------- reading the rules files (the real function behind the stub that get_nodes is verified against) ----------
// what is on disk does not change while the rules files are read: the bytes of a path, if it can be opened
uninterp spec fn file_bytes(path: Seq<char>) -> Option<Seq<u8>>;
uninterp spec fn utf8(s: Seq<char>) -> Seq<u8>;
uninterp spec fn is_utf8(b: Seq<u8>) -> bool;
struct RulesFile { c: Ghost<Seq<u8>> }
impl RulesFile {
    #[verifier::external_body]
    fn read_to_end(&mut self, buf: &mut Vec<u8>) -> (r: Result<usize, io::Error>)
        ensures r is Ok ==> final(buf)@ == old(buf)@ + old(self).c@
    { unimplemented!() }
}
trait RulesSystem : Sized {
    fn open(&self, path: &str) -> (r: Result<RulesFile, SystemError>)
        ensures r matches Ok(f) ==> file_bytes(path@) == Some(f.c@);
}
struct Utf8Error { x: u8 }
#[verifier::external_body] fn from_utf8(b: &Vec<u8>) -> (r: Result<&str, Utf8Error>) ensures r is Ok <==> is_utf8(b@), r matches Ok(t) ==> utf8(t@) == b@ { unimplemented!() }
#[verifier::external_body] fn str_to_string(s: &str) -> (r: String) ensures r@ == s@ { s.to_string() }
#[verifier::external_body] fn string_to_string(s: &String) -> (r: String) ensures r == *s { s.clone() }
// the i-th entry is (the i-th path, the text of that file)
spec fn texts_of(paths: Seq<String>, v: Seq<(String, String)>, k: int) -> bool {
    forall|i: int| 0 <= i < k ==> (#[trigger] v[i]).0 == paths[i] && file_bytes(paths[i]@) == Some(utf8(v[i].1@))
}
//@ extract build.rs fn read_all_rules_files_to_strings
//@ props C01 C05
//@ rename read_all_rules_files_real
//@ attr #[verifier::loop_isolation(false)]
//@ ret res
//@ retype 1 /SystemType : System/ => SystemType : RulesSystem
//@ insert before 1/1 /for rulefile_path in/ => let drained = drain_all(&mut rulefile_paths);
//@ rewrite 1 /rulefile_paths\.drain\(\.\.\)/ => drained
//@ retype 1 /let mut rule_content = Vec::new\(\);/ => let mut rule_content : Vec<u8> = Vec::new();
//@ rewrite 1 /rule_text\.to_string\(\)/ => str_to_string(rule_text)
//@ rewrite * /rulefile_path\.to_string\(\)/ => string_to_string(&rulefile_path)
//@ spec
    ensures
        // one (path, text) pair per rules file, in the order the files were named, each text being what is in that file              //# O-G-rules-texts [C01]
        res matches Ok(v) ==> v@.len() == rulefile_paths@.len() && texts_of(rulefile_paths@, v@, v@.len() as int),
        // the first file that cannot be opened, read or decoded ends the reading with an error that names it (the UTF-8 error names no file) //# O-G-rules-errors [C05]
        res matches Err(e) ==> (e is RuleFileFailedToOpen || e is RuleFileFailedToRead || e is RuleFileNotUTF8),
        res matches Err(BuildError::RuleFileFailedToOpen(p, _)) ==> exists|i: int| 0 <= i < rulefile_paths@.len() && p == #[trigger] rulefile_paths@[i],
        res matches Err(BuildError::RuleFileFailedToRead(p, _)) ==> exists|i: int| 0 <= i < rulefile_paths@.len() && p == #[trigger] rulefile_paths@[i],
//@ hint start
    let ghost paths0 = rulefile_paths@;
//@ loop 1 binder it
//@ loop 1 invariant
        invariant drained@ == paths0, result@.len() == it.index@, texts_of(paths0, result@, it.index@),
//@ hint before 1/1 /match system\.open\(/
        proof { assert(paths0[it.index@ as int] == rulefile_path); }
//@ end

// ================= the HEADS of build() and clean(): everything before the spawn loops =================
//@ extract build.rs struct BuildParams
//@ end
//@ extract directory.rs enum InitDirectoryError
//@ end
impl DownloadUrls {
//@ extract build.rs impl /DownloadUrls$/ fn new
//@ props C01
//@ ret res
//@ spec
        ensures res.urls@.len() == 0,
//@ end
}
// ASSUMED here (each is under contract elsewhere: directory::init in unit H, get_nodes above, ChannelPack::new in unit E; reading
// the url list goes through toml, external): what they return is a function of their arguments (and of the files they read, which
// nothing changes between these calls -- init creates ruler's own directories only: O-H-init-frame)
uninterp spec fn init_res<SystemType : System>(dir: Seq<char>) -> Result<Elements<SystemType>, InitDirectoryError>;
uninterp spec fn urls_res(path: Seq<char>) -> Result<DownloadUrls, DownloadUrlsError>;
uninterp spec fn nodes_res(paths: Seq<String>, goal: Option<String>) -> Result<NodePack, BuildError>;
uninterp spec fn wired_pack(np: NodePack) -> ChannelPack;
#[verifier::external_body]
fn directory_init<SystemType : System>(system : &mut SystemType, directory : &str) -> (r: Result<Elements<SystemType>, InitDirectoryError>)
    ensures r == init_res::<SystemType>(directory@)
{ unimplemented!() }
#[verifier::external_body]
fn read_download_urls<SystemType : System>(system : &SystemType, path_str : &str) -> (r: Result<DownloadUrls, DownloadUrlsError>)
    ensures r == urls_res(path_str@)
{ unimplemented!() }
#[verifier::external_body]
fn get_nodes_stub<SystemType : System>(system : &SystemType, rulefile_paths : Vec<String>, goal_target_opt: Option<String>) -> (r: Result<NodePack, BuildError>)
    ensures r == nodes_res(rulefile_paths@, goal_target_opt)
{ unimplemented!() }
impl ChannelPack {
    #[verifier::external_body]
    fn new(node_pack : NodePack) -> (r: ChannelPack) ensures r == wired_pack(node_pack) { unimplemented!() }
}
// how a failed init is reported
spec fn init_error(e: InitDirectoryError) -> BuildError {
    match e { InitDirectoryError::FailedToReadCurrentFileStates(x) => BuildError::FailedToReadCurrentFileStates(x), _ => BuildError::DirectoryMalfunction }
}

//@ extract build.rs fn build range /\Alet mut elements =/ .. /let mut handles = Vec::new\(\);/
//@ props C01 C02 C05 C09 C11
//@ sig fn build_head<SystemType : System + 'static>(system: &mut SystemType, params: BuildParams) -> (res: Result<(Elements<SystemType>, DownloadUrls, ChannelPack), BuildError>)
//@ close Ok((elements, download_urls, channel_pack))
//@ rewrite 1 /directory::init\(&mut system,/ => directory_init(&mut *system,
//@ rewrite * /&system\b/ => &*system
//@ rewrite 1 /get_nodes\(/ => get_nodes_stub(
//@ spec
    ensures
        // ruler's directory is the one the caller named; a table that cannot be read is reported as such, any other trouble with
        // the directory as a malfunction; nothing else happens then                                                                //# O-G-head-init [C11,C05]
        init_res::<SystemType>(params.directory_path@) matches Err(e) ==> res == Err::<(Elements<SystemType>, DownloadUrls, ChannelPack), BuildError>(init_error(e)),
        // the plan is made from exactly the caller's rules files and goal, and wired by ChannelPack::new; the threads are given
        // exactly what init handed out                                                                                             //# O-G-head-plan [C01,C02,C09]
        init_res::<SystemType>(params.directory_path@) matches Ok(el) ==> (
            (match params.urlfile_path_opt { Some(p) => urls_res(p@) is Err, None => false }) ||
            (match nodes_res(params.rulefile_paths@, params.goal_target_opt) {
                Err(e) => res == Err::<(Elements<SystemType>, DownloadUrls, ChannelPack), BuildError>(e),
                Ok(np) => res matches Ok(t) && t.0 == el && t.2 == wired_pack(np)
                    && (params.urlfile_path_opt is None ==> t.1.urls@.len() == 0)
                    && (params.urlfile_path_opt matches Some(p) ==> Ok::<DownloadUrls, DownloadUrlsError>(t.1) == urls_res(p@)),
            })),
        init_res::<SystemType>(params.directory_path@) is Ok ==> (params.urlfile_path_opt matches Some(p) ==> (urls_res(p@) matches Err(e) ==> (res matches Err(BuildError::DownloadUrlsError(x)) && x == e))),
//@ end

//@ extract build.rs fn clean range /\Alet mut elements =/ .. /let mut handles = Vec::new\(\);/
//@ props C10 C05 C09 C11
//@ sig fn clean_head<SystemType : System + 'static>(system: &mut SystemType, directory_path : &str, rulefile_paths: Vec<String>, goal_target_opt: Option<String>) -> (res: Result<(Elements<SystemType>, NodePack), BuildError>)
//@ close Ok((elements, node_pack))
//@ rewrite 1 /directory::init\(&mut system,/ => directory_init(&mut *system,
//@ rewrite 1 /get_nodes\(&mut system,/ => get_nodes_stub(&*system,
//@ spec
    ensures
        //# O-G-clean-head-init [C11,C05]
        init_res::<SystemType>(directory_path@) matches Err(e) ==> res == Err::<(Elements<SystemType>, NodePack), BuildError>(init_error(e)),
        // clean works from the same plan a build of the same files and goal would                                                  //# O-G-clean-head-plan [C10,C09]
        init_res::<SystemType>(directory_path@) matches Ok(el) ==> (match nodes_res(rulefile_paths@, goal_target_opt) {
            Err(e) => res == Err::<(Elements<SystemType>, NodePack), BuildError>(e),
            Ok(np) => res == Ok::<(Elements<SystemType>, NodePack), BuildError>((el, np)),
        }),
//@ end

// ================= build(): one thread per leaf, then one per rule of the plan =================
//@ extract build.rs struct ChannelPack
//@ end
//@ extract build.rs struct DownloadUrls
//@ end
//@ extract cache.rs struct DownloaderCache
//@ end
//@ extract history.rs struct DownloaderRuleHistory
//@ end
//@ extract history.rs struct DownloaderHistory
//@ end
struct Sender<T> { id: Ghost<int>, x: Ghost<Option<T>> }     // std::sync::mpsc, external (R7): an end is known by its channel
struct Receiver<T> { id: Ghost<int>, x: Ghost<Option<T>> }
struct RuleHistory { x: Ghost<int> }
impl RuleHistory { #[verifier::external_body] fn new() -> (r: RuleHistory) { unimplemented!() } }

// ASSUMED (R8): derived / std clones copy
impl Clone for Ticket { #[verifier::external_body] fn clone(&self) -> (r: Self) ensures r == *self { unimplemented!() } }
impl Clone for DownloaderCache { #[verifier::external_body] fn clone(&self) -> (r: Self) ensures r == *self { unimplemented!() } }
#[verifier::external_body] fn clone_strings(v: &Vec<String>) -> (r: Vec<String>) ensures r@ == v@ { v.clone() }
// ASSUMED: `format!("{}<suffix>", url)` appends the suffix
#[verifier::external_body] fn fmt_url(u: &String, suffix: &str) -> (r: String) ensures r@ == u@ + suffix@ { unimplemented!() }

impl DownloaderCache {
//@ extract cache.rs impl /DownloaderCache$/ fn new
//@ props C01 C17
//@ ret res
//@ spec
        ensures res.base_urls == base_urls,
//@ end
}
impl DownloaderHistory {
//@ extract history.rs impl /DownloaderHistory$/ fn new
//@ props C01 C17
//@ ret res
//@ spec
        ensures res.base_urls == base_urls,
//@ end
//@ extract history.rs impl /DownloaderHistory$/ fn get_rule_history
//@ props C01 C17
//@ ret res
//@ rewrite 1 /self\.base_urls\.clone\(\)/ => clone_strings(&self.base_urls)
//@ spec
        ensures
            // a rule asks the download servers about ITS OWN history                                      //# O-G-download-own-ticket [C17,C01]
            res.rule_ticket == *rule_ticket, res.base_urls@ == self.base_urls@,
//@ end
}

// ASSUMED: what `read_rule_history` returns is a function of the history directory and the ticket -- during the spawn loops nobody
// writes the history directory (History::write_rule_history is called by the join loop only: unit F).  The function itself is
// under contract in unit H.
uninterp spec fn stored_history(path: Seq<char>, t: Ticket) -> Result<RuleHistory, HistoryError>;
impl<SystemType : System> History<SystemType> {
    #[verifier::external_body]
    fn read_rule_history(&self, rule_ticket: &Ticket) -> (r: Result<RuleHistory, HistoryError>)
        ensures r == stored_history(self.path@, *rule_ticket)
    { unimplemented!() }
}

// what a build thread is given (the closures' capture lists, in the order of the closures' lifted signatures in unit E)
enum Job<SystemType : System> {
    Leaf(SystemType, Blob, Vec<Sender<Packet>>),
    Rule(SystemType, Blob, Vec<Receiver<Packet>>, Vec<(usize, Sender<Packet>)>, Node, RuleHistory, SysCache<SystemType>, DownloaderCache, DownloaderRuleHistory),
}
struct BuildHandle<SystemType : System> { job: Ghost<Job<SystemType>> }
#[verifier::external_body]
fn spawn_thread<SystemType : System>(job: Job<SystemType>) -> (h: BuildHandle<SystemType>) ensures h.job@ == job { unimplemented!() }

// the path lists in spawn order: one singleton per leaf, then every rule's targets
spec fn build_lists(cp: ChannelPack) -> Seq<Seq<String>> {
    Seq::new(cp.leaves@.len() + cp.nodes@.len(), |i: int| if i < cp.leaves@.len() { seq![cp.leaves@[i].0] } else { cp.nodes@[i - cp.leaves@.len()].0.targets@ })
}
// thread i of the spawn order was handed its own things
spec fn leaf_ok<SystemType : System>(h: (Option<Ticket>, BuildHandle<SystemType>), cp: ChannelPack, t0: Map<String, FileState>, i: int) -> bool {
    &&& h.0 is None
    &&& h.1.job@ matches Job::Leaf(_sys, blob, senders)
        && senders == cp.leaves@[i].1
        && blob_of(blob, table_upto(t0, build_lists(cp), i), seq![cp.leaves@[i].0])
}
spec fn rule_ok<SystemType : System>(h: (Option<Ticket>, BuildHandle<SystemType>), cp: ChannelPack, t0: Map<String, FileState>, el: Elements<SystemType>, urls: Seq<String>, j: int) -> bool {
    let n = cp.nodes@[j].0;
    &&& h.0 == Some(n.rule_ticket)
    &&& h.1.job@ matches Job::Rule(_sys, blob, receivers, senders, node, rule_history, cache, dcache, drh)
        && receivers == cp.nodes@[j].2 && senders == cp.nodes@[j].1
        && blob_of(blob, table_upto(t0, build_lists(cp), cp.leaves@.len() + j), n.targets@)
        && node.command == n.command && node.rule_ticket == n.rule_ticket && node.source_indices == n.source_indices
        && Ok::<RuleHistory, HistoryError>(rule_history) == stored_history(el.history.path@, n.rule_ticket)
        && cache == el.cache
        && drh.rule_ticket == n.rule_ticket      // (which servers are asked, and under which url, is not part of any property: unspecified)
}

//@ extract build.rs fn build range /let mut handles = Vec::new\(\);/ .. /let mut work_errors/
//@ props C01 C02 C03 C05 C17
//@ sig fn build_spawn_all<SystemType : System + 'static>(system: &SystemType, elements: &mut Elements<SystemType>, channel_pack: &mut ChannelPack, download_urls: &DownloadUrls) -> (res: Result<Vec<(Option<Ticket>, BuildHandle<SystemType>)>, BuildError>)
//@ close Ok(handles)
//@ retype 1 /let mut handles = Vec::new\(\);/ => let mut handles : Vec<(Option<Ticket>, BuildHandle<SystemType>)> = Vec::new();
//@ insert before 1/1 /for \(leaf, sender_vec\) in/ => let drained_leaves = drain_all(&mut channel_pack.leaves);
//@ rewrite 1 /channel_pack\.leaves\.drain\(\.\.\)/ => drained_leaves
//@ insert before 1/1 /for \(mut node, sender_vec, receiver_vec\) in/ => let drained_nodes = drain_all(&mut channel_pack.nodes);
//@ rewrite 1 /channel_pack\.nodes\.drain\(\.\.\)/ => drained_nodes
//@ closure-call 1 => Job::Leaf(system_clone, blob, sender_vec)
//@ closure-call 2 => Job::Rule(system_clone, blob, receiver_vec, sender_vec, node, rule_history, cache_clone, downloader_cache_clone, downloader_rule_history)
//@ rewrite 2 /thread::spawn\(/ => spawn_thread(
//@ rewrite * /format!\("\{\}(\/\w+)", url\)/ => fmt_url(url, "\1")
//@ spec
    ensures
        // one thread per leaf and per rule of the plan, leaves first, in plan order                                               //# O-G-build-all-threads [C01,C02,C05]
        res matches Ok(handles) ==> handles@.len() == old(channel_pack).leaves@.len() + old(channel_pack).nodes@.len(),
        // a leaf's thread gets the leaf's own table entry and the senders ChannelPack::new made for that leaf                      //# O-G-build-leaf-own [C01,C03,C05]
        res matches Ok(handles) ==> forall|i: int| 0 <= i < old(channel_pack).leaves@.len() ==>
            leaf_ok(#[trigger] handles@[i], *old(channel_pack), old(elements).current_file_states.table(), i),
        // a rule's thread gets: the table entries of its own targets, its own receivers and senders, its own command, the history
        // stored under ITS rule ticket, the one cache, the download urls; and it is filed under its rule ticket for the join loop   //# O-G-build-rule-own [C01,C02,C03,C05,C17]
        res matches Ok(handles) ==> forall|j: int| 0 <= j < old(channel_pack).nodes@.len() ==>
            rule_ok(#[trigger] handles@[old(channel_pack).leaves@.len() + j], *old(channel_pack), old(elements).current_file_states.table(), *old(elements), download_urls.urls@, j),
        // the only way not to get there: a rule history that cannot be read                                                       //# O-G-build-spawn-errors [C04,C05]
        res matches Err(e) ==> e is HistoryError,
        final(elements).cache == old(elements).cache, final(elements).history == old(elements).history,
//@ loop 1 binder it
//@ loop 1 invariant
        invariant
            drained_leaves@ == old(channel_pack).leaves@, channel_pack.nodes@ == old(channel_pack).nodes@,
            handles@.len() == it.index@,
            elements.cache == old(elements).cache, elements.history == old(elements).history,
            elements.current_file_states.table() == table_upto(old(elements).current_file_states.table(), build_lists(*old(channel_pack)), it.index@),
            forall|i: int| 0 <= i < handles@.len() ==> leaf_ok(#[trigger] handles@[i], *old(channel_pack), old(elements).current_file_states.table(), i),
//@ loop 2 binder it
//@ loop 2 invariant
        invariant
            drained_leaves@ == old(channel_pack).leaves@, drained_nodes@ == old(channel_pack).nodes@,
            handles@.len() == old(channel_pack).leaves@.len() + it.index@,
            elements.cache == old(elements).cache, elements.history == old(elements).history,
            elements.current_file_states.table() == table_upto(old(elements).current_file_states.table(), build_lists(*old(channel_pack)), old(channel_pack).leaves@.len() + it.index@),
            forall|i: int| 0 <= i < old(channel_pack).leaves@.len() ==> leaf_ok(#[trigger] handles@[i], *old(channel_pack), old(elements).current_file_states.table(), i),
            forall|j: int| 0 <= j < it.index@ ==> rule_ok(#[trigger] handles@[old(channel_pack).leaves@.len() + j], *old(channel_pack), old(elements).current_file_states.table(), *old(elements), download_urls.urls@, j),
//@ hint after 1/1 /take_blob\(vec!\[[^;]*\);/
        proof {
            reveal_with_fuel(table_after, 3);
            let ghost l = build_lists(*old(channel_pack))[it.index@ as int];
            assert(l.len() == 1 && l[0] == leaf);
        }
//@ end

} // verus!
fn main() {}
