//@ unit A
//@ default-props C15 C07 C13 C19 C05
// Unit A: ticket.rs -- content hashes and their 43-character text form.
use vstd::prelude::*;
use vstd::arithmetic::power::*;
use vstd::arithmetic::div_mod::*;
use vstd::arithmetic::mul::*;
verus! {

// ---------- spec vocabulary ----------
uninterp spec fn sha256_raw(c: Seq<u8>) -> Seq<u8>;
spec fn sha256(c: Seq<u8>) -> Seq<u8> { if sha256_raw(c).len() == 32 { sha256_raw(c) } else { Seq::new(32, |i: int| 0u8) } }
// UTF-8 encoding of a string (ASSUMED homomorphic; injectivity is only needed by unit B)
uninterp spec fn utf8(s: Seq<char>) -> Seq<u8>;

// little-endian value of a byte string
spec fn le_val(b: Seq<u8>) -> nat
    decreases b.len()
{
    if b.len() == 0 { 0 } else { (b[0] as nat) + 256 * le_val(b.subrange(1, b.len() as int)) }
}
// the j-th base-62 digit of n
spec fn digit62(n: nat, j: nat) -> nat { (n / (pow(62, j) as nat)) % 62 }
// 0-9 a-z A-Z
spec fn digit_byte(d: nat) -> u8 {
    if d < 10 { (48 + d) as u8 } else if d < 36 { (97 + (d - 10)) as u8 } else { (65 + (d - 36)) as u8 }
}
spec fn char_digit(c: char) -> Option<nat> {
    if '0' <= c && c <= '9' { Some((c as u32 - 48) as nat) }
    else if 'a' <= c && c <= 'z' { Some((c as u32 - 97 + 10) as nat) }
    else if 'A' <= c && c <= 'Z' { Some((c as u32 - 65 + 36) as nat) }
    else { None }
}
// text form: 43 base-62 digits, least significant first
spec fn enc62_nat(n: nat) -> Seq<char> { Seq::new(43, |j: int| digit_byte(digit62(n, j as nat)) as char) }
spec fn enc62_sha(s: Seq<u8>) -> Seq<char> { enc62_nat(le_val(s)) }
// value of the first k characters read as base-62 digits, least significant first (None: some character is foreign)
spec fn val62(s: Seq<char>, k: nat) -> nat
    decreases k
{
    if k == 0 { 0 } else { val62(s, (k - 1) as nat) + char_digit(s[k - 1]).unwrap() * (pow(62, (k - 1) as nat) as nat) }
}
spec fn all_digits(s: Seq<char>, k: int) -> bool { forall|j: int| 0 <= j < k ==> char_digit(#[trigger] s[j]) is Some }
spec fn is_ascii(s: Seq<char>) -> bool { forall|j: int| 0 <= j < s.len() ==> (#[trigger] s[j] as u32) < 128 }

// ---------- stub types for external crates (ASSUMED contracts; R8) ----------
// num_bigint::BigUint: a natural number.  Operator expressions of the repo text are rewritten to the named methods below.
struct BigUint { v: Ghost<nat> }
impl BigUint {
    spec fn val(&self) -> nat { self.v@ }
    #[verifier::external_body] fn zero() -> (r: BigUint) ensures r.val() == 0 { unimplemented!() }
    #[verifier::external_body] fn one() -> (r: BigUint) ensures r.val() == 1 { unimplemented!() }
    #[verifier::external_body] fn from_bytes_le(bytes: &[u8]) -> (r: BigUint) ensures r.val() == le_val(bytes@) { unimplemented!() }
    // minimal-length little-endian bytes ([0] for zero)
    #[verifier::external_body] fn to_bytes_le(&self) -> (r: Vec<u8>)
        ensures le_val(r@) == self.val(), r@.len() >= 1, r@.len() > 1 ==> r@[r@.len() - 1] != 0 { unimplemented!() }
    // `n += &d * k`
    #[verifier::external_body] fn add_mul(&mut self, d: &BigUint, k: u32) ensures final(self).val() == old(self).val() + d.val() * (k as nat) { unimplemented!() }
    // `d *= k`
    #[verifier::external_body] fn mul_small(&mut self, k: u32) ensures final(self).val() == old(self).val() * (k as nat) { unimplemented!() }
    // `n /= k`
    #[verifier::external_body] fn div_small(&mut self, k: u32) requires k != 0 ensures final(self).val() == old(self).val() / (k as nat) { unimplemented!() }
    // `(&n % k).to_u32().unwrap()`
    #[verifier::external_body] fn rem_small(&self, k: u32) -> (r: u32) requires k != 0 ensures r as nat == self.val() % (k as nat) { unimplemented!() }
    // `n > BigUint::zero()`
    #[verifier::external_body] fn gt_zero(&self) -> (r: bool) ensures r == (self.val() > 0) { unimplemented!() }
}
// crypto::sha2::Sha256: computes SHA-256 of the concatenation of what it is fed
struct Sha256 { acc: Ghost<Seq<u8>> }
impl Sha256 {
    #[verifier::external_body] fn new() -> (r: Sha256) ensures r.acc@ == Seq::<u8>::empty() { unimplemented!() }
    #[verifier::external_body] fn input(&mut self, data: &[u8]) ensures final(self).acc@ == old(self).acc@ + data@ { unimplemented!() }
    #[verifier::external_body] fn result(&mut self, out: &mut [u8; 32]) ensures final(out)@ == sha256(old(self).acc@), final(self).acc@ == old(self).acc@ { unimplemented!() }
}
// R4 helpers (ASSUMED)
#[verifier::external_body] fn str_byte_len(s: &str) -> (r: usize) ensures r >= s@.len(), is_ascii(s@) ==> r == s@.len() { s.len() }
#[verifier::external_body] fn str_chars(s: &str) -> (r: Vec<char>) ensures r@ == s@ { s.chars().collect() }
#[verifier::external_body] fn str_as_bytes(s: &str) -> (r: &[u8]) ensures r@ == utf8(s@) { s.as_bytes() }
#[verifier::external_body] fn ascii_to_string(b: &[u8; 43]) -> (r: String)
    requires forall|j: int| 0 <= j < 43 ==> b@[j] < 128
    ensures r@ == Seq::new(43, |j: int| b@[j] as char)
{ std::str::from_utf8(b).unwrap().to_string() }
// ASSUMED: utf8 is a homomorphism
#[verifier::external_body] proof fn utf8_concat(a: Seq<char>, b: Seq<char>) ensures utf8(a + b) == utf8(a) + utf8(b) {}
#[verifier::external_body] proof fn utf8_empty() ensures utf8(Seq::<char>::empty()) == Seq::<u8>::empty() {}

//@ extract system/mod.rs enum SystemError
//@ end
//@ extract system/mod.rs enum ReadWriteError
//@ end
//@ extract ticket.rs enum FromHumanReadableError
//@ end
//@ extract ticket.rs struct TicketFactory
//@ end
//@ extract ticket.rs struct Ticket
//@ end

// ---------- ghost world (only what from_file needs) and ASSUMED System / Read contracts ----------
struct FileEntry { content: Seq<u8>, mtime: u64, executable: bool }
struct World { files: Map<Seq<char>, FileEntry>, dirs: Set<Seq<char>>, cache_dir: Seq<char>, targets: Set<Seq<char>>, execs: Seq<Seq<Seq<char>>> }
struct IoError { x: u8 }
// std::io::Read on an open file: returns the next n <= buf.len() bytes; 0 only at end of file
trait ReadFile : Sized {
    spec fn content(&self) -> Seq<u8>;
    spec fn pos(&self) -> int;
    fn read(&mut self, buf: &mut [u8; 256]) -> (r: Result<usize, IoError>)
        requires 0 <= old(self).pos() <= old(self).content().len()
        ensures final(self).content() == old(self).content(),
            r matches Ok(n) ==> n <= 256 && final(self).pos() == old(self).pos() + n && final(self).pos() <= final(self).content().len()
                && (n == 0 ==> old(self).pos() == old(self).content().len())
                && final(buf)@.subrange(0, n as int) == old(self).content().subrange(old(self).pos(), old(self).pos() + n),
            r is Err ==> final(self).pos() == old(self).pos();
}
trait System : Sized {
    type File: ReadFile;
    fn open(&self, path: &str, Tracked(w): Tracked<&mut World>) -> (r: Result<Self::File, SystemError>)
        ensures *final(w) == *old(w),
            r matches Ok(f) ==> old(w).files.contains_key(path@) && f.content() == old(w).files[path@].content && f.pos() == 0;
    fn is_dir(&self, path: &str, Tracked(w): Tracked<&mut World>) -> (r: bool)
        ensures *final(w) == *old(w), r == old(w).dirs.contains(path@);
    fn is_file(&self, path: &str, Tracked(w): Tracked<&mut World>) -> (r: bool)
        ensures *final(w) == *old(w), r == old(w).files.contains_key(path@);
    // the entries of a directory, as full paths, in the order the System hands them out (RealSystem and FakeSystem sort them)
    fn list_dir(&self, path: &str, Tracked(w): Tracked<&mut World>) -> (r: Result<Vec<String>, SystemError>)
        ensures *final(w) == *old(w), r matches Ok(v) ==> strs(v@) == listing(*old(w), path@);
}
uninterp spec fn listing(w: World, dir: Seq<char>) -> Seq<Seq<char>>;
// ---------- the hash of a directory (C15: "changes when any contained name or content changes") ----------
// names joined by single newlines
spec fn join_sep(l: Seq<Seq<char>>, sep: Seq<char>) -> Seq<char> decreases l.len() { if l.len() == 0 { Seq::empty() } else if l.len() == 1 { l[0] } else { join_sep(l.drop_last(), sep) + sep + l.last() } }
spec fn join_nl(l: Seq<Seq<char>>) -> Seq<char> { join_sep(l, NL()) }
// ASSUMED: `[String]::join(sep)`
#[verifier::external_body] fn join_with(v: &Vec<String>, sep: &str) -> (r: String) ensures r@ == join_sep(strs(v@), sep@) { v.join(sep) }
// the 32 bytes an entry contributes: the hash of a file's bytes, the ticket of a sub-directory
uninterp spec fn dir_ticket(w: World, p: Seq<char>) -> Seq<u8>;
spec fn entry_bytes(w: World, q: Seq<char>) -> Seq<u8> { if w.dirs.contains(q) { dir_ticket(w, q) } else { sha256(w.files[q].content) } }
spec fn entries_bytes(w: World, l: Seq<Seq<char>>, k: int) -> Seq<u8> decreases k { if k <= 0 { Seq::empty() } else { entries_bytes(w, l, k - 1) + entry_bytes(w, l[k - 1]) } }
// what is hashed for a directory: its listing, then 32 bytes per entry in listing order
spec fn dir_input(w: World, p: Seq<char>) -> Seq<u8> { utf8(join_nl(listing(w, p))) + entries_bytes(w, listing(w, p), listing(w, p).len() as int) }
// ASSUMED (well-foundedness): a directory tree is finite, so "the ticket of a directory is the hash of its input" defines dir_ticket
#[verifier::external_body] proof fn dir_ticket_def(w: World, p: Seq<char>) ensures dir_ticket(w, p) == sha256(dir_input(w, p)) {}
proof fn entry_bytes_len(w: World, q: Seq<char>) ensures entry_bytes(w, q).len() == 32 { dir_ticket_def(w, q); }
proof fn entries_bytes_len(w: World, l: Seq<Seq<char>>, k: int) requires 0 <= k <= l.len() ensures entries_bytes(w, l, k).len() == 32 * k decreases k
{ if k > 0 { entries_bytes_len(w, l, k - 1); entry_bytes_len(w, l[k - 1]); } }
// SENSITIVITY 1 (contents): with the names as they were, if the bytes of any file change -- or the ticket of any sub-directory,
// which by this very lemma happens when something inside it changes -- the directory's input changes (so its hash does, short of a
// SHA-256 collision).  Any number of entries may change at once.
proof fn dir_content_sensitive(w1: World, w2: World, p: Seq<char>, i: int)
    requires listing(w1, p) == listing(w2, p), 0 <= i < listing(w1, p).len(), entry_bytes(w1, listing(w1, p)[i]) != entry_bytes(w2, listing(w2, p)[i]),
    ensures dir_input(w1, p) != dir_input(w2, p)
{
    let l = listing(w1, p); let n = l.len() as int;
    let a = utf8(join_nl(l));
    entries_differ(w1, w2, l, n, i);
    let e1 = entries_bytes(w1, l, n); let e2 = entries_bytes(w2, l, n);
    if a + e1 == a + e2 {
        assert((a + e1).subrange(a.len() as int, (a + e1).len() as int) =~= e1);
        assert((a + e2).subrange(a.len() as int, (a + e2).len() as int) =~= e2);
    }
}
proof fn entries_differ(w1: World, w2: World, l: Seq<Seq<char>>, k: int, i: int)
    requires 0 <= i < k <= l.len(), entry_bytes(w1, l[i]) != entry_bytes(w2, l[i]),
    ensures entries_bytes(w1, l, k) != entries_bytes(w2, l, k)
    decreases k
{
    entries_bytes_len(w1, l, k - 1); entries_bytes_len(w2, l, k - 1); entry_bytes_len(w1, l[k - 1]); entry_bytes_len(w2, l[k - 1]);
    let x1 = entries_bytes(w1, l, k - 1); let x2 = entries_bytes(w2, l, k - 1); let y1 = entry_bytes(w1, l[k - 1]); let y2 = entry_bytes(w2, l[k - 1]);
    if x1 + y1 == x2 + y2 {
        assert((x1 + y1).subrange(0, 32 * (k - 1)) =~= x1); assert((x2 + y2).subrange(0, 32 * (k - 1)) =~= x2);
        assert((x1 + y1).subrange(32 * (k - 1), 32 * k) =~= y1); assert((x2 + y2).subrange(32 * (k - 1), 32 * k) =~= y2);
        if i < k - 1 { entries_differ(w1, w2, l, k - 1, i); }
    }
}
// SENSITIVITY 2 (names): a directory with the same number of entries and another listing text has another input, PROVIDED the two
// listing texts have different lengths or the utf8 encoding tells them apart (utf8 is injective; ASSUMED below)
#[verifier::external_body] proof fn utf8_injective(a: Seq<char>, b: Seq<char>) requires utf8(a) == utf8(b) ensures a == b {}
proof fn dir_names_sensitive(w1: World, w2: World, p: Seq<char>)
    requires listing(w1, p).len() == listing(w2, p).len(), join_nl(listing(w1, p)) != join_nl(listing(w2, p)),
    ensures dir_input(w1, p) != dir_input(w2, p)
{
    let l1 = listing(w1, p); let l2 = listing(w2, p); let n = l1.len() as int;
    let a1 = utf8(join_nl(l1)); let a2 = utf8(join_nl(l2));
    let e1 = entries_bytes(w1, l1, n); let e2 = entries_bytes(w2, l2, n);
    entries_bytes_len(w1, l1, n); entries_bytes_len(w2, l2, n);
    if a1 + e1 == a2 + e2 {
        assert((a1 + e1).len() == a1.len() + e1.len() && (a2 + e2).len() == a2.len() + e2.len());
        assert(a1.len() == a2.len());
        assert((a1 + e1).subrange(0, a1.len() as int) =~= a1); assert((a2 + e2).subrange(0, a2.len() as int) =~= a2);
        utf8_injective(join_nl(l1), join_nl(l2));
    }
}
// ASSUMED: `format!("{}", error)`
#[verifier::external_body] fn io_error_string(e: &IoError) -> (r: String) { unimplemented!() }

// ---------- arithmetic lemmas (no repo code) ----------
proof fn bound_256_43() ensures pow(2, 256) < pow(62, 43), pow(256, 32) == pow(2, 256)
{
    assert(pow(2, 256) < pow(62, 43)) by(compute);
    assert(pow(256, 32) == pow(2, 256)) by(compute);
}
proof fn pow62_pos(j: nat) ensures pow(62, j) > 0 { lemma_pow_positive(62, j); }
proof fn pow62_succ(j: nat) ensures pow(62, j + 1) == 62 * pow(62, j) { reveal(pow); }
proof fn pow256_succ(j: nat) ensures pow(256, j + 1) == 256 * pow(256, j) { reveal(pow); }
proof fn pow0(b: int) ensures pow(b, 0) == 1 { reveal(pow); }

proof fn le_val_bound(b: Seq<u8>) ensures le_val(b) < pow(256, b.len())
    decreases b.len()
{
    if b.len() == 0 { pow0(256); }
    else {
        let t = b.subrange(1, b.len() as int);
        le_val_bound(t);
        pow256_succ(t.len());
        assert(le_val(b) == (b[0] as nat) + 256 * le_val(t));
        assert((b[0] as nat) + 256 * le_val(t) < 256 * pow(256, t.len())) by(nonlinear_arith)
            requires (b[0] as nat) < 256, (le_val(t) as int) < pow(256, t.len());
    }
}
// a little-endian string whose last byte is non-zero is at least 256^(len-1)
proof fn le_val_lower(b: Seq<u8>) requires b.len() >= 1, b[b.len() - 1] != 0 ensures le_val(b) >= pow(256, (b.len() - 1) as nat)
    decreases b.len()
{
    if b.len() == 1 { pow0(256); assert(b.subrange(1, 1).len() == 0); }
    else {
        let t = b.subrange(1, b.len() as int);
        assert(t[t.len() - 1] == b[b.len() - 1]);
        le_val_lower(t);
        pow256_succ((t.len() - 1) as nat);
        assert(256 * le_val(t) >= 256 * pow(256, (t.len() - 1) as nat)) by(nonlinear_arith) requires (le_val(t) as int) >= pow(256, (t.len() - 1) as nat);
    }
}
proof fn le_val_inj(a: Seq<u8>, b: Seq<u8>) requires a.len() == b.len(), le_val(a) == le_val(b) ensures a =~= b
    decreases a.len()
{
    if a.len() > 0 {
        let ta = a.subrange(1, a.len() as int); let tb = b.subrange(1, b.len() as int);
        assert((a[0] as nat) + 256 * le_val(ta) == (b[0] as nat) + 256 * le_val(tb));
        assert(a[0] == b[0] && le_val(ta) == le_val(tb)) by(nonlinear_arith)
            requires (a[0] as nat) + 256 * le_val(ta) == (b[0] as nat) + 256 * le_val(tb), (a[0] as nat) < 256, (b[0] as nat) < 256;
        le_val_inj(ta, tb);
        assert forall|i: int| 0 <= i < a.len() implies a[i] == b[i] by { if i > 0 { assert(ta[i - 1] == a[i]); assert(tb[i - 1] == b[i]); } }
    }
}
// le_val of a prefix-padded array: appending zero bytes does not change the value
proof fn le_val_push_zero(b: Seq<u8>) ensures le_val(b.push(0u8)) == le_val(b)
    decreases b.len()
{
    let c = b.push(0u8);
    if b.len() == 0 { assert(c.subrange(1, 1).len() == 0); assert(le_val(c.subrange(1, 1)) == 0); assert(le_val(c) == (c[0] as nat) + 256 * le_val(c.subrange(1, 1))); }
    else {
        assert(c.subrange(1, c.len() as int) =~= b.subrange(1, b.len() as int).push(0u8));
        le_val_push_zero(b.subrange(1, b.len() as int));
        assert(le_val(c) == (c[0] as nat) + 256 * le_val(c.subrange(1, c.len() as int)));
        assert(le_val(b) == (b[0] as nat) + 256 * le_val(b.subrange(1, b.len() as int)));
    }
}

// digits of n: sum_{j<k} digit62(n,j)*62^j == n % 62^k
spec fn dsum(n: nat, k: nat) -> nat decreases k { if k == 0 { 0 } else { dsum(n, (k - 1) as nat) + digit62(n, (k - 1) as nat) * (pow(62, (k - 1) as nat) as nat) } }
proof fn dsum_mod(n: nat, k: nat) ensures dsum(n, k) == n % (pow(62, k) as nat)
    decreases k
{
    if k == 0 { pow0(62); }
    else {
        let j = (k - 1) as nat;
        dsum_mod(n, j);
        pow62_pos(j); pow62_succ(j);
        let p = pow(62, j) as nat;
        // n % (62p) == n % p + ((n / p) % 62) * p
        lemma_breakdown(n as int, p as int, 62);
        assert(n % (p * 62) == p * ((n / p) % 62) + n % p);
        assert(pow(62, k) == p * 62) by(nonlinear_arith) requires pow(62, k) == 62 * pow(62, j), p == pow(62, j);
        assert(digit62(n, j) * p == p * ((n / p) % 62)) by(nonlinear_arith) requires digit62(n, j) == (n / p) % 62;
    }
}
proof fn digit_byte_char(d: nat) requires d < 62 ensures char_digit(digit_byte(d) as char) == Some(d), (digit_byte(d) as nat) < 128 {}
proof fn char_digit_byte(c: char) requires char_digit(c) is Some ensures digit_byte(char_digit(c).unwrap()) as char == c, char_digit(c).unwrap() < 62, (c as u32) < 128 {}

// reading back the text form gives the value
proof fn val62_enc(n: nat, k: nat) requires k <= 43 ensures val62(enc62_nat(n), k) == dsum(n, k)
    decreases k
{
    if k > 0 {
        val62_enc(n, (k - 1) as nat);
        digit_byte_char(digit62(n, (k - 1) as nat));
        assert(enc62_nat(n)[k - 1] == digit_byte(digit62(n, (k - 1) as nat)) as char);
    }
}
// the value of a digit string bounds below 62^k, and its digits are the string
proof fn val62_bound(s: Seq<char>, k: nat) requires k <= s.len(), all_digits(s, k as int) ensures val62(s, k) < pow(62, k)
    decreases k
{
    if k == 0 { pow0(62); }
    else {
        val62_bound(s, (k - 1) as nat);
        char_digit_byte(s[k - 1]);
        pow62_succ((k - 1) as nat);
        let d = char_digit(s[k - 1]).unwrap(); let p = pow(62, (k - 1) as nat);
        assert(val62(s, (k - 1) as nat) + d * (p as nat) < 62 * p) by(nonlinear_arith) requires (val62(s, (k - 1) as nat) as int) < p, d < 62, p > 0;
    }
}
proof fn val62_digit(s: Seq<char>, k: nat, j: nat) requires j < k <= s.len(), all_digits(s, k as int)
    ensures digit62(val62(s, k), j) == char_digit(s[j as int]).unwrap()
    decreases k
{
    let kk = (k - 1) as nat;
    let d = char_digit(s[kk as int]).unwrap(); let p = pow(62, kk) as nat; let v = val62(s, kk);
    val62_bound(s, kk); pow62_pos(kk); pow62_pos(j);
    char_digit_byte(s[kk as int]);
    if j == kk {
        // (v + d p) / p % 62 == d   since v < p, d < 62
        lemma_fundamental_div_mod_converse((v + d * p) as int, p as int, d as int, v as int);
        assert(((v + d * p) / p) % 62 == d);
    } else {
        val62_digit(s, kk, j);
        // (v + d p) / 62^j % 62 == v / 62^j % 62   because p = 62^j * 62 * 62^(kk-j-1)
        let q = pow(62, j) as nat;
        lemma_pow_adds(62, j, (kk - j) as nat);
        let m = pow(62, (kk - j) as nat) as nat;
        assert(j + (kk - j) as nat == kk);
        pow62_pos((kk - j) as nat);
        assert(p == q * m);
        pow62_succ((kk - j - 1) as nat); pow62_pos((kk - j - 1) as nat);
        let m1 = pow(62, (kk - j - 1) as nat) as nat;
        assert(m == 62 * m1);
        // (v + d*q*m)/q == v/q + d*m
        assert((v + d * p) == v + (d * m) * q) by(nonlinear_arith) requires p == q * m;
        lemma_div_multiples_vanish_fancy((d * m) as int, (v % q) as int, q as int);
        lemma_fundamental_div_mod(v as int, q as int);
        assert((v + d * p) / q == v / q + d * m) by {
            lemma_hoist_over_denominator(v as int, (d * m) as int, q);
        }
        assert((v / q + d * m) % 62 == (v / q) % 62) by {
            assert(d * m == (d * m1) * 62) by(nonlinear_arith) requires m == 62 * m1;
            lemma_mod_multiples_vanish((d * m1) as int, (v / q) as int, 62);
        }
    }
}
// two digit strings with the same value are equal
proof fn val62_inj(a: Seq<char>, b: Seq<char>) requires a.len() == 43, b.len() == 43, all_digits(a, 43), all_digits(b, 43), val62(a, 43) == val62(b, 43) ensures a =~= b
{
    assert forall|j: int| 0 <= j < 43 implies a[j] == b[j] by {
        val62_digit(a, 43, j as nat); val62_digit(b, 43, j as nat);
        char_digit_byte(a[j]); char_digit_byte(b[j]);
    }
}
// every string of 43 digits is the text form of its value
proof fn enc_of_val(s: Seq<char>) requires s.len() == 43, all_digits(s, 43) ensures enc62_nat(val62(s, 43)) =~= s
{
    assert forall|j: int| 0 <= j < 43 implies enc62_nat(val62(s, 43))[j] == s[j] by {
        val62_digit(s, 43, j as nat); char_digit_byte(s[j]);
    }
}
//# L-A-roundtrip [C15,C19]
// property-facing: decoding the text form of any 256-bit value gives the value back; the text form is 43 alphanumerics
proof fn lemma_roundtrip(n: nat) requires n < pow(2, 256)
    ensures enc62_nat(n).len() == 43, all_digits(enc62_nat(n), 43), val62(enc62_nat(n), 43) == n, is_ascii(enc62_nat(n)),
{
    bound_256_43();
    val62_enc(n, 43); dsum_mod(n, 43);
    lemma_small_mod(n, pow(62, 43) as nat);
    assert forall|j: int| 0 <= j < 43 implies char_digit(#[trigger] enc62_nat(n)[j]) is Some && (enc62_nat(n)[j] as u32) < 128 by {
        digit_byte_char(digit62(n, j as nat));
    }
}

//# L-A-injective [C07,C15,C13]
// property-facing (assumed by units D/H/E as `enc62_injective`): the text form is injective on 32-byte hashes
proof fn lemma_enc62_injective(a: Seq<u8>, b: Seq<u8>) requires a.len() == 32, b.len() == 32, enc62_sha(a) == enc62_sha(b) ensures a == b
{
    le_val_bound(a); le_val_bound(b); bound_256_43();
    lemma_roundtrip(le_val(a)); lemma_roundtrip(le_val(b));
    le_val_inj(a, b);
}

// ---------- ticket.rs ----------
//@ extract ticket.rs fn encode62
//@ props C15 C07 C19 C05
//@ ret res
//@ rewrite 1 /n > BigUint::zero\(\)/ => n.gt_zero()
//@ rewrite 1 /\(&n % (\w+)\)\.to_u32\(\)\.unwrap\(\)/ => n.rem_small(\1)
//@ rewrite 1 /n \/= (\w+);/ => n.div_small(\1);
//@ rewrite 1 /std::str::from_utf8\(&buffer\)\.unwrap\(\)\.to_string\(\)/ => ascii_to_string(&buffer)
//@ retype 1 /let mut i = 0;/ => let mut i : usize = 0;
//@ spec
    ensures res@ == enc62_sha(bytes@),        //# O-A-encode [C15,C07,C19]
//@ hint after 1/1 /let mut n = BigUint::from_bytes_le\(bytes\);/
    let ghost n0 = le_val(bytes@);
    proof { le_val_bound(bytes@); bound_256_43(); pow0(62); }
//@ hint before 1/1 /let mut buffer = \[48u8; 43\];/
    proof {
        assert forall|d: int| 0 <= d < 62 implies ALPHABET[d] == digit_byte(d as nat) by {
            assert(ALPHABET@ =~= seq![48u8, 49, 50, 51, 52, 53, 54, 55, 56, 57,
                97, 98, 99, 100, 101, 102, 103, 104, 105, 106, 107, 108, 109, 110, 111, 112, 113, 114, 115, 116, 117, 118, 119, 120, 121, 122,
                65, 66, 67, 68, 69, 70, 71, 72, 73, 74, 75, 76, 77, 78, 79, 80, 81, 82, 83, 84, 85, 86, 87, 88, 89, 90]);
        }
    }
//@ loop 1 invariant
        invariant i <= 43, n0 < pow(62, 43),
            n.val() == n0 / (pow(62, i as nat) as nat),
            forall|d: int| 0 <= d < 62 ==> ALPHABET[d] == digit_byte(d as nat),
            forall|j: int| 0 <= j < i ==> buffer@[j] == digit_byte(digit62(n0, j as nat)),
            forall|j: int| i <= j < 43 ==> buffer@[j] == 48u8,
        decreases n.val(),
//@ hint after 1/1 /while n > BigUint::zero\(\)\s*\{/
        proof {
            pow62_pos(i as nat); pow62_succ(i as nat);
            // n > 0  ==>  62^i <= n0 < 62^43  ==>  i < 43
            if i >= 43 { lemma_pow_increases(62, 43, i as nat); lemma_basic_div(n0 as int, pow(62, i as nat)); }
            // n0 / 62^(i+1) == (n0 / 62^i) / 62
            lemma_div_denominator(n0 as int, pow(62, i as nat), 62);
            assert(pow(62, i as nat) * 62 == pow(62, (i + 1) as nat)) by(nonlinear_arith) requires pow(62, (i + 1) as nat) == 62 * pow(62, i as nat);
        }
//@ hint before 1/1 /std::str::from_utf8\(&buffer\)/
    proof {
        // the loop ended with n == 0: all higher digits are 0, i.e. '0'
        pow62_pos(i as nat);
        assert(n.val() == 0);
        lemma_fundamental_div_mod(n0 as int, pow(62, i as nat)); lemma_mod_bound(n0 as int, pow(62, i as nat));
        assert((n0 as int) / pow(62, i as nat) == 0);
        assert(n0 < pow(62, i as nat));
        assert forall|j: int| 0 <= j < 43 implies buffer@[j] == digit_byte(digit62(n0, j as nat)) && buffer@[j] < 128 by {
            if j >= i {
                pow62_pos(i as nat); pow62_pos(j as nat);
                lemma_pow_increases(62, i as nat, j as nat);
                lemma_basic_div(n0 as int, pow(62, j as nat));
            }
            digit_byte_char(digit62(n0, j as nat));
        }
        assert(Seq::new(43, |j: int| buffer@[j] as char) =~= enc62_nat(n0));
    }
//@ end

// what decode62 returns for a text t
spec fn decode_spec(t: Seq<char>, blen: int) -> Result<Seq<u8>, FromHumanReadableError>
    recommends blen >= t.len()
{
    if blen != 43 { Err(FromHumanReadableError::InvalidLength) }
    else if !all_digits(t, t.len() as int) { Err(FromHumanReadableError::InvalidCharacter(t[first_bad(t, 0)])) }
    else if val62(t, t.len()) >= pow(2, 256) { Err(FromHumanReadableError::Overflow) }
    else { Ok(Seq::<u8>::empty()) }   // Ok payload is specified by le_val in the contract
}
spec fn first_bad(t: Seq<char>, from: int) -> int
    decreases t.len() - from
{
    if from >= t.len() { from } else if char_digit(t[from]) is None { from } else { first_bad(t, from + 1) }
}
proof fn first_bad_props(t: Seq<char>, k: int) requires 0 <= k <= t.len(), all_digits(t, k), k < t.len() ==> char_digit(t[k]) is None ensures first_bad(t, 0) == k
{ first_bad_from(t, 0, k); }
proof fn first_bad_from(t: Seq<char>, from: int, k: int) requires 0 <= from <= k <= t.len(), all_digits(t, k), k < t.len() ==> char_digit(t[k]) is None ensures first_bad(t, from) == k
    decreases k - from
{ if from < k { first_bad_from(t, from + 1, k); } }

//@ extract ticket.rs fn decode62
//@ props C15 C19 C05
//@ ret res
//@ rewrite 1 /tag\.len\(\)/ => str_byte_len(tag)
//@ rewrite 1 /tag\.chars\(\)/ => str_chars(tag)
//@ rewrite 1 /n \+= &d \*\n/ => n.add_mul(&d,\n
//@ rewrite 1 /\},\n        \};\n        d \*= (\w+);/ => },\n        });\n        d.mul_small(\1);
//@ retype 1 /let mut i = 0;/ => let mut i : usize = 0;
//@ spec
    ensures
        // rejects: wrong length, first foreign character, value too large for 256 bits      //# O-A-decode-reject [C15,C19]
        res matches Err(FromHumanReadableError::InvalidLength) ==> tag@.len() != 43 || !is_ascii(tag@),
        res matches Err(FromHumanReadableError::InvalidCharacter(c)) ==> exists|k: int| 0 <= k < tag@.len() && all_digits(tag@, k) && tag@[k] == c && char_digit(c) is None,
        res matches Err(FromHumanReadableError::Overflow) ==> tag@.len() == 43 && all_digits(tag@, 43) && val62(tag@, 43) >= pow(2, 256),
        // accepts exactly the 43-digit strings below 2^256 and returns their value          //# O-A-decode-accept [C15,C19]
        res matches Ok(b) ==> tag@.len() == 43 && all_digits(tag@, 43) && le_val(b@) == val62(tag@, 43) && val62(tag@, 43) < pow(2, 256),
        (tag@.len() == 43 && all_digits(tag@, 43) && val62(tag@, 43) < pow(2, 256)) ==> res is Ok,
//@ hint before 1/1 /let mut n = BigUint::zero\(\);/
    proof { pow0(62); }
    let ghost t = tag@;
//@ loop 1 binder it
//@ loop 1 invariant
        invariant t == tag@, t.len() <= 43,
            all_digits(t, it.index@),
            n.val() == val62(t, it.index@ as nat),
            d.val() == pow(62, it.index@ as nat),
//@ hint after 1/1 /for c in tag\.chars\(\)\s*\{/
        proof { pow62_succ(it.index@ as nat); pow62_pos(it.index@ as nat); }
//@ hint before 1/1 /n \+= &d \*\n/
        let ghost n_before = n.val(); let ghost d_before = d.val();
//@ hint after 1/1 /d \*= \w+;/
        proof {
            let k = it.index@;
            assert(c == t[k]);
            assert(char_digit(c) is Some);
            assert(n.val() == n_before + d_before * char_digit(c).unwrap());
            lemma_mul_is_commutative(d_before as int, char_digit(c).unwrap() as int);
            assert(val62(t, (k + 1) as nat) == val62(t, k as nat) + char_digit(t[k]).unwrap() * (pow(62, k as nat) as nat));
        }
//@ hint before 1/1 /let v = n\.to_bytes_le\(\);/
    proof {
        // 43 bytes and every char a digit: all ASCII, so 43 chars
        assert(all_digits(t, t.len() as int));
        assert(is_ascii(t)) by { assert forall|j: int| 0 <= j < t.len() implies (#[trigger] t[j] as u32) < 128 by { char_digit_byte(t[j]); } }
        bound_256_43();
    }
//@ hint after 1/1 /let v = n\.to_bytes_le\(\);/
    proof {
        le_val_bound(v@);
        if v@.len() > 32 { le_val_lower(v@); lemma_pow_increases(256, 32, (v@.len() - 1) as nat); }
        else { lemma_pow_increases(256, v@.len(), 32); }
    }
//@ loop 2 binder it2
//@ loop 2 invariant
        invariant i == it2.index@, v@.len() <= 32,
            result@.len() == 32,
            forall|j: int| 0 <= j < i ==> result@[j] == v@[j],
            forall|j: int| i <= j < 32 ==> result@[j] == 0u8,
//@ hint before 1/1 /return Ok\(result\)/
    proof { le_val_pad(v@, result@); }
//@ end
// zero padding on the right does not change the little-endian value
proof fn le_val_pad(v: Seq<u8>, r: Seq<u8>)
    requires v.len() <= r.len(), forall|j: int| 0 <= j < v.len() ==> r[j] == v[j], forall|j: int| v.len() <= j < r.len() ==> r[j] == 0u8
    ensures le_val(r) == le_val(v)
    decreases r.len() - v.len()
{
    if v.len() == r.len() { assert(v =~= r); }
    else {
        let r1 = r.subrange(0, r.len() - 1);
        le_val_pad(v, r1);
        assert(r =~= r1.push(0u8));
        le_val_push_zero(r1);
    }
}

impl Ticket {
    spec fn bytes(&self) -> Seq<u8> { self.sha@ }

//@ extract ticket.rs impl /^Ticket$/ fn human_readable
//@ props C15 C07 C19 C05
//@ ret res
//@ spec-file shared/human_readable.spec
//@ end

//@ extract ticket.rs impl /^Ticket$/ fn from_human_readable
//@ props C15 C19 C05
//@ ret res
//@ spec-file shared/from_human_readable.spec
//@ hint start
        proof {
            let t = human_readable_str@;
            if t.len() == 43 && all_digits(t, 43) && val62(t, 43) < pow(2, 256) { }
            assert forall|b: Seq<u8>| b.len() == 32 && t == #[trigger] enc62_sha(b) implies t.len() == 43 && all_digits(t, 43) && val62(t, 43) < pow(2, 256) && is_ascii(t) by {
                le_val_bound(b); bound_256_43(); lemma_roundtrip(le_val(b));
            }
        }
//@ hint before 1/1 /Ok\(Ticket\{sha:decode62\(human_readable_str\)\?\}\)/
        proof {
            let t = human_readable_str@;
            if t.len() == 43 && all_digits(t, 43) { enc_of_val(t); }
        }
//@ end

//@ extract ticket.rs impl /^Ticket$/ fn from_strings
//@ props C13 C05
//@ ret res
//@ spec-file shared/from_strings.spec
//@ hint after 1/1 /let mut factory = TicketFactory::new\(\);/
        let ghost T = strs(targets@); let ghost S = strs(sources@); let ghost C = strs(command@);
        proof { utf8_empty(); reveal_strlit("\n"); reveal_strlit("\n:\n"); assert(lines(T.subrange(0, 0)) =~= Seq::<char>::empty()); assert("\n"@ =~= NL()); assert("\n:\n"@ =~= SEP()); }
//@ hint after 1/3 /factory\.input_str\("\\n"\);/
            proof { reveal_strlit("\n"); assert("\n"@ =~= NL()); assert(T.len() == targets@.len() && T[it.index@] == targets@[it.index@]@); lines_step(T, it.index@, targets@[it.index@]@); utf8_step(lines(T.subrange(0, it.index@)), target@, NL()); }
//@ hint after 2/3 /factory\.input_str\("\\n"\);/
            proof { reveal_strlit("\n"); assert("\n"@ =~= NL()); assert(S.len() == sources@.len() && S[it.index@] == sources@[it.index@]@); lines_step(S, it.index@, sources@[it.index@]@); utf8_step(lines(T) + SEP() + lines(S.subrange(0, it.index@)), source@, NL()); 
                    assert(lines(T) + SEP() + lines(S.subrange(0, it.index@)) + source@ + NL() =~= lines(T) + SEP() + (lines(S.subrange(0, it.index@)) + source@ + NL())); }
//@ hint after 3/3 /factory\.input_str\("\\n"\);/
            proof { reveal_strlit("\n"); assert("\n"@ =~= NL()); assert(C.len() == command@.len() && C[it.index@] == command@[it.index@]@); lines_step(C, it.index@, command@[it.index@]@); utf8_step(lines(T) + SEP() + lines(S) + SEP() + lines(C.subrange(0, it.index@)), line@, NL());
                    assert(lines(T) + SEP() + lines(S) + SEP() + lines(C.subrange(0, it.index@)) + line@ + NL() =~= lines(T) + SEP() + lines(S) + SEP() + (lines(C.subrange(0, it.index@)) + line@ + NL())); }
//@ hint after 1/3 /factory\.input_str\("\\n:\\n"\);/
        proof { assert(T.subrange(0, T.len() as int) =~= T); utf8_concat(lines(T), SEP()); assert(lines(S.subrange(0, 0)) =~= Seq::<char>::empty()); assert(lines(T) + SEP() + Seq::<char>::empty() =~= lines(T) + SEP()); }
//@ hint after 2/3 /factory\.input_str\("\\n:\\n"\);/
        proof { assert(S.subrange(0, S.len() as int) =~= S); utf8_concat(lines(T) + SEP() + lines(S), SEP()); assert(lines(C.subrange(0, 0)) =~= Seq::<char>::empty()); assert(lines(T) + SEP() + lines(S) + SEP() + Seq::<char>::empty() =~= lines(T) + SEP() + lines(S) + SEP()); }
//@ hint after 3/3 /factory\.input_str\("\\n:\\n"\);/
        proof { assert(C.subrange(0, C.len() as int) =~= C); utf8_concat(lines(T) + SEP() + lines(S) + SEP() + lines(C), SEP()); }
//@ loop 1 binder it
//@ loop 1 invariant
            invariant T == strs(targets@), factory.acc() == utf8(lines(T.subrange(0, it.index@))),
//@ loop 2 binder it
//@ loop 2 invariant
            invariant T == strs(targets@), S == strs(sources@), factory.acc() == utf8(lines(T) + SEP() + lines(S.subrange(0, it.index@))),
//@ loop 3 binder it
//@ loop 3 invariant
            invariant T == strs(targets@), S == strs(sources@), C == strs(command@), factory.acc() == utf8(lines(T) + SEP() + lines(S) + SEP() + lines(C.subrange(0, it.index@))),
//@ end
}
proof fn lines_step(v: Seq<Seq<char>>, k: int, x: Seq<char>) requires 0 <= k < v.len(), v[k] == x ensures lines(v.subrange(0, k + 1)) == lines(v.subrange(0, k)) + x + NL()
{ assert(v.subrange(0, k + 1).drop_last() =~= v.subrange(0, k)); }
proof fn utf8_step(a: Seq<char>, x: Seq<char>, nl: Seq<char>) ensures utf8(a) + utf8(x) + utf8(nl) == utf8(a + x + nl)
{ utf8_concat(a, x); utf8_concat(a + x, nl); }
spec fn strs(v: Seq<String>) -> Seq<Seq<char>> { v.map_values(|l: String| l@) }
#[allow(non_snake_case)]
spec fn NL() -> Seq<char> { seq!['\n'] }
#[allow(non_snake_case)]
spec fn SEP() -> Seq<char> { seq!['\n', ':', '\n'] }
// each line followed by a newline
spec fn lines(v: Seq<Seq<char>>) -> Seq<char> decreases v.len() { if v.len() == 0 { Seq::empty() } else { lines(v.drop_last()) + v.last() + NL() } }
// the byte layout hashed into a rule's identity
spec fn ser(t: Seq<Seq<char>>, s: Seq<Seq<char>>, c: Seq<Seq<char>>) -> Seq<char> { lines(t) + SEP() + lines(s) + SEP() + lines(c) + SEP() }

impl TicketFactory {
    spec fn acc(&self) -> Seq<u8> { self.dig.acc@ }

//@ extract ticket.rs impl /^TicketFactory$/ fn new
//@ props C15 C13 C05
//@ ret res
//@ spec-file shared/new.spec
//@ end

//@ extract ticket.rs impl /^TicketFactory$/ fn input_ticket
//@ props C01 C15 C05
//@ spec-file shared/input_ticket.spec
//@ end

//@ extract ticket.rs impl /^TicketFactory$/ fn input_str
//@ props C13 C05
//@ rewrite 1 /input\.as_bytes\(\)/ => str_as_bytes(input)
//@ spec
        ensures final(self).acc() == old(self).acc() + utf8(input@),      //# O-A-input-str [C13]
//@ end

//@ extract ticket.rs impl /^TicketFactory$/ fn from_file
//@ props C15 C07 C05
//@ ret res
//@ param Tracked(w): Tracked<&mut World>
//@ addarg 1 /file_system\.open/ Tracked(w)
//@ rewrite 1 /format!\("\{\}", error\)/ => io_error_string(&error)
//@ spec-file shared/from_file.spec
//@ loop 1 invariant
                    invariant 0 <= reader.pos() <= reader.content().len(),
                        *w == *old(w), old(w).files.contains_key(path@), reader.content() == old(w).files[path@].content,
                        dig.acc@ =~= reader.content().subrange(0, reader.pos()),
                    decreases reader.content().len() - reader.pos(),
//@ hint before 1/1 /match reader\.read\(&mut buffer\)/
                    let ghost p0 = reader.pos();
                    proof { assert(reader.content().subrange(0, reader.content().len() as int) =~= reader.content()); }
//@ hint after 1/1 /dig\.input\([^;]*\);/
                            proof {
                                assert(buffer@.subrange(0, size as int) == reader.content().subrange(p0, p0 + size));
                                assert(reader.content().subrange(0, p0) + reader.content().subrange(p0, p0 + size) =~= reader.content().subrange(0, p0 + size));
                            }
//@ end

//@ extract ticket.rs impl /^TicketFactory$/ fn from_str
//@ props C15 C13 C05
//@ ret res
//@ rewrite 1 /first_input\.as_bytes\(\)/ => str_as_bytes(first_input)
//@ spec
        ensures res.acc() == utf8(first_input@),      //# O-A-from-str [C15]
//@ end

//@ extract ticket.rs impl /^TicketFactory$/ fn from_directory
//@ props C15 C05
//@ ret res
//@ attr #[verifier::exec_allows_no_decreases_clause]
//@ param Tracked(w): Tracked<&mut World>
//@ addarg * /system\.(list_dir|is_dir|is_file)|TicketFactory::from_(directory|file)/ Tracked(w)
//@ rewrite 1 /path_list\.join\(("[^"]*")\)/ => join_with(&path_list, \1)
//@ spec
        ensures *final(w) == *old(w),
            // the digest input of a directory is its listing followed by 32 bytes per entry, in listing order: the SHA-256 of a
            // file's bytes, the ticket of a sub-directory (lemmas dir_content_sensitive / dir_names_sensitive: it changes when a
            // contained content or name changes).  Termination (a finite tree) is assumed, not proved                     //# O-A-from-directory [C15]
            res matches Ok(f) ==> f.acc() == dir_input(*old(w), path@),
//@ hint before 1/1 /let mut factory = /
        let ghost l = strs(path_list@);
        let ghost p0 = path@;      // (the loop variable below is called `path` too)
        proof { assert(l == listing(*w, p0)); reveal_strlit("\n"); assert("\n"@ =~= NL()); }
//@ loop 1 binder it
//@ loop 1 invariant
            invariant *w == *old(w), l == listing(*old(w), p0), l == strs(path_list@),
                factory.acc() == utf8(join_nl(l)) + entries_bytes(*old(w), l, it.index@),
//@ hint before 1/1 /if system\.is_dir\(&path\)/
            proof {
                dir_ticket_def(*old(w), path@);
                assert(l[it.index@ as int] == path@);
                assert(utf8(join_nl(l)) + entries_bytes(*old(w), l, it.index@) + entry_bytes(*old(w), path@) =~= utf8(join_nl(l)) + (entries_bytes(*old(w), l, it.index@) + entry_bytes(*old(w), path@)));
            }
//@ end

//@ extract ticket.rs impl /^TicketFactory$/ fn result
//@ props C15 C13 C07 C05
//@ ret res
//@ spec-file shared/result.spec
//@ end
}

} // verus!
fn main() {}
