//@ unit V
//@ default-props C19
// Unit V: server.rs -- the bodies of the two endpoint closures of `serve` (lifted), SysCache::open, FileStateVec::download_string.
// warp routing / percent-decoding, tokio, and "keeps running" are outside the verifier's reach (trusted, stated in the evidence).
use vstd::prelude::*;
use std::collections::HashMap;
verus! {

//@ include prelude/world.rs

//@ extract system/mod.rs enum SystemError
//@ end
//@ extract ticket.rs struct Ticket
//@ end
//@ extract ticket.rs enum FromHumanReadableError
//@ end
//@ extract cache.rs enum OpenError
//@ end
//@ extract cache.rs struct SysCache
//@ end
//@ extract blob.rs struct FileState
//@ end
//@ extract blob.rs struct FileStateVec
//@ end
//@ extract history.rs struct RuleHistory
//@ end
//@ extract history.rs struct History
//@ end
//@ extract history.rs enum HistoryError
//@ end

impl Ticket {
    spec fn bytes(&self) -> Seq<u8> { self.sha@ }
    // ASSUMED here, PROVED in unit A (shared contract texts)
    #[verifier::external_body]
    fn human_readable(&self) -> (res: String)
//@ include shared/human_readable.spec
    { unimplemented!() }
    #[verifier::external_body]
    fn from_human_readable(human_readable_str: &str) -> (res: Result<Ticket, FromHumanReadableError>)
//@ include shared/from_human_readable.spec
    { unimplemented!() }
}

// ---------- ASSUMED: System as the server uses it (read only) ----------
struct IoError { x: u8 }
trait FileOps : Sized {
    spec fn content(&self) -> Seq<u8>;
    fn read_to_end(&mut self, buf: &mut Vec<u8>) -> (r: Result<usize, IoError>)
        ensures r matches Ok(n) ==> final(buf)@ == old(buf)@ + old(self).content() && n == old(self).content().len();
}
trait System : Sized {
    type File: FileOps;
    fn is_dir(&self, path: &str, Tracked(w): Tracked<&mut World>) -> (r: bool) ensures *final(w) == *old(w), r == old(w).dirs.contains(path@);
    fn is_file(&self, path: &str, Tracked(w): Tracked<&mut World>) -> (r: bool) ensures *final(w) == *old(w), r == old(w).files.contains_key(path@);
    fn open(&self, path: &str, Tracked(w): Tracked<&mut World>) -> (r: Result<Self::File, SystemError>)
        ensures *final(w) == *old(w), r matches Ok(f) ==> old(w).files.contains_key(path@) && f.content() == old(w).files[path@].content;
}
#[verifier::external_body] fn fmt_slash(a: &String, b: &String) -> (r: String) ensures r@ == a@ + seq!['/'] + b@ { format!("{}/{}", a, b) }

// ---------- ASSUMED: warp::http::Response builder; the lifted closures return what they hand to `.body(..)` ----------
#[allow(non_camel_case_types)]
enum StatusCode { OK, NOT_FOUND, INTERNAL_SERVER_ERROR }
struct Builder { status: StatusCode }
struct HttpResponse { status: StatusCode, body: Vec<u8> }
struct HttpError { x: u8 }
struct Response { x: u8 }
impl Response { fn builder() -> (r: Builder) { Builder { status: StatusCode::OK } } }
impl Builder {
    fn status(self, s: StatusCode) -> (r: Builder) ensures r.status == s { Builder { status: s } }
    fn body(self, b: Vec<u8>) -> (r: Result<HttpResponse, HttpError>) ensures r matches Ok(x) && x.status == self.status && x.body@ == b@ { Ok(HttpResponse { status: self.status, body: b }) }
}
// ASSUMED: message formatting (content irrelevant to the property) and String::into_bytes
#[verifier::external_body] fn any_message() -> (r: Vec<u8>) { unimplemented!() }
uninterp spec fn utf8(s: Seq<char>) -> Seq<u8>;
#[verifier::external_body] fn string_into_bytes(s: String) -> (r: Vec<u8>) ensures r@ == utf8(s@) { s.into_bytes() }

impl<SystemType : System> SysCache<SystemType> {
    spec fn wf(&self, w: World) -> bool { w.cache_dir == self.path@ }

//@ extract cache.rs impl /SysCache<SystemType>$/ fn open
//@ props C19
//@ ret res
//@ param Tracked(w): Tracked<&mut World>
//@ addarg * /system\.(is_dir|is_file|open)/ Tracked(w)
//@ rewrite 1 /Result<impl std::io::Read, OpenError>/ => Result<SystemType::File, OpenError>
//@ rewrite 1 /format!\("\{\}\/\{\}", self\.path, ticket\.human_readable\(\)\)/ => fmt_slash(&self.path, &ticket.human_readable())
//@ spec
        requires self.wf(*old(w)),
        ensures *final(w) == *old(w),
            // only the file named after the requested hash inside the cache directory is ever opened                       //# O-V-open-confined [C19]
            res matches Ok(f) ==> old(w).files.contains_key(cpath(old(w).cache_dir, ticket.bytes())) && f.content() == old(w).files[cpath(old(w).cache_dir, ticket.bytes())].content,
            res matches Err(OpenError::NotThere) ==> !old(w).files.contains_key(cpath(old(w).cache_dir, ticket.bytes())),
            // a name that is not a FILE of the cache gets the clean NotThere -- also when a directory of that name sits there     //# O-V-open-clean-miss [C19]
            (old(w).dirs.contains(old(w).cache_dir) && !old(w).files.contains_key(cpath(old(w).cache_dir, ticket.bytes()))) ==> res matches Err(OpenError::NotThere),
            (old(w).dirs.contains(old(w).cache_dir) && old(w).files.contains_key(cpath(old(w).cache_dir, ticket.bytes()))) ==> !(res matches Err(OpenError::NotThere)) && !(res matches Err(OpenError::CacheDirectoryMissing)),
//@ end
}

// ---- GET /files/<hash>: closure #1 of serve() ----
//@ extract server.rs fn serve closure 1
//@ props C19
//@ sig fn files_endpoint<SystemType: System>(cache: &SysCache<SystemType>, hash_str : String, Tracked(w): Tracked<&mut World>) -> (res: Result<HttpResponse, HttpError>)
//@ addarg * /cache\.open/ Tracked(w)
//@ rewrite * /println!\([^;]*\);/ => <empty>
//@ rewrite * /let message = format!\([^;]*\);/ => let message = any_message();
//@ rewrite * /message\.into_bytes\(\)/ => message
//@ rewrite * /StatusCode::OK/ => StatusCode::OK
//@ retype 1 /let mut buffer = vec!\[\];/ => let mut buffer : Vec<u8> = Vec::new();
//@ spec
    requires cache.wf(*old(w)), inv_cache(*old(w)),
    ensures *final(w) == *old(w),
        // 200 carries exactly the bytes of the cache entry named by the requested hash -- bytes whose hash is that hash          //# O-V-files-200 [C19]
        res matches Ok(r) ==> (r.status is OK ==> exists|t: Seq<u8>| #![trigger enc62_sha(t)] t.len() == 32 && hash_str@ == enc62_sha(t)
            && old(w).files.contains_key(cpath(old(w).cache_dir, t)) && r.body@ == old(w).files[cpath(old(w).cache_dir, t)].content && sha256(r.body@) == t),
        // a name that is no hash's text form (wrong length, other characters, path-like strings) gets 404                          //# O-V-files-malformed-404 [C19]
        (forall|b: Seq<u8>| b.len() == 32 ==> hash_str@ != #[trigger] enc62_sha(b)) ==> (res matches Ok(r) && r.status is NOT_FOUND),
        // a hash the cache does not hold gets 404                                                                                  //# O-V-files-absent-404 [C19]
        res matches Ok(r) ==> (r.status is NOT_FOUND || r.status is OK || r.status is INTERNAL_SERVER_ERROR),
        (forall|t: Seq<u8>| t.len() == 32 && hash_str@ == #[trigger] enc62_sha(t) ==> !old(w).files.contains_key(cpath(old(w).cache_dir, t))) ==> (res matches Ok(r) && r.status is NOT_FOUND),
        res is Ok,
//@ hint start
    broadcast use cpath_inj_b;
//@ hint before 1/1 /match cache\.open\(&ticket\)/
                        proof { cpath_under(w.cache_dir, ticket.bytes()); }
//@ end


// ---- the history side (ASSUMED here: unit H proves read_rule_history, unit D proves get_file_state_vec) ----
uninterp spec fn decodes_h(b: Seq<u8>) -> bool;
uninterp spec fn decode_h(b: Seq<u8>) -> RuleHistory;
spec fn is_empty_hist(h: RuleHistory) -> bool { h.source_to_targets@ == Map::<Ticket, FileStateVec>::empty() }
impl<SystemType : System> History<SystemType> {
    spec fn hpath(&self, t: Ticket) -> Seq<char> { self.path@ + seq!['/'] + enc62_sha(t.bytes()) }
    #[verifier::external_body]
    fn read_rule_history(&self, rule_ticket: &Ticket, Tracked(w): Tracked<&mut World>) -> (res: Result<RuleHistory, HistoryError>)
//@ include shared/read_rule_history.spec
    { unimplemented!() }
}
impl RuleHistory {
    spec fn map(&self) -> Map<Ticket, FileStateVec> { self.source_to_targets@ }
    #[verifier::external_body]
    fn get_file_state_vec(&self, source_ticket: &Ticket) -> (res: Option<&FileStateVec>)
//@ include shared/get_file_state_vec.spec
    { unimplemented!() }
}
// the recorded target hashes in target order, one text form per line
spec fn joined(v: Seq<FileState>, k: int) -> Seq<char>
    decreases k
{
    if k <= 0 { Seq::empty() } else if k == 1 { enc62_sha(v[0].ticket.bytes()) } else { joined(v, k - 1) + seq!['\n'] + enc62_sha(v[k - 1].ticket.bytes()) }
}
impl FileStateVec {
    // ASSUMED (R4): `self.infos.iter().map(|info| info.ticket.human_readable()).collect::<Vec<String>>().join("\n")`
    #[verifier::external_body]
    fn download_string(&self) -> (r: String) ensures r@ == joined(self.infos@, self.infos@.len() as int) { unimplemented!() }
}
#[verifier::external_body] fn fmt_display_string(s: &String) -> (r: String) ensures r@ == s@ { unimplemented!() }

// ---- GET /rules/<rule hash>/<sources hash>: closure #2 of serve() ----
//@ extract server.rs fn serve closure 2
//@ props C19
//@ sig fn rules_endpoint<SystemType: System>(history: &History<SystemType>, rule_hash_str : String, source_hash_str : String, Tracked(w): Tracked<&mut World>) -> (res: Result<HttpResponse, HttpError>)
//@ addarg * /history\.read_rule_history/ Tracked(w)
//@ rewrite * /format!\("Error: \{\}", error\)\.into_bytes\(\)/ => any_message()
//@ rewrite * /format!\("No entry for source: \{\}", source_ticket\)\.into_bytes\(\)/ => any_message()
//@ rewrite 1 /format!\("\{\}", target_tickets\.download_string\(\)\)\.into_bytes\(\)/ => string_into_bytes(fmt_display_string(&target_tickets.download_string()))
//@ spec
    ensures *final(w) == *old(w), res is Ok,
        // 200 carries the recorded target hashes of that (rule, sources) pair, in target order, read from that rule's history file      //# O-V-rules-200 [C19]
        res matches Ok(r) ==> (r.status is OK ==> exists|rt: Ticket, st: Ticket| #![trigger enc62_sha(rt.bytes()), enc62_sha(st.bytes())]
            rule_hash_str@ == enc62_sha(rt.bytes()) && source_hash_str@ == enc62_sha(st.bytes())
            && old(w).files.contains_key(history.hpath(rt)) && decodes_h(old(w).files[history.hpath(rt)].content)
            && decode_h(old(w).files[history.hpath(rt)].content).map().contains_key(st)
            && r.body@ == utf8(joined(decode_h(old(w).files[history.hpath(rt)].content).map()[st].infos@, decode_h(old(w).files[history.hpath(rt)].content).map()[st].infos@.len() as int))),
        res matches Ok(r) ==> (r.status is OK || r.status is NOT_FOUND),
        // malformed names get 404                                                                                                        //# O-V-rules-malformed-404 [C19]
        (forall|b: Seq<u8>| b.len() == 32 ==> rule_hash_str@ != #[trigger] enc62_sha(b)) ==> (res matches Ok(r) && r.status is NOT_FOUND),
        (forall|b: Seq<u8>| b.len() == 32 ==> source_hash_str@ != #[trigger] enc62_sha(b)) ==> (res matches Ok(r) && r.status is NOT_FOUND),
//@ end
} // verus!
fn main() {}
