//@ unit D
//@ default-props C01 C02 C04 C05 C07 C08 C09 C10 C17 C18 C20
// Unit D: cache.rs, blob.rs, history.rs (in-memory part), work.rs -- the per-rule machinery.
// Function bodies between `//@ extract` and `//@ end` are copied from /repo/src on every run.
use vstd::prelude::*;
use vstd::std_specs::cmp::*;
use vstd::std_specs::hash::*;
verus! {

//@ include prelude/world.rs

// ---------- types copied from the repo (derives dropped, visibility dropped) ----------
//@ extract system/mod.rs enum SystemError
//@ end
//@ extract system/mod.rs enum ReadWriteError
//@ end
//@ extract system/mod.rs struct CommandLineOutput
//@ end
//@ extract system/mod.rs struct CommandScript
//@ end
//@ extract ticket.rs struct Ticket
//@ end
//@ extract cache.rs enum RestoreResult
//@ end
//@ extract cache.rs enum DownloadResult
//@ end
//@ extract cache.rs struct DownloaderCache
//@ end
//@ extract cache.rs struct SysCache
//@ end
//@ extract blob.rs enum FileResolution
//@ end
//@ extract blob.rs struct FileState
//@ end
//@ extract blob.rs struct FileInfo
//@ end
//@ extract blob.rs enum GetFileStateError
//@ end
//@ extract blob.rs enum BlobError
//@ end
//@ extract blob.rs struct Blob
//@ end
//@ extract blob.rs struct FileStateVec
//@ end
//@ extract blob.rs enum GetCurrentFileInfoError
//@ end
//@ extract blob.rs enum ResolutionError
//@ end

//@ include prelude/system_seq.rs
//@ include prelude/ticket_stub.rs

// ---------- spec vocabulary of unit D ----------
// REM_OK: a remembered file state is *valid*: its hash is the hash of the bytes its timestamp stands for
// (world-independent, so it survives arbitrary user edits)
spec fn rem_ok(st: FileState) -> bool { st.ticket.bytes() == sha256(wc(st.timestamp)) }

// ASSUMED (clock model 1, from the code's own pairing in FileState::empty): timestamp 0 stands for empty content
#[verifier::external_body]
proof fn wc_zero() ensures wc(0) == Seq::<u8>::empty() {}

impl Blob {
    spec fn paths(&self) -> Seq<Seq<char>> { self.file_infos@.map_values(|fi: FileInfo| fi.path@) }
    spec fn all_rem_ok(&self) -> bool { forall|i: int| 0 <= i < self.file_infos@.len() ==> rem_ok(#[trigger] self.file_infos@[i].file_state) }
    // the blob's paths are declared targets in scope, pairwise distinct, outside the cache, and not directories
    spec fn wf(&self, w: World) -> bool {
        &&& forall|i: int| 0 <= i < self.file_infos@.len() ==> {
                &&& w.targets.contains(#[trigger] self.file_infos@[i].path@)
                &&& !under(w.cache_dir, self.file_infos@[i].path@)
                &&& !w.dirs.contains(self.file_infos@[i].path@) }
        &&& forall|i: int, j: int| 0 <= i < j < self.file_infos@.len() ==> self.file_infos@[i].path@ != self.file_infos@[j].path@
    }
}

impl<SystemType : System> SysCache<SystemType> {
    spec fn wf(&self, w: World) -> bool { w.cache_dir == self.path@ }
}
spec fn no_urls(d: Option<DownloaderCache>) -> bool { d matches Some(dc) ==> dc.base_urls@.len() == 0 }

// standard pre/post state predicate of unit D: cache invariant + clock model
spec fn inv(w: World) -> bool { inv_cache(w) && mt(w) }

// ASSUMED: `format!("{}/{}", a, b)`
#[verifier::external_body]
fn fmt_slash(a: &String, b: &String) -> (r: String) ensures r@ == a@ + seq!['/'] + b@ { format!("{}/{}", a, b) }

// ASSUMED: downloader.rs::download_file (network; outside every claim -- only reachable with a URL list)
#[verifier::external_body]
fn download_file<SystemType : System>(system : &mut SystemType, url : &String, path : &str, Tracked(w): Tracked<&mut World>) -> (r: Result<(), ()>)
{ unimplemented!() }

// ---------- cache.rs ----------
impl DownloaderCache {
//@ extract cache.rs impl /^DownloaderCache$/ fn restore_file
//@ props C02 C05
//@ ret res
//@ param Tracked(w): Tracked<&mut World>
//@ addarg 1 /download_file/ Tracked(w)
//@ rewrite 1 /&format!\("\{\}\/\{\}", base_url, ticket\.human_readable\(\)\)/ => &fmt_slash(base_url, &ticket.human_readable())
//@ spec
        ensures self.base_urls@.len() == 0 ==> (res is NotThere && *final(w) == *old(w)),
//@ loop 1 binder it
//@ loop 1 invariant
            invariant self.base_urls@.len() == 0 ==> *w == *old(w),
//@ end
}

impl<SystemType : System> SysCache<SystemType> {
//@ extract cache.rs impl /SysCache<SystemType>$/ fn restore_file
//@ props C02 C05 C07 C08 C09 C10 C20
//@ ret res
//@ param Tracked(w): Tracked<&mut World>
//@ addarg 3 /system\.(is_dir|is_file|rename)/ Tracked(w)
//@ rewrite 1 /format!\("\{\}\/\{\}", self\.path, ticket\.human_readable\(\)\)/ => fmt_slash(&self.path, &ticket.human_readable())
//@ spec
        requires old(self).wf(*old(w)), inv_cache(*old(w)),
            old(w).targets.contains(target_path@) && !under(old(w).cache_dir, target_path@),   //# O-D-restore-into-target [C09]
            !old(w).files.contains_key(target_path@),                                           //# O-D-rename-out [C08]
        ensures final(self).wf(*final(w)), final(self).path@ == old(self).path@,
            inv_cache(*final(w)),                                   //# O-D-restore-inv [C07]
            mt(*old(w)) ==> mt(*final(w)),
            kept(*old(w), *final(w)),                               //# O-D-restore-kept [C08]
            frame_except(*old(w), *final(w), set![target_path@]),   //# O-D-restore-frame [C09]
            final(w).execs == old(w).execs,                         //# O-D-restore-noexec [C02,C20]
            res is Done ==> old(w).files.contains_key(cpath(old(w).cache_dir, ticket.bytes()))        //# O-D-restore-done [C02,C07,C10,C20]
                && final(w).files == old(w).files.remove(cpath(old(w).cache_dir, ticket.bytes())).insert(target_path@, old(w).files[cpath(old(w).cache_dir, ticket.bytes())])
                && sha256(final(w).files[target_path@].content) == ticket.bytes(),
            !(res is Done) ==> *final(w) == *old(w),                //# O-D-restore-else-unchanged [C08,C20]
            res is NotThere ==> !old(w).files.contains_key(cpath(old(w).cache_dir, ticket.bytes())),   //# O-D-restore-notthere [C02]
            res is CacheDirectoryMissing ==> !old(w).dirs.contains(old(w).cache_dir),
//@ hint after 1/1 /let cache_path = [^;]*;/
            proof { cpath_under(self.path@, ticket.bytes());
                    if w.files.contains_key(cache_path@) { cpath_inj(self.path@, ticket.bytes(), sha256(w.files[cache_path@].content)); } }
//@ end

//@ extract cache.rs impl /SysCache<SystemType>$/ fn back_up_file_with_ticket
//@ props C05 C07 C08 C09 C10
//@ ret res
//@ param Tracked(w): Tracked<&mut World>
//@ addarg 1 /system\.rename/ Tracked(w)
//@ rewrite 1 /format!\("\{\}\/\{\}", self\.path, ticket\.human_readable\(\)\)/ => fmt_slash(&self.path, &ticket.human_readable())
//@ spec
        requires old(self).wf(*old(w)), inv_cache(*old(w)),
            old(w).targets.contains(target_path@) && !under(old(w).cache_dir, target_path@),    //# O-D-backup-from-target [C09]
            old(w).files.contains_key(target_path@) ==> ticket.bytes() == sha256(old(w).files[target_path@].content),   //# O-D-backup-name [C07]
        ensures final(self).wf(*final(w)), final(self).path@ == old(self).path@,
            inv_cache(*final(w)),                                   //# O-D-backup-inv [C07]
            mt(*old(w)) ==> mt(*final(w)),
            kept(*old(w), *final(w)),                               //# O-D-backup-kept [C08]
            frame_except(*old(w), *final(w), set![target_path@]),   //# O-D-backup-frame [C09]
            final(w).execs == old(w).execs,
            res is Ok ==> old(w).files.contains_key(target_path@)   //# O-D-backup-done [C08,C10]
                && final(w).files == old(w).files.remove(target_path@).insert(cpath(old(w).cache_dir, ticket.bytes()), old(w).files[target_path@]),
            res is Err ==> *final(w) == *old(w),
//@ hint after 1/1 /let cache_path = [^;]*;/
        proof { cpath_under(self.path@, ticket.bytes());
                if w.files.contains_key(cache_path@) { cpath_inj(self.path@, ticket.bytes(), sha256(w.files[cache_path@].content)); } }
//@ end
}

} // verus!
fn main() {}
