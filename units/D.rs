//@ unit D
//@ default-props C01 C02 C04 C05 C07 C08 C09 C10 C17 C18 C20
// every call of a function that reaches the file system gets the ghost world (robust to added / removed call sites)
//@ world-calls /(\w+\.)?(is_dir|is_file|open|rename|remove_file|get_modified|is_executable|set_is_executable|execute_command)|download_file|(\w+\.)*(restore_file|back_up_file_with_ticket|back_up_file)|TicketFactory::from_(file|directory)|get_file_ticket_from_path|get_file_ticket|get_actual_file_state|(\w+\.)*(get_current_file_state_vec|update_to_match_system_file_state|resolve_remembered_file_state_vec|resolve_with_no_current_file_states)|restore_or_download|resolve_single_target|rebuild_node|resolve_with_cache|handle_rule_node|handle_source_only_node|clean_targets/ Tracked(w)
// output only: `println!` lines are dropped wherever they occur
//@ unit-rewrite /println!\([^;]*\);/ => <empty>
// Unit D: cache.rs, blob.rs, history.rs (in-memory part), work.rs -- the per-rule machinery.
// Function bodies between `//@ extract` and `//@ end` are copied from /repo/src on every run.
use vstd::prelude::*;
use vstd::std_specs::cmp::*;
use vstd::std_specs::hash::*;
use std::collections::HashMap;
verus! {

//@ include prelude/world.rs

// ---------- types copied from the repo (derives dropped, visibility dropped) ----------
//@ extract system/mod.rs enum SystemError
//@ end
//@ extract system/mod.rs enum ReadWriteError
//@ end
//@ extract system/mod.rs struct CommandLineOutput
//@ end
//@ extract system/mod.rs struct CommandScript
//@ end
//@ extract ticket.rs struct Ticket
//@ end
//@ extract cache.rs enum OpenError
//@ end
//@ extract cache.rs enum RestoreResult
//@ end
//@ extract cache.rs enum DownloadResult
//@ end
//@ extract cache.rs struct DownloaderCache
//@ end
//@ extract cache.rs struct SysCache
//@ end
//@ extract blob.rs enum FileResolution
//@ end
//@ extract blob.rs struct FileState
//@ end
//@ extract blob.rs struct FileInfo
//@ end
//@ extract blob.rs enum GetFileStateError
//@ end
//@ extract blob.rs enum BlobError
//@ end
//@ extract blob.rs struct Blob
//@ end
//@ extract blob.rs struct FileStateVec
//@ end
//@ extract blob.rs enum GetCurrentFileInfoError
//@ end
//@ extract blob.rs enum ResolutionError
//@ end
//@ extract history.rs struct DownloaderRuleHistory
//@ end
//@ extract history.rs struct RuleHistory
//@ end
//@ extract history.rs enum RuleHistoryInsertError
//@ end
//@ extract work.rs enum WorkOption
//@ end
//@ extract work.rs struct WorkResult
//@ end
//@ extract work.rs enum WorkError
//@ end
//@ extract work.rs struct RuleExt
//@ end
//@ extract work.rs struct HandleNodeInfo
//@ end

//@ include prelude/system_seq.rs
//@ include prelude/ticket_stub.rs
//@ include prelude/ticket_stub_fs.rs

// ---------- spec vocabulary of unit D ----------
// REM_OK: a remembered file state is *valid*: its hash is the hash of the bytes its timestamp stands for
// (world-independent, so it survives arbitrary user edits)
spec fn rem_ok(st: FileState) -> bool { st.ticket.bytes() == sha256(wc(st.timestamp)) }

// ASSUMED (clock model 1, from the code's own pairing in FileState::empty): timestamp 0 stands for empty content
#[verifier::external_body]
proof fn wc_zero() ensures wc(0) == Seq::<u8>::empty() {}

impl Blob {
    spec fn paths(&self) -> Seq<Seq<char>> { self.file_infos@.map_values(|fi: FileInfo| fi.path@) }
    spec fn all_rem_ok(&self) -> bool { forall|i: int| 0 <= i < self.file_infos@.len() ==> rem_ok(#[trigger] self.file_infos@[i].file_state) }
    // the blob's paths are declared targets in scope, pairwise distinct, outside the cache, and not directories
    spec fn wf(&self, w: World) -> bool {
        &&& forall|i: int| 0 <= i < self.file_infos@.len() ==> {
                &&& w.targets.contains(#[trigger] self.file_infos@[i].path@)
                &&& !under(w.cache_dir, self.file_infos@[i].path@)
                &&& !w.dirs.contains(self.file_infos@[i].path@) }
        &&& forall|i: int, j: int| 0 <= i < j < self.file_infos@.len() ==> self.file_infos@[i].path@ != self.file_infos@[j].path@
    }
}

impl<SystemType : System> SysCache<SystemType> {
    spec fn wf(&self, w: World) -> bool { w.cache_dir == self.path@ }
}
spec fn no_urls(d: Option<DownloaderCache>) -> bool { d matches Some(dc) ==> dc.base_urls@.len() == 0 }

// standard pre/post state predicate of unit D: cache invariant + clock model
spec fn inv(w: World) -> bool { inv_cache(w) && mt(w) }

// ASSUMED: `format!("{}/{}", a, b)`
#[verifier::external_body]
fn fmt_slash(a: &String, b: &String) -> (r: String) ensures r@ == a@ + seq!['/'] + b@ { format!("{}/{}", a, b) }

// ASSUMED: downloader.rs::download_file (network; outside every claim -- only reachable with a URL list)
#[verifier::external_body]
fn download_file<SystemType : System>(system : &mut SystemType, url : &String, path : &str, Tracked(w): Tracked<&mut World>) -> (r: Result<(), ()>)
{ unimplemented!() }

// ---------- cache.rs ----------
impl DownloaderCache {
//@ extract cache.rs impl /^DownloaderCache$/ fn restore_file
//@ props C02 C05
//@ ret res
//@ param Tracked(w): Tracked<&mut World>
//@ rewrite 1 /&format!\("\{\}\/\{\}", base_url, ticket\.human_readable\(\)\)/ => &fmt_slash(base_url, &ticket.human_readable())
//@ spec
        ensures self.base_urls@.len() == 0 ==> (res is NotThere && *final(w) == *old(w)),
//@ loop 1 binder it
//@ loop 1 invariant
            invariant self.base_urls@.len() == 0 ==> *w == *old(w),
//@ end
}

impl<SystemType : System> SysCache<SystemType> {
//@ extract cache.rs impl /SysCache<SystemType>$/ fn open
//@ props C05 C09
//@ ret res
//@ param Tracked(w): Tracked<&mut World>
//@ rewrite 1 /Result<impl std::io::Read, OpenError>/ => Result<SystemType::File, OpenError>
//@ rewrite 1 /format!\("\{\}\/\{\}", self\.path, ticket\.human_readable\(\)\)/ => fmt_slash(&self.path, &ticket.human_readable())
//@ spec
        requires self.wf(*old(w)),
        ensures *final(w) == *old(w),       // looking into the cache changes nothing
            res is Ok ==> old(w).files.contains_key(cpath(old(w).cache_dir, ticket.bytes())),
            res matches Err(OpenError::NotThere) ==> !old(w).files.contains_key(cpath(old(w).cache_dir, ticket.bytes())),
            // a name that is not a FILE of the cache gets the clean NotThere -- also when a directory of that name sits there     //# O-V-open-clean-miss [C19]
            (old(w).dirs.contains(old(w).cache_dir) && !old(w).files.contains_key(cpath(old(w).cache_dir, ticket.bytes()))) ==> res matches Err(OpenError::NotThere),
//@ end

//@ extract cache.rs impl /SysCache<SystemType>$/ fn restore_file
//@ props C02 C05 C07 C08 C09 C10 C20
//@ ret res
//@ param Tracked(w): Tracked<&mut World>
//@ rewrite 1 /format!\("\{\}\/\{\}", self\.path, ticket\.human_readable\(\)\)/ => fmt_slash(&self.path, &ticket.human_readable())
//@ spec
        requires old(self).wf(*old(w)), inv_cache(*old(w)),
            old(w).targets.contains(target_path@) && !under(old(w).cache_dir, target_path@),   //# O-D-restore-into-target [C09]
            !old(w).files.contains_key(target_path@),                                           //# O-D-rename-out [C08]
        ensures final(self).wf(*final(w)), final(self).path@ == old(self).path@,
            inv_cache(*final(w)),                                   //# O-D-restore-inv [C07]
            mt(*old(w)) ==> mt(*final(w)),
            kept(*old(w), *final(w)),                               //# O-D-restore-kept [C08]
            frame_except1(*old(w), *final(w), target_path@),   //# O-D-restore-frame [C09]
            final(w).execs == old(w).execs,                         //# O-D-restore-noexec [C02,C20]
            res is Done ==> old(w).files.contains_key(cpath(old(w).cache_dir, ticket.bytes()))        //# O-D-restore-done [C02,C07,C10,C20]
                && final(w).files == old(w).files.remove(cpath(old(w).cache_dir, ticket.bytes())).insert(target_path@, old(w).files[cpath(old(w).cache_dir, ticket.bytes())])
                && sha256(final(w).files[target_path@].content) == ticket.bytes(),
            !(res is Done) ==> *final(w) == *old(w),                //# O-D-restore-else-unchanged [C08,C20]
            res is NotThere ==> !old(w).files.contains_key(cpath(old(w).cache_dir, ticket.bytes())),   //# O-D-restore-notthere [C02]
            res is CacheDirectoryMissing ==> !old(w).dirs.contains(old(w).cache_dir),
//@ hint after 1/1 /let cache_path = [^;]*;/
            proof { cpath_under(self.path@, ticket.bytes());
                    if w.files.contains_key(cache_path@) { cpath_inj(self.path@, ticket.bytes(), sha256(w.files[cache_path@].content)); } }
//@ end

//@ extract cache.rs impl /SysCache<SystemType>$/ fn back_up_file_with_ticket
//@ props C05 C07 C08 C09 C10
//@ ret res
//@ param Tracked(w): Tracked<&mut World>
//@ rewrite 1 /format!\("\{\}\/\{\}", self\.path, ticket\.human_readable\(\)\)/ => fmt_slash(&self.path, &ticket.human_readable())
//@ spec
        requires old(self).wf(*old(w)), inv_cache(*old(w)),
            old(w).targets.contains(target_path@) && !under(old(w).cache_dir, target_path@),    //# O-D-backup-from-target [C09]
            old(w).files.contains_key(target_path@) ==> ticket.bytes() == sha256(old(w).files[target_path@].content),   //# O-D-backup-name [C07]
        ensures final(self).wf(*final(w)), final(self).path@ == old(self).path@,
            inv_cache(*final(w)),                                   //# O-D-backup-inv [C07]
            mt(*old(w)) ==> mt(*final(w)),
            kept(*old(w), *final(w)),                               //# O-D-backup-kept [C08]
            frame_except1(*old(w), *final(w), target_path@),   //# O-D-backup-frame [C09]
            final(w).execs == old(w).execs,
            res is Ok ==> old(w).files.contains_key(target_path@)   //# O-D-backup-done [C08,C10]
                && final(w).files == old(w).files.remove(target_path@).insert(cpath(old(w).cache_dir, ticket.bytes()), old(w).files[target_path@]),
            res is Err ==> *final(w) == *old(w),
//@ hint after 1/1 /let cache_path = [^;]*;/
        proof { cpath_under(self.path@, ticket.bytes());
                if w.files.contains_key(cache_path@) { cpath_inj(self.path@, ticket.bytes(), sha256(w.files[cache_path@].content)); } }
//@ end
}


impl<SystemType : System> SysCache<SystemType> {
//@ extract cache.rs impl /SysCache<SystemType>$/ fn back_up_file
//@ props C05 C07 C08 C09 C10
//@ ret res
//@ param Tracked(w): Tracked<&mut World>
//@ spec
        requires old(self).wf(*old(w)), inv_cache(*old(w)),
            old(w).targets.contains(target_path@) && !under(old(w).cache_dir, target_path@),
        ensures final(self).wf(*final(w)), final(self).path@ == old(self).path@,
            inv_cache(*final(w)),                                   //# O-D-backup-hash [C07]
            mt(*old(w)) ==> mt(*final(w)),
            kept(*old(w), *final(w)),                               //# O-D-backup2-kept [C08]
            frame_except1(*old(w), *final(w), target_path@),        //# O-D-backup2-frame [C09]
            final(w).execs == old(w).execs,
            res is Ok ==> old(w).files.contains_key(target_path@)   //# O-D-backup2-done [C08,C10]
                && final(w).files == old(w).files.remove(target_path@).insert(cpath(old(w).cache_dir, sha256(old(w).files[target_path@].content)), old(w).files[target_path@]),
            res is Err ==> *final(w) == *old(w),
//@ end
}

// ---------- R7: derived Clone of FileState / FileInfo are structural ----------
impl Clone for FileState { #[verifier::external_body] fn clone(&self) -> (r: FileState) ensures r == *self { unimplemented!() } }
impl Clone for FileInfo { #[verifier::external_body] fn clone(&self) -> (r: FileInfo) ensures r == *self { unimplemented!() } }

// ASSUMED (R4): `Vec::get` (slice get)
#[verifier::external_body]
fn vec_get<'a>(v: &'a Vec<FileResolution>, i: usize) -> (r: Option<&'a FileResolution>)
    ensures i < v@.len() ==> r == Some(&v@[i as int]), i >= v@.len() ==> r is None
{ v.get(i) }
// ---------- R4: iterator-adapter expressions replaced by named helpers (ASSUMED: element-wise, order preserving) ----------
#[verifier::external_body]
fn clone_ticket_vec(tickets: &Vec<Ticket>) -> (r: Vec<Ticket>) ensures r@ == tickets@
{ tickets.iter().map(|ticket| ticket.clone()).collect() }
#[verifier::external_body]
fn tickets_of_infos(infos: &Vec<FileState>) -> (r: Vec<Ticket>)
    ensures r@.len() == infos@.len(), forall|i: int| 0 <= i < infos@.len() ==> r@[i] == infos@[i].ticket
{ infos.iter().map(|info| info.ticket.clone()).collect() }

// every cache entry other than `gone` persists; unchanged as a whole entry if nothing had to be backed up from t
spec fn cache_keeps_except(a: World, b: World, gone: Seq<char>, t: Seq<char>) -> bool {
    forall|p: Seq<char>| #![trigger b.files[p]] #![trigger b.files.contains_key(p)] under(a.cache_dir, p) && p != gone && a.files.contains_key(p)
        ==> b.files.contains_key(p) && (!a.files.contains_key(t) ==> b.files[p] == a.files[p])
}
// what a resolution value claims about target p whose remembered hash is r, between worlds a (before) and b (after)
spec fn res_ok(a: World, b: World, p: Seq<char>, r: Seq<u8>, res: FileResolution) -> bool {
    match res {
        FileResolution::AlreadyCorrect => a.files.contains_key(p) && b.files.contains_key(p) && b.files[p] == a.files[p] && sha256(b.files[p].content) == r,
        FileResolution::Recovered => b.files.contains_key(p) && sha256(b.files[p].content) == r && !(a.files.contains_key(p) && sha256(a.files[p].content) == r),
        FileResolution::Downloaded => false,
        FileResolution::NeedsRebuild => !b.files.contains_key(p) && !(a.files.contains_key(p) && sha256(a.files[p].content) == r),
    }
}
// the stronger claims that hold when no other target of the rule remembers the same hash
// (one cache file cannot serve two restores)
spec fn res_unique(a: World, b: World, p: Seq<char>, r: Seq<u8>, res: FileResolution, all_absent: bool) -> bool {
    &&& (res is NeedsRebuild ==> !a.files.contains_key(cpath(a.cache_dir, r)))
    &&& ((res is Recovered && all_absent && a.files.contains_key(cpath(a.cache_dir, r))) ==> b.files[p] == a.files[cpath(a.cache_dir, r)])
}
spec fn file_tk(w: World, p: Seq<char>, t: Ticket) -> bool { w.files.contains_key(p) && t.bytes() == sha256(w.files[p].content) }
// the FileState describes the file at p exactly
spec fn state_of(w: World, p: Seq<char>, st: FileState) -> bool {
    w.files.contains_key(p) && st.ticket.bytes() == sha256(w.files[p].content) && st.timestamp == w.files[p].mtime && st.executable == w.files[p].executable
}

// ---------- blob.rs ----------
impl FileState {
//@ extract blob.rs impl /^FileState$/ fn empty
//@ props C18 C05
//@ ret res
//@ spec
        ensures rem_ok(res), res.timestamp == 0,      //# O-D-empty-state-valid [C18,C07]
//@ hint start
        proof { wc_zero(); }
//@ end
}

impl FileStateVec {
    spec fn tickets(&self) -> Seq<Seq<u8>> { self.infos@.map_values(|st: FileState| st.ticket.bytes()) }

//@ extract blob.rs impl /^FileStateVec$/ fn from_ticket_vec
//@ props C01 C05 C17
//@ ret res
//@ retype 1 /let mut infos = vec!\[\];/ => let mut infos : Vec<FileState> = Vec::new();
//@ spec
        ensures res.infos@.len() == tickets@.len(),
            forall|i: int| 0 <= i < tickets@.len() ==> (#[trigger] res.infos@[i]).ticket == tickets@[i] && res.infos@[i].timestamp == 0 && !res.infos@[i].executable,   //# O-D-from-ticket-vec [C01,C17]
//@ loop 1 binder it
//@ loop 1 invariant
            invariant infos@.len() == it.index@,
                forall|i: int| 0 <= i < it.index@ ==> (#[trigger] infos@[i]).ticket == tickets@[i] && infos@[i].timestamp == 0 && !infos@[i].executable,
//@ end

//@ extract blob.rs impl /^FileStateVec$/ fn compare
//@ props C17 C05
//@ ret res
//@ retype 1 /let mut contradicting_indices = Vec::new\(\);/ => let mut contradicting_indices : Vec<usize> = Vec::new();
//@ spec
        ensures
            res is Ok <==> self.tickets() =~= other.tickets(),                                               //# O-D-compare-ok [C17]
            (res matches Err(BlobError::TargetSizesDifferWeird)) <==> self.infos@.len() != other.infos@.len(),   //# O-D-compare-sizes [C17]
            res matches Err(BlobError::Contradiction(v)) ==> v@ =~= diff_indices(self.tickets(), other.tickets(), self.infos@.len() as int),   //# O-D-compare-contradiction [C17]
//@ loop 1 invariant
                invariant elen == self.infos@.len(), elen == other.infos@.len(),
                    contradicting_indices@ =~= diff_indices(self.tickets(), other.tickets(), i as int),
//@ hint before 1/1 /if contradicting_indices\.len\(\) == 0/
            proof { diff_indices_props(self.tickets(), other.tickets(), elen as int); }
//@ end

//@ extract blob.rs impl /^FileStateVec$/ fn get_info
//@ props C05
//@ ret res
//@ spec
        requires i < self.infos@.len(),     //# O-D-get-info-bounds [C05]
        ensures res == self.infos@[i as int],
//@ end

//@ extract blob.rs impl /^FileStateVec$/ fn get_ticket
//@ props C01 C03 C05
//@ ret res
//@ spec
        requires sub_index < self.infos@.len(),     //# O-D-get-ticket-bounds [C05]
        ensures res == self.infos@[sub_index as int].ticket,     //# O-D-get-ticket [C01,C03]
//@ end
}

// indices below n at which two ticket lists differ, in increasing order (mirrors the natural fold of `compare`)
spec fn diff_indices(a: Seq<Seq<u8>>, b: Seq<Seq<u8>>, n: int) -> Seq<usize>
    decreases n
{
    if n <= 0 { Seq::empty() }
    else if a[n - 1] != b[n - 1] { diff_indices(a, b, n - 1).push((n - 1) as usize) }
    else { diff_indices(a, b, n - 1) }
}
// property-facing lemma (code-shape independent): diff_indices lists exactly the differing positions, strictly increasing
proof fn diff_indices_props(a: Seq<Seq<u8>>, b: Seq<Seq<u8>>, n: int)
    requires 0 <= n <= a.len(), n <= b.len(), n <= usize::MAX
    ensures
        forall|k: int| 0 <= k < diff_indices(a, b, n).len() ==> 0 <= (#[trigger] diff_indices(a, b, n)[k]) < n && a[diff_indices(a, b, n)[k] as int] != b[diff_indices(a, b, n)[k] as int],
        forall|j: int| 0 <= j < n && a[j] != b[j] ==> diff_indices(a, b, n).contains(j as usize),
        forall|k: int, l: int| 0 <= k < l < diff_indices(a, b, n).len() ==> diff_indices(a, b, n)[k] < diff_indices(a, b, n)[l],
        diff_indices(a, b, n).len() == 0 <==> (forall|j: int| 0 <= j < n ==> a[j] == b[j]),
    decreases n
{
    if n > 0 {
        diff_indices_props(a, b, n - 1);
        let d0 = diff_indices(a, b, n - 1);
        let d = diff_indices(a, b, n);
        if a[n - 1] != b[n - 1] {
            assert(d[d.len() - 1] == (n - 1) as usize);
            assert forall|j: int| 0 <= j < n && a[j] != b[j] implies d.contains(j as usize) by {
                if j < n - 1 { let k = choose|k: int| 0 <= k < d0.len() && d0[k] == j as usize; assert(d[k] == j as usize); }
                else { assert(d[d.len() - 1] == j as usize); }
            }
        }
    }
}

//@ extract blob.rs fn get_file_ticket_from_path
//@ props C15 C18 C05
//@ ret res
//@ param Tracked(w): Tracked<&mut World>
//@ spec
    ensures *final(w) == *old(w),
        res matches Ok(Some(t)) ==> (!old(w).dirs.contains(path@) ==> file_tk(*old(w), path@, t)),    //# O-D-ticket-from-path [C07,C18]
        res matches Ok(None) ==> !old(w).files.contains_key(path@) && !old(w).dirs.contains(path@),
//@ end

//@ extract blob.rs fn get_file_ticket
//@ props C18 C07 C05
//@ ret res
//@ param Tracked(w): Tracked<&mut World>
//@ spec
    requires rem_ok(*assumed_file_state), mt(*old(w)),     //# O-D-shortcut-pre [C18]
    ensures *final(w) == *old(w),
        // the mtime shortcut returns exactly what hashing the file returns (C18), and that is the true hash (C07)
        res matches Ok(Some(t)) ==> (!old(w).dirs.contains(path@) ==> file_tk(*old(w), path@, t)),    //# O-D-shortcut-ticket [C18,C07,C01,C08,C10]
        res matches Ok(None) ==> !old(w).files.contains_key(path@) && !old(w).dirs.contains(path@),  //# O-D-shortcut-none [C18]
//@ end

//@ extract blob.rs fn get_actual_file_state
//@ props C18 C04 C05
//@ ret res
//@ param Tracked(w): Tracked<&mut World>
//@ spec
    requires rem_ok(*assumed_file_state), mt(*old(w)), !old(w).dirs.contains(path@),     //# O-D-shortcut-state-pre [C18]
    ensures *final(w) == *old(w),
        res matches Ok(st) ==> state_of(*old(w), path@, st),         //# O-D-shortcut-state [C18,C07,C01,C08,C10]
        res matches Err(GetCurrentFileInfoError::TargetFileNotFound(p, _)) ==> p@ == path@,   //# O-D-missing-names [C04]
        !old(w).files.contains_key(path@) ==> res matches Err(GetCurrentFileInfoError::TargetFileNotFound(_, _)),                 //# O-D-missing-detected [C04]
//@ end

impl Blob {
//@ extract blob.rs impl /^Blob$/ fn get_current_file_state_vec
//@ props C01 C04 C18 C05
//@ ret res
//@ param Tracked(w): Tracked<&mut World>
//@ retype 1 /let mut tickets = vec!\[\];/ => let mut tickets : Vec<Ticket> = Vec::new();
//@ rewrite 1 /tickets\.iter\(\)\.map\(\|ticket\| ticket\.clone\(\)\)\.collect\(\)/ => clone_ticket_vec(&tickets)
//@ spec
        requires self.all_rem_ok(), mt(*old(w)), self.wf(*old(w)),
        ensures *final(w) == *old(w),
            res matches Ok(v) ==> v.infos@.len() == self.file_infos@.len()        //# O-D-true-hash-vec [C01,C03,C18]
                && forall|i: int| 0 <= i < self.file_infos@.len() ==> file_tk(*old(w), self.file_infos@[i].path@, (#[trigger] v.infos@[i]).ticket),
            res matches Err(GetFileStateError::FileNotFound(p)) ==>                //# O-D-missing-names-vec [C04]
                exists|i: int| 0 <= i < self.file_infos@.len() && #[trigger] self.file_infos@[i].path@ == p@ && !old(w).files.contains_key(p@),
//@ loop 1 binder it
//@ loop 1 invariant
            invariant *w == *old(w), self.all_rem_ok(), mt(*w), self.wf(*w),
                tickets@.len() == it.index@,
                forall|i: int| 0 <= i < it.index@ ==> file_tk(*w, self.file_infos@[i].path@, #[trigger] tickets@[i]),
//@ end

//@ extract blob.rs impl /^Blob$/ fn update_to_match_system_file_state
//@ props C01 C04 C07 C18 C05
//@ ret res
//@ param Tracked(w): Tracked<&mut World>
//@ retype 1 /let mut infos = vec!\[\];/ => let mut infos : Vec<FileState> = Vec::new();
//@ rewrite 1 /for target_info in self\.file_infos\.iter_mut\(\)/ => for idx in 0..self.file_infos.len()
//@ insert after 1/1 /for target_info in self\.file_infos\.iter_mut\(\)\s*\{/ => let target_info = &mut self.file_infos[idx];
//@ rewrite 1 /infos\.iter\(\)\.map\(\|info\| info\.ticket\.clone\(\)\)\.collect\(\)/ => tickets_of_infos(&infos)
//@ spec
        requires old(self).all_rem_ok(), mt(*old(w)), old(self).wf(*old(w)),
        ensures *final(w) == *old(w),
            final(self).paths() =~= old(self).paths(),
            final(self).all_rem_ok(),                                                 //# O-D-refresh-valid [C07,C18]
            res matches Ok(v) ==> v.infos@.len() == final(self).file_infos@.len()           //# O-D-refresh [C01,C07,C18]
                && (forall|i: int| 0 <= i < final(self).file_infos@.len() ==>
                        state_of(*old(w), final(self).file_infos@[i].path@, #[trigger] final(self).file_infos@[i].file_state))
                && (forall|i: int| 0 <= i < final(self).file_infos@.len() ==>
                        file_tk(*old(w), final(self).file_infos@[i].path@, (#[trigger] v.infos@[i]).ticket)),
            res matches Err(GetCurrentFileInfoError::TargetFileNotFound(p, _)) ==>       //# O-D-not-generated-names [C04]
                exists|i: int| 0 <= i < old(self).file_infos@.len() && #[trigger] old(self).file_infos@[i].path@ == p@,
//@ loop 1 invariant
            invariant *w == *old(w), mt(*w), self.all_rem_ok(), self.wf(*w),
                self.file_infos@.len() == old(self).file_infos@.len(),
                forall|i: int| 0 <= i < self.file_infos@.len() ==> (#[trigger] self.file_infos@[i]).path@ == old(self).file_infos@[i].path@,
                infos@.len() == idx,
                forall|i: int| 0 <= i < idx ==> state_of(*w, self.file_infos@[i].path@, #[trigger] self.file_infos@[i].file_state),
                forall|i: int| 0 <= i < idx ==> file_tk(*w, self.file_infos@[i].path@, (#[trigger] infos@[i]).ticket),
//@ end
}


//@ extract blob.rs fn restore_or_download
//@ props C02 C05 C07 C08 C09 C10 C20
//@ ret res
//@ param Tracked(w): Tracked<&mut World>
//@ spec
    requires old(cache).wf(*old(w)), inv(*old(w)), no_urls(*downloader_cache_opt),
        old(w).targets.contains(target_info.path@) && !under(old(w).cache_dir, target_info.path@),
        !old(w).files.contains_key(target_info.path@),                                               //# O-D-rename-out [C08]
    ensures final(cache).wf(*final(w)), final(cache).path@ == old(cache).path@,
        inv(*final(w)),                                                                              //# O-D-rod-inv [C07]
        kept(*old(w), *final(w)),                                                                    //# O-D-rod-kept [C08]
        frame_except1(*old(w), *final(w), target_info.path@),                                   //# O-D-rod-frame [C09]
        final(w).execs == old(w).execs,                                                              //# O-D-rod-noexec [C02,C20]
        res matches Ok(r) ==> r is Recovered || r is NeedsRebuild,
        res matches Ok(FileResolution::Recovered) ==>                                                //# O-D-rod-recovered [C02,C07,C10,C20]
            old(w).files.contains_key(cpath(old(w).cache_dir, remembered_target_content_info.ticket.bytes()))
            && final(w).files == old(w).files.remove(cpath(old(w).cache_dir, remembered_target_content_info.ticket.bytes()))
                    .insert(target_info.path@, old(w).files[cpath(old(w).cache_dir, remembered_target_content_info.ticket.bytes())])
            && file_tk(*final(w), target_info.path@, remembered_target_content_info.ticket),
        cache_keeps_except(*old(w), *final(w), cpath(old(w).cache_dir, remembered_target_content_info.ticket.bytes()), target_info.path@),   //# O-D-rod-cache-keeps [C02,C10]
        res matches Ok(FileResolution::NeedsRebuild) ==> *final(w) == *old(w)                        //# O-D-rod-needs-rebuild [C02,C20]
            && !old(w).files.contains_key(cpath(old(w).cache_dir, remembered_target_content_info.ticket.bytes())),
        res is Err ==> *final(w) == *old(w),
//@ end

//@ extract blob.rs fn resolve_single_target
//@ props C02 C05 C07 C08 C09 C10 C18 C20
//@ ret res
//@ param Tracked(w): Tracked<&mut World>
//@ spec
    requires old(cache).wf(*old(w)), inv(*old(w)), no_urls(*downloader_cache_opt),
        old(w).targets.contains(target_info.path@) && !under(old(w).cache_dir, target_info.path@) && !old(w).dirs.contains(target_info.path@),
        rem_ok(target_info.file_state),
    ensures final(cache).wf(*final(w)), final(cache).path@ == old(cache).path@,
        inv(*final(w)),                                                                              //# O-D-rst-inv [C07]
        kept(*old(w), *final(w)),                                                                    //# O-D-rst-kept [C08]
        frame_except1(*old(w), *final(w), target_info.path@),                                   //# O-D-rst-frame [C09]
        final(w).execs == old(w).execs,                                                              //# O-D-rst-noexec [C02,C20]
        res matches Ok(r) ==> !(r is Downloaded),
        cache_keeps_except(*old(w), *final(w), cpath(old(w).cache_dir, remembered_target_content_info.ticket.bytes()), target_info.path@),   //# O-D-rst-cache-keeps [C02,C10]
        // resolution truth (C20) and "already correct / recoverable is not rebuilt" (C02)
        res matches Ok(FileResolution::AlreadyCorrect) ==> *final(w) == *old(w)                      //# O-D-resolution-uptodate [C02,C20]
            && file_tk(*old(w), target_info.path@, remembered_target_content_info.ticket),
        res matches Ok(FileResolution::Recovered) ==>                                                //# O-D-resolution-recovered [C02,C07,C10,C20]
            file_tk(*final(w), target_info.path@, remembered_target_content_info.ticket)
            && !file_tk(*old(w), target_info.path@, remembered_target_content_info.ticket)
            && (!old(w).files.contains_key(target_info.path@) ==>
                    old(w).files.contains_key(cpath(old(w).cache_dir, remembered_target_content_info.ticket.bytes()))
                    && final(w).files[target_info.path@] == old(w).files[cpath(old(w).cache_dir, remembered_target_content_info.ticket.bytes())]),
        res matches Ok(x) ==> single_post(*old(w), *final(w), target_info.path@, remembered_target_content_info.ticket.bytes(), x),   // (summary of the clauses here, used by the caller's loop)
        res matches Ok(FileResolution::NeedsRebuild) ==> !final(w).files.contains_key(target_info.path@)   //# O-D-resolution-needs-rebuild [C02,C20]
            && !file_tk(*old(w), target_info.path@, remembered_target_content_info.ticket)
            && !old(w).files.contains_key(cpath(old(w).cache_dir, remembered_target_content_info.ticket.bytes())),
//@ hint before 1/1 /match cache\.back_up_file_with_ticket/
            proof {
                cpath_under(w.cache_dir, current_target_ticket.bytes());
                cpath_under(w.cache_dir, remembered_target_content_info.ticket.bytes());
                if cpath(w.cache_dir, current_target_ticket.bytes()) == cpath(w.cache_dir, remembered_target_content_info.ticket.bytes()) {
                    cpath_inj(w.cache_dir, current_target_ticket.bytes(), remembered_target_content_info.ticket.bytes());
                }
            }
            let ghost w_start = *w;
//@ hint before 1/2 /restore_or_download\(/
            let ghost w_mid = *w;
            proof { kept_trans(w_start, w_mid, w_mid); }
//@ end

impl Blob {

//@ extract blob.rs impl /^Blob$/ fn forget_replaced_file_states
//@ props C18 C07 C01 C05 C10
//@ rewrite 1 /for \(i, info\) in self\.file_infos\.iter_mut\(\)\.enumerate\(\)/ => for i in 0..self.file_infos.len()
//@ insert after 1/1 /for \(i, info\) in self\.file_infos\.iter_mut\(\)\.enumerate\(\)\s*\{/ => let info = &mut self.file_infos[i];
//@ rewrite 1 /match resolutions\.get\(i\)/ => match vec_get(resolutions, i)
//@ spec
        requires old(self).all_rem_ok(),
        ensures final(self).paths() =~= old(self).paths(), final(self).file_infos@.len() == old(self).file_infos@.len(),
            forall|k: int| 0 <= k < old(self).file_infos@.len() ==> (#[trigger] final(self).file_infos@[k]).path@ == old(self).file_infos@[k].path@,
            // what is remembered afterwards is still valid (REM_OK), and for a replaced file it is the empty state, never the old one   //# O-D-forget-replaced [C18,C07,C10]
            final(self).all_rem_ok(),
            forall|k: int| 0 <= k < old(self).file_infos@.len() ==> (
                ((k < resolutions@.len() && resolutions@[k] is AlreadyCorrect) ==> (#[trigger] final(self).file_infos@[k]).file_state == old(self).file_infos@[k].file_state)
                && (!(k < resolutions@.len() && resolutions@[k] is AlreadyCorrect) ==> final(self).file_infos@[k].file_state.timestamp == 0)),
//@ loop 1 invariant
            invariant self.file_infos@.len() == old(self).file_infos@.len(), self.all_rem_ok(),
                forall|k: int| 0 <= k < self.file_infos@.len() ==> (#[trigger] self.file_infos@[k]).path@ == old(self).file_infos@[k].path@,
                forall|k: int| i <= k < self.file_infos@.len() ==> (#[trigger] self.file_infos@[k]).file_state == old(self).file_infos@[k].file_state,
                forall|k: int| 0 <= k < i ==> (
                    ((k < resolutions@.len() && resolutions@[k] is AlreadyCorrect) ==> (#[trigger] self.file_infos@[k]).file_state == old(self).file_infos@[k].file_state)
                    && (!(k < resolutions@.len() && resolutions@[k] is AlreadyCorrect) ==> self.file_infos@[k].file_state.timestamp == 0)),
//@ end

    spec fn all_absent(&self, w: World) -> bool { forall|k: int| 0 <= k < self.file_infos@.len() ==> !w.files.contains_key(#[trigger] self.file_infos@[k].path@) }

//@ extract blob.rs impl /^Blob$/ fn resolve_remembered_file_state_vec
//@ props C02 C05 C07 C08 C09 C10 C20
//@ ret res
//@ param Tracked(w): Tracked<&mut World>
//@ retype 1 /let mut resolutions = vec!\[\];/ => let mut resolutions : Vec<FileResolution> = Vec::new();
//@ rewrite 1 /for \(i, info\) in self\.file_infos\.iter\(\)\.enumerate\(\)/ => for i in 0..self.file_infos.len()
//@ insert after 1/1 /for \(i, info\) in self\.file_infos\.iter\(\)\.enumerate\(\)\s*\{/ => let info = &self.file_infos[i];
//@ hint before 1/1 /for \(i, info\) in self\.file_infos\.iter\(\)\.enumerate\(\)/
        proof { rrv_init(*w, *self, remembered_tickets.tickets()); }
//@ spec
        requires old(cache).wf(*old(w)), inv(*old(w)), no_urls(*downloader_cache_opt), self.wf(*old(w)), self.all_rem_ok(),
            remembered_tickets.infos@.len() == self.file_infos@.len(),                                 //# O-D-hist-wf-needed [C05]
        ensures final(cache).wf(*final(w)), final(cache).path@ == old(cache).path@,
            inv(*final(w)),                                                                            //# O-D-rrv-inv [C07]
            kept(*old(w), *final(w)),                                                                  //# O-D-rrv-kept [C08]
            frame_except(*old(w), *final(w), self.paths()),                                            //# O-D-rrv-frame [C09]
            final(w).execs == old(w).execs,                                                            //# O-D-rrv-noexec [C02,C20]
            res matches Ok(v) ==> v@.len() == self.file_infos@.len()                                   //# O-D-rrv-truth [C02,C10,C20]
                && (forall|k: int| 0 <= k < self.file_infos@.len() ==>
                        res_ok(*old(w), *final(w), self.file_infos@[k].path@, remembered_tickets.infos@[k].ticket.bytes(), #[trigger] v@[k]))
                && (forall|k: int| 0 <= k < self.file_infos@.len() && uniq_at(remembered_tickets.tickets(), k) ==>
                        res_unique(*old(w), *final(w), self.file_infos@[k].path@, remembered_tickets.infos@[k].ticket.bytes(), #[trigger] v@[k], self.all_absent(*old(w)))),
            res matches Ok(v) ==> (all_already_correct(v@) ==> *final(w) == *old(w)),                   //# O-D-rrv-noop [C02]
//@ loop 1 invariant
            invariant cache.wf(*w), cache.path@ == old(cache).path@, no_urls(*downloader_cache_opt), self.wf(*old(w)), self.wf(*w), self.all_rem_ok(),
                remembered_tickets.infos@.len() == self.file_infos@.len(),
                rrv_inv(*old(w), *w, *self, remembered_tickets.tickets(), resolutions@, i as int),
//@ hint before 1/1 /match resolve_single_target\(/
            let ghost w_i = *w;
            let ghost res0 = resolutions@;
            proof { assert(self.paths()[i as int] == self.file_infos@[i as int].path@); }
//@ hint after 1/1 /Err\(error\) => return Err\(error\),\s*\}/
            proof {
                assert(resolutions@ =~= res0.push(resolutions@[i as int]));
                assert forall|k: int| 0 <= k < remembered_tickets.tickets().len() implies (#[trigger] remembered_tickets.tickets()[k]).len() == 32 by {
                    assert(remembered_tickets.tickets()[k] == remembered_tickets.infos@[k].ticket.bytes());
                }
                rrv_step(*old(w), w_i, *w, *self, remembered_tickets.tickets(), res0, resolutions@[i as int], i as int);
            }
//@ end
}
spec fn all_already_correct(v: Seq<FileResolution>) -> bool { forall|k: int| 0 <= k < v.len() ==> (#[trigger] v[k]) is AlreadyCorrect }
proof fn aac_push(v: Seq<FileResolution>, r: FileResolution)
    ensures all_already_correct(v.push(r)) == (all_already_correct(v) && r is AlreadyCorrect)
{
    if all_already_correct(v.push(r)) {
        assert forall|k: int| 0 <= k < v.len() implies (#[trigger] v[k]) is AlreadyCorrect by { assert(v.push(r)[k] == v[k]); }
        assert(v.push(r)[v.len() as int] == r);
    }
}
// what resolve_single_target promises about one target p with remembered hash r, between worlds a and b
spec fn single_post(a: World, b: World, p: Seq<char>, r: Seq<u8>, x: FileResolution) -> bool {
    &&& kept(a, b) && frame_except1(a, b, p) && b.execs == a.execs && inv(b)
    &&& cache_keeps_except(a, b, cpath(a.cache_dir, r), p)
    &&& !(x is Downloaded)
    &&& (x is AlreadyCorrect ==> b == a && a.files.contains_key(p) && sha256(a.files[p].content) == r)
    &&& (x is Recovered ==> b.files.contains_key(p) && sha256(b.files[p].content) == r && !(a.files.contains_key(p) && sha256(a.files[p].content) == r)
            && (!a.files.contains_key(p) ==> a.files.contains_key(cpath(a.cache_dir, r)) && b.files[p] == a.files[cpath(a.cache_dir, r)]))
    &&& (x is NeedsRebuild ==> !b.files.contains_key(p) && !(a.files.contains_key(p) && sha256(a.files[p].content) == r) && !a.files.contains_key(cpath(a.cache_dir, r)))
}
// loop invariant of resolve_remembered_file_state_vec: w0 = world at entry, w = now, rs = resolutions so far, i = next target
spec fn rrv_inv(w0: World, w: World, b: Blob, rr: Seq<Seq<u8>>, rs: Seq<FileResolution>, i: int) -> bool {
    &&& 0 <= i <= b.file_infos@.len() && rs.len() == i && rr.len() == b.file_infos@.len()
    &&& same_consts(w0, w) && kept(w0, w) && frame_except(w0, w, b.paths()) && w.execs == w0.execs && inv(w)
    &&& (all_already_correct(rs) ==> w == w0)
    // done targets: their claim stays true
    &&& (forall|k: int| 0 <= k < i ==> res_ok(w0, w, b.file_infos@[k].path@, rr[k], #[trigger] rs[k]))
    &&& (forall|k: int| 0 <= k < i && uniq_at(rr, k) ==> res_unique(w0, w, b.file_infos@[k].path@, rr[k], #[trigger] rs[k], b.all_absent(w0)))
    // pending targets: still as they were; the cache entry of a uniquely remembered hash is still there
    &&& (forall|k: int| i <= k < b.file_infos@.len() ==> (w.files.contains_key(#[trigger] b.file_infos@[k].path@) == w0.files.contains_key(b.file_infos@[k].path@))
            && (w.files.contains_key(b.file_infos@[k].path@) ==> w.files[b.file_infos@[k].path@] == w0.files[b.file_infos@[k].path@]))
    &&& (forall|k: int| i <= k < b.file_infos@.len() && uniq_at(rr, k) && w0.files.contains_key(cpath(w0.cache_dir, #[trigger] rr[k]))
            ==> w.files.contains_key(cpath(w0.cache_dir, rr[k])) && (b.all_absent(w0) ==> w.files[cpath(w0.cache_dir, rr[k])] == w0.files[cpath(w0.cache_dir, rr[k])]))
}
proof fn rrv_init(w0: World, b: Blob, rr: Seq<Seq<u8>>)
    requires inv(w0), rr.len() == b.file_infos@.len()
    ensures rrv_inv(w0, w0, b, rr, Seq::<FileResolution>::empty(), 0)
{}
proof fn rrv_step(w0: World, wi: World, wn: World, b: Blob, rr: Seq<Seq<u8>>, rs: Seq<FileResolution>, x: FileResolution, i: int)
    requires b.wf(w0), rrv_inv(w0, wi, b, rr, rs, i), i < b.file_infos@.len(),
        single_post(wi, wn, b.file_infos@[i].path@, rr[i], x),
        forall|k: int| 0 <= k < rr.len() ==> (#[trigger] rr[k]).len() == 32,
    ensures rrv_inv(w0, wn, b, rr, rs.push(x), i + 1)
{
    let n = b.file_infos@.len() as int;
    let cd = w0.cache_dir;
    let pi = b.file_infos@[i].path@;
    let rs2 = rs.push(x);
    assert(b.paths()[i] == pi);
    frame1_to_n(wi, wn, pi, b.paths());
    frame_trans(w0, wi, wn, b.paths());
    kept_trans(w0, wi, wn);
    aac_push(rs, x);
    assert forall|k: int| 0 <= k < n && k != i implies (#[trigger] b.file_infos@[k]).path@ != pi && !under(cd, b.file_infos@[k].path@) by {}
    assert(!under(cd, pi));
    // untouched paths between wi and wn
    assert forall|k: int| 0 <= k < n && k != i implies
        (wn.files.contains_key(#[trigger] b.file_infos@[k].path@) == wi.files.contains_key(b.file_infos@[k].path@))
        && (wi.files.contains_key(b.file_infos@[k].path@) ==> wn.files[b.file_infos@[k].path@] == wi.files[b.file_infos@[k].path@]) by {
        let pk = b.file_infos@[k].path@;
        assert(pk != pi && !under(wi.cache_dir, pk));
        assert(wi.files.contains_key(pk) == wn.files.contains_key(pk));
    }
    assert forall|k: int| 0 <= k < i + 1 implies res_ok(w0, wn, b.file_infos@[k].path@, rr[k], #[trigger] rs2[k]) by {
        if k < i { assert(rs2[k] == rs[k]); assert(res_ok(w0, wi, b.file_infos@[k].path@, rr[k], rs[k])); }
        else { assert(rs2[k] == x); assert(wi.files.contains_key(pi) == w0.files.contains_key(pi)); }
    }
    assert forall|k: int| 0 <= k < i + 1 && uniq_at(rr, k) implies res_unique(w0, wn, b.file_infos@[k].path@, rr[k], #[trigger] rs2[k], b.all_absent(w0)) by {
        if k < i { assert(rs2[k] == rs[k]); assert(res_unique(w0, wi, b.file_infos@[k].path@, rr[k], rs[k], b.all_absent(w0))); }
        else {
            assert(rs2[k] == x);
            assert(wi.files.contains_key(pi) == w0.files.contains_key(pi));
            if w0.files.contains_key(cpath(cd, rr[i])) { assert(wi.files.contains_key(cpath(cd, rr[i]))); }
            if b.all_absent(w0) { assert(!w0.files.contains_key(b.file_infos@[i].path@)); }
        }
    }
    assert forall|k: int| i + 1 <= k < n && uniq_at(rr, k) && w0.files.contains_key(cpath(cd, #[trigger] rr[k]))
        implies wn.files.contains_key(cpath(cd, rr[k])) && (b.all_absent(w0) ==> wn.files[cpath(cd, rr[k])] == w0.files[cpath(cd, rr[k])]) by {
        cpath_under(cd, rr[k]);
        assert(rr[i] != rr[k]);
        if cpath(cd, rr[k]) == cpath(cd, rr[i]) { cpath_inj(cd, rr[k], rr[i]); }
        assert(wi.files.contains_key(cpath(cd, rr[k])));
        if b.all_absent(w0) { assert(!w0.files.contains_key(b.file_infos@[i].path@)); assert(!wi.files.contains_key(pi)); }
    }
}
spec fn uniq_at(ts: Seq<Seq<u8>>, k: int) -> bool { forall|j: int| 0 <= j < ts.len() && j != k ==> #[trigger] ts[j] != ts[k] }
spec fn cpath_under_fact(dir: Seq<char>, h: Seq<u8>) -> bool { under(dir, cpath(dir, h)) }

impl Blob {
//@ extract blob.rs impl /^Blob$/ fn resolve_with_no_current_file_states
//@ props C01 C04 C05 C07 C08 C09
//@ ret res
//@ param Tracked(w): Tracked<&mut World>
//@ retype 1 /let mut resolutions = vec!\[\];/ => let mut resolutions : Vec<FileResolution> = Vec::new();
//@ spec
        requires old(cache).wf(*old(w)), inv(*old(w)), self.wf(*old(w)), self.all_rem_ok(),
        ensures final(cache).wf(*final(w)), final(cache).path@ == old(cache).path@,
            inv(*final(w)),                                                                            //# O-D-rnc-inv [C07]
            kept(*old(w), *final(w)),                                                                  //# O-D-rnc-kept [C08]
            frame_except(*old(w), *final(w), self.paths()),                                            //# O-D-rnc-frame [C09]
            final(w).execs == old(w).execs,
            res matches Ok(v) ==> v@.len() == self.file_infos@.len()                                   //# O-D-rnc-all-displaced [C01,C08,C04]
                && (forall|k: int| 0 <= k < self.file_infos@.len() ==> (#[trigger] v@[k]) is NeedsRebuild)
                && self.all_absent(*final(w)),
//@ loop 1 binder it
//@ loop 1 invariant
            invariant cache.wf(*w), cache.path@ == old(cache).path@, inv(*w), self.wf(*w), self.all_rem_ok(),
                same_consts(*old(w), *w),
                kept(*old(w), *w), frame_except(*old(w), *w, self.paths()), w.execs == old(w).execs,
                resolutions@.len() == it.index@,
                forall|k: int| 0 <= k < it.index@ ==> (#[trigger] resolutions@[k]) is NeedsRebuild,
                forall|k: int| 0 <= k < it.index@ ==> !w.files.contains_key(#[trigger] self.file_infos@[k].path@),
//@ hint before 1/1 /match get_file_ticket\(/
            let ghost w_i = *w;
            proof { assert(self.paths()[it.index@] == self.file_infos@[it.index@].path@);
                    assert forall|k: int| 0 <= k < it.index@ implies (#[trigger] self.file_infos@[k]).path@ != self.file_infos@[it.index@].path@ by {} }
//@ hint before 1/1 /match cache\.back_up_file_with_ticket\(/
                    proof { cpath_under(w.cache_dir, current_target_ticket.bytes()); }
//@ end
}

// ---------- history.rs (in-memory part) ----------
spec fn hist_wf(h: Map<Ticket, FileStateVec>, n: int) -> bool { forall|k: Ticket| #![trigger h[k]] h.contains_key(k) ==> h[k].infos@.len() == n }

// ASSUMED: the remote history (network; outside every claim -- with no URL list it answers None)
impl DownloaderRuleHistory {
    #[verifier::external_body]
    fn get_file_state_vec(&self, source_ticket: &Ticket) -> (r: Option<FileStateVec>)
        ensures self.base_urls@.len() == 0 ==> r is None
    { unimplemented!() }
}
spec fn no_urls_h(d: Option<DownloaderRuleHistory>) -> bool { d matches Some(dh) ==> dh.base_urls@.len() == 0 }

impl RuleHistory {
    spec fn map(&self) -> Map<Ticket, FileStateVec> { self.source_to_targets@ }

//@ extract history.rs impl /^RuleHistory$/ fn new
//@ props C01 C11 C05
//@ ret res
//@ spec
        ensures res.map() == Map::<Ticket, FileStateVec>::empty(),
//@ end

//@ extract history.rs impl /^RuleHistory$/ fn insert
//@ props C17 C01 C05
//@ ret res
//@ spec
        ensures
            !old(self).map().contains_key(source_ticket) ==> res is Ok && final(self).map() == old(self).map().insert(source_ticket, file_state_vec),   //# O-D-insert-new [C01,C17]
            old(self).map().contains_key(source_ticket) ==> {
                &&& final(self).map() == old(self).map()                                                                              //# O-D-insert-keeps [C17]
                &&& (res is Ok <==> old(self).map()[source_ticket].tickets() =~= file_state_vec.tickets())                         //# O-D-insert-ok [C17]
                &&& ((res matches Err(RuleHistoryInsertError::TargetSizesDifferWeird)) <==> old(self).map()[source_ticket].infos@.len() != file_state_vec.infos@.len())
                &&& (res matches Err(RuleHistoryInsertError::Contradiction(v)) ==>                                                  //# O-D-insert-contradiction [C17]
                        v@ =~= diff_indices(old(self).map()[source_ticket].tickets(), file_state_vec.tickets(), file_state_vec.infos@.len() as int))
            },
//@ hint start
        broadcast use ticket_key_model;
//@ end

//@ extract history.rs impl /^RuleHistory$/ fn get_file_state_vec
//@ props C01 C02 C05
//@ ret res
//@ spec-file shared/get_file_state_vec.spec
//@ hint start
        broadcast use ticket_key_model;
//@ end
}

// ---------- work.rs ----------
// ASSUMED: system/mod.rs::to_command_script (string joining; the script is opaque to every contract)
uninterp spec fn to_script(lines: Seq<Seq<char>>) -> Seq<Seq<char>>;
spec fn strs(v: Seq<String>) -> Seq<Seq<char>> { v.map_values(|l: String| l@) }
#[verifier::external_body]
fn to_command_script(all_lines : Vec<String>) -> (r: CommandScript) ensures script_view(r) == to_script(strs(all_lines@)) { unimplemented!() }

// ASSUMED (R4): Blob::get_paths / get_file_infos are adapter / derived-Clone code; element-wise, order preserving
impl Blob {
    #[verifier::external_body]
    fn get_paths(self : &Self) -> (r: Vec<String>) ensures strs(r@) =~= self.paths() { unimplemented!() }
    #[verifier::external_body]
    fn get_file_infos(self : &Self) -> (r: Vec<FileInfo>) ensures r@ == self.file_infos@ { unimplemented!() }
}
impl Clone for FileStateVec { #[verifier::external_body] fn clone(&self) -> (r: FileStateVec) ensures r == *self { unimplemented!() } }

//@ extract work.rs fn needs_rebuild
//@ props C02 C20 C05
//@ ret res
//@ spec
    ensures res <==> exists|i: int| 0 <= i < resolutions@.len() && (#[trigger] resolutions@[i]) is NeedsRebuild,    //# O-D-needs-rebuild [C02,C20]
//@ loop 1 binder it
//@ loop 1 invariant
        invariant forall|i: int| 0 <= i < it.index@ ==> !((#[trigger] resolutions@[i]) is NeedsRebuild),
//@ end

spec fn cmd_ok(r: Result<CommandLineOutput, SystemError>) -> bool { r matches Ok(o) && o.code == Some(0i32) }

//@ extract work.rs fn to_command_line_input
//@ props C04 C05
//@ ret res
//@ retype 1 /let mut result = Err\(WorkError::NoCommandExecuted\);/ => let mut result : Result<CommandLineOutput, WorkError> = Err(WorkError::NoCommandExecuted);
//@ spec
    ensures
        res is Ok <==> (command_result@.len() > 0 && forall|i: int| 0 <= i < command_result@.len() ==> cmd_ok(#[trigger] command_result@[i])),   //# O-D-fail-detected [C04]
        res matches Ok(o) ==> o.code == Some(0i32),
        res matches Err(e) ==> e is NoCommandExecuted || e is CommandExecutedButErrored || e is CommandFailedToExecute,
//@ loop 1 binder it
//@ loop 1 invariant
        invariant forall|i: int| 0 <= i < it.index@ ==> cmd_ok(#[trigger] command_result@[i]),
            (result is Ok) == (it.index@ > 0),
            result matches Ok(o) ==> o.code == Some(0i32),
            result matches Err(e) ==> e is NoCommandExecuted,
//@ end

spec fn displaced_or_recorded(w: World, p: Seq<char>, h: Map<Ticket, FileStateVec>, st: Ticket, k: int) -> bool {
    !w.files.contains_key(p) || (h.contains_key(st) && sha256(w.files[p].content) == h[st].infos@[k].ticket.bytes())
}
// the command ran on world `mid` and produced `fin`
spec fn ran(mid: World, fin: World, script: Seq<Seq<char>>) -> bool {
    &&& fin.execs == mid.execs.push(script)
    &&& fin.files == cmd_files(script, mid)
    &&& fin.dirs == cmd_dirs(script, mid)
    &&& cmd_respects(mid, fin)
}
// the hashes in v are the true hashes of the blob's files in world w
spec fn true_hashes(w: World, b: Blob, v: FileStateVec) -> bool {
    &&& v.infos@.len() == b.file_infos@.len()
    &&& forall|i: int| 0 <= i < b.file_infos@.len() ==> file_tk(w, b.file_infos@[i].path@, (#[trigger] v.infos@[i]).ticket)
}
// ---- C01: what a from-scratch build would produce ----
// the hash of what the rule's (deterministic) command writes at `path` when its declared sources hash together to `st`
uninterp spec fn out_hash(script: Seq<Seq<char>>, st: Seq<u8>, path: Seq<char>) -> Seq<u8>;
// HYPOTHESIS of C01 ("commands are deterministic functions of their declared sources"), about one execution from world w0:
// if every target is absent or already holds that output, then afterwards every target that exists holds that output
spec fn cmd_det(script: Seq<Seq<char>>, st: Seq<u8>, paths: Seq<Seq<char>>, w0: World) -> bool {
    (forall|k: int| 0 <= k < paths.len() ==> !w0.files.contains_key(#[trigger] paths[k]) || sha256(w0.files[paths[k]].content) == out_hash(script, st, paths[k]))
    ==> (forall|k: int| 0 <= k < paths.len() ==> (cmd_files(script, w0).contains_key(#[trigger] paths[k]) ==> sha256(cmd_files(script, w0)[paths[k]].content) == out_hash(script, st, paths[k])))
}
// every target exists and holds the from-scratch output for sources `st`
spec fn outputs_ok(w: World, paths: Seq<Seq<char>>, script: Seq<Seq<char>>, st: Seq<u8>) -> bool {
    forall|k: int| 0 <= k < paths.len() ==> w.files.contains_key(#[trigger] paths[k]) && sha256(w.files[paths[k]].content) == out_hash(script, st, paths[k])
}
// HIST_TRUE: every remembered entry is the from-scratch output for its sources
spec fn hist_true(h: Map<Ticket, FileStateVec>, script: Seq<Seq<char>>, paths: Seq<Seq<char>>) -> bool {
    forall|st: Ticket, k: int| #![trigger h[st].infos@[k]] h.contains_key(st) && 0 <= k < paths.len() ==> h[st].infos@[k].ticket.bytes() == out_hash(script, st.bytes(), paths[k])
}
spec fn path_strs(paths: Seq<Seq<char>>, idx: Seq<usize>) -> Seq<Seq<char>> { Seq::new(idx.len(), |k: int| paths[idx[k] as int]) }

//@ extract work.rs fn rebuild_node
//@ props C01 C02 C04 C05 C07 C17 C18 C20
//@ ret res
//@ param Tracked(w): Tracked<&mut World>
//@ retype 1 /let mut contradicting_target_paths = Vec::new\(\);/ => let mut contradicting_target_paths : Vec<String> = Vec::new();
//@ spec
    requires inv(*old(w)), blob.wf(*old(w)), blob.all_rem_ok(),
        hist_wf(rule_history.map(), blob.file_infos@.len() as int),
        // C08 at the moment the command starts: every target is either out of the way (displaced into the cache or absent)
        // or holds exactly the output recorded for these sources, so whatever the command overwrites is not a last copy
        forall|k: int| 0 <= k < blob.file_infos@.len() ==> displaced_or_recorded(*old(w), #[trigger] blob.file_infos@[k].path@, rule_history.map(), sources_ticket, k),   //# O-D-exec-displaced [C08,C04]
    ensures
        ran(*old(w), *final(w), to_script(strs(command@))),                                             //# O-D-rebuild-one-exec [C02,C20]
        inv(*final(w)),                                                                                 //# O-D-rebuild-inv [C07]
        res matches Ok(r) ==> r.work_option matches WorkOption::CommandExecuted(o) && o.code == Some(0i32),            //# O-D-rebuild-option [C20,C04]
        res matches Ok(r) ==> r.blob.paths() =~= blob.paths() && r.blob.all_rem_ok(),                                  //# O-D-rebuild-blob-valid [C18,C07,C10]
        res matches Ok(r) ==> true_hashes(*final(w), blob, r.file_state_vec),                                          //# O-D-rebuild-true-hash [C01,C03]
        res matches Ok(r) ==> r.rule_history matches Some(h) && hist_wf(h.map(), blob.file_infos@.len() as int)        //# O-D-rebuild-history [C01,C17]
                && h.map().contains_key(sources_ticket) && h.map()[sources_ticket].tickets() =~= r.file_state_vec.tickets()
                && (forall|k: Ticket| #![trigger h.map()[k]] #![trigger h.map().contains_key(k)] rule_history.map().contains_key(k) ==> h.map().contains_key(k) && h.map()[k] == rule_history.map()[k])
                && (forall|k: Ticket| #![trigger h.map().contains_key(k)] h.map().contains_key(k) ==> k == sources_ticket || rule_history.map().contains_key(k)),
        // C01: under the determinism hypothesis and a true history, the outputs are the from-scratch outputs and the history stays true
        (cmd_det(to_script(strs(command@)), sources_ticket.bytes(), blob.paths(), *old(w)) && hist_true(rule_history.map(), to_script(strs(command@)), blob.paths()) && res is Ok)     //# O-D-rebuild-outputs [C01]
            ==> outputs_ok(*final(w), blob.paths(), to_script(strs(command@)), sources_ticket.bytes())
                && (res matches Ok(r) && r.rule_history matches Some(h) && hist_true(h.map(), to_script(strs(command@)), blob.paths())),
        // a contradiction names exactly the targets whose new hash differs from the recorded one; the record is kept (no history is returned)
        res matches Err(WorkError::Contradiction(ps)) ==> rule_history.map().contains_key(sources_ticket)    //# O-D-contradiction-paths [C17]
            && exists|v: FileStateVec| true_hashes(*final(w), blob, v) &&
                strs(ps@) =~= path_strs(blob.paths(), diff_indices(rule_history.map()[sources_ticket].tickets(), #[trigger] v.tickets(), blob.file_infos@.len() as int)),
        res matches Err(WorkError::TargetFileNotGenerated(p)) ==>                                       //# O-D-not-generated-names [C04]
            exists|i: int| 0 <= i < blob.file_infos@.len() && #[trigger] blob.file_infos@[i].path@ == p@,
//@ hint start
    let ghost blob0 = blob;
//@ hint after 1/1 /let command_result = [^;]*;/
    proof { assert(mt(*w)); assert(blob.wf(*w)); }
//@ hint before 1/1 /match rule_history\.insert\(/
    let ghost h0 = rule_history.map();
    let ghost fsv = file_state_vec;
    proof {
        assert forall|i: int| 0 <= i < blob0.file_infos@.len() implies (#[trigger] blob.file_infos@[i]).path@ == blob0.file_infos@[i].path@ by {
            assert(blob.paths()[i] == blob0.paths()[i]);
        }
        assert(true_hashes(*w, blob0, fsv));
    }
//@ hint before 1/1 /Ok\(\s*WorkResult\s*\{\s*file_state_vec : file_state_vec,\s*blob : blob,\s*work_option : WorkOption::CommandExecuted/
    proof {
        let script = to_script(strs(command@)); let st = sources_ticket; let paths = blob0.paths();
        if cmd_det(script, st.bytes(), paths, *old(w)) && hist_true(h0, script, paths) {
            assert forall|k: int| 0 <= k < paths.len() implies !old(w).files.contains_key(#[trigger] paths[k]) || sha256(old(w).files[paths[k]].content) == out_hash(script, st.bytes(), paths[k]) by {
                assert(paths[k] == blob0.file_infos@[k].path@);
                assert(displaced_or_recorded(*old(w), blob0.file_infos@[k].path@, h0, st, k));
                if old(w).files.contains_key(paths[k]) { assert(h0[st].infos@[k].ticket.bytes() == out_hash(script, st.bytes(), paths[k])); }
            }
            assert forall|k: int| 0 <= k < paths.len() implies w.files.contains_key(#[trigger] paths[k]) && sha256(w.files[paths[k]].content) == out_hash(script, st.bytes(), paths[k]) by {
                assert(paths[k] == blob0.file_infos@[k].path@);
                assert(file_tk(*w, blob0.file_infos@[k].path@, fsv.infos@[k].ticket));
            }
            let h1 = rule_history.map();
            assert forall|t: Ticket, k: int| #![trigger h1[t].infos@[k]] h1.contains_key(t) && 0 <= k < paths.len() implies h1[t].infos@[k].ticket.bytes() == out_hash(script, t.bytes(), paths[k]) by {
                if t == st {
                    assert(h1[st].tickets()[k] == fsv.tickets()[k]);
                    assert(paths[k] == blob0.file_infos@[k].path@);
                    assert(file_tk(*w, blob0.file_infos@[k].path@, fsv.infos@[k].ticket));
                } else { assert(h0.contains_key(t) && h1[t] == h0[t]); }
            }
        }
    }
//@ hint before 1/1 /return Err\(WorkError::Contradiction\(contradicting_target_paths\)\);/
                    proof {
                        assert(strs(contradicting_target_paths@) =~= path_strs(blob0.paths(), diff_indices(h0[sources_ticket].tickets(), fsv.tickets(), blob0.file_infos@.len() as int)));
                    }
//@ hint before 1/1 /let mut contradicting_target_paths/
                    proof { diff_indices_props(h0[sources_ticket].tickets(), fsv.tickets(), fsv.infos@.len() as int); }
                    let ghost di = diff_indices(h0[sources_ticket].tickets(), fsv.tickets(), fsv.infos@.len() as int);
//@ loop 1 binder it
//@ loop 1 invariant
                        invariant strs(paths@) =~= blob.paths(), contradicting_indices@ =~= di,
                            forall|k: int| 0 <= k < di.len() ==> 0 <= (#[trigger] di[k]) < paths@.len(),
                            contradicting_target_paths@.len() == it.index@,
                            forall|k: int| 0 <= k < it.index@ ==> (#[trigger] contradicting_target_paths@[k])@ == blob.paths()[di[k] as int],
//@ end

//@ extract work.rs fn resolve_with_cache
//@ props C01 C02 C05 C07 C08 C09 C10 C20
//@ ret res
//@ param Tracked(w): Tracked<&mut World>
//@ spec
    requires old(cache).wf(*old(w)), inv(*old(w)), no_urls(*downloader_cache_opt), no_urls_h(*downloader_rule_history_opt),
        blob.wf(*old(w)), blob.all_rem_ok(),
        hist_wf(rule_history.map(), blob.file_infos@.len() as int),                                     //# O-D-hist-wf [C05]
    ensures final(cache).wf(*final(w)), final(cache).path@ == old(cache).path@,
        inv(*final(w)),                                                                                 //# O-D-rwc-inv [C07]
        kept(*old(w), *final(w)),                                                                       //# O-D-rwc-kept [C08]
        frame_except(*old(w), *final(w), blob.paths()),                                                 //# O-D-rwc-frame [C09]
        final(w).execs == old(w).execs,                                                                 //# O-D-rwc-noexec [C02,C20]
        res matches Ok(v) ==> v@.len() == blob.file_infos@.len(),
        res matches Err(e) ==> e is ResolutionError,
        res matches Ok(v) ==> (rule_history.map().contains_key(*sources_ticket) ==>                     //# O-D-rwc-truth [C02,C10,C20]
            (forall|k: int| 0 <= k < blob.file_infos@.len() ==>
                    res_ok(*old(w), *final(w), blob.file_infos@[k].path@, rule_history.map()[*sources_ticket].infos@[k].ticket.bytes(), #[trigger] v@[k]))
            && (forall|k: int| 0 <= k < blob.file_infos@.len() && uniq_at(rule_history.map()[*sources_ticket].tickets(), k) ==>
                    res_unique(*old(w), *final(w), blob.file_infos@[k].path@, rule_history.map()[*sources_ticket].infos@[k].ticket.bytes(), #[trigger] v@[k], blob.all_absent(*old(w))))),
        res matches Ok(v) ==> ((rule_history.map().contains_key(*sources_ticket) && all_already_correct(v@)) ==> *final(w) == *old(w)),   //# O-D-rwc-noop [C02]
        res matches Ok(v) ==> (!rule_history.map().contains_key(*sources_ticket) ==>                    //# O-D-rwc-no-history [C01,C08]
            (forall|k: int| 0 <= k < blob.file_infos@.len() ==> (#[trigger] v@[k]) is NeedsRebuild) && blob.all_absent(*final(w))),
//@ end

// what handle_rule_node promises about the command: it ran at most once, and if it ran, ruler's own
// file-system changes all happened before it (world `mid`), none after
spec fn hrn_trace(a: World, b: World, script: Seq<Seq<char>>, paths: Seq<Seq<char>>) -> bool {
    ||| (b.execs == a.execs && kept(a, b) && frame_except(a, b, paths))
    ||| (exists|mid: World| #![trigger ran(mid, b, script)] mid.execs == a.execs && kept(a, mid) && frame_except(a, mid, paths) && inv(mid) && ran(mid, b, script))
}

//@ extract work.rs fn handle_rule_node
//@ props C01 C02 C03 C04 C05 C07 C08 C09 C10 C17 C18 C20
//@ ret res
//@ param Tracked(w): Tracked<&mut World>
//@ spec
    requires rule_ext.cache.wf(*old(w)), inv(*old(w)), no_urls(rule_ext.downloader_cache_opt), no_urls_h(rule_ext.downloader_rule_history_opt),
        info.blob.wf(*old(w)), info.blob.all_rem_ok(),
        hist_wf(rule_ext.rule_history.map(), info.blob.file_infos@.len() as int),                       //# O-D-hist-wf [C05]
    ensures
        same_consts(*old(w), *final(w)),
        inv(*final(w)),                                                                                 //# O-D-hrn-inv [C07]
        // at most one execution; ruler's own changes lose nothing (C08) and touch only this rule's targets and the cache (C09)
        hrn_trace(*old(w), *final(w), to_script(strs(rule_ext.command@)), info.blob.paths()),           //# O-D-hrn-trace [C02,C08,C09]
        res matches Ok(r) ==> true_hashes(*final(w), info.blob, r.file_state_vec),                     //# O-D-hrn-true-hash [C01,C03]
        res matches Ok(r) ==> r.blob.paths() =~= info.blob.paths() && r.blob.all_rem_ok(),             //# O-D-hrn-blob-valid [C18,C07,C10]
        res matches Ok(r) ==> !(r.work_option is SourceOnly),
        // 'Built' exactly when the command ran (C20); a command that ran exited 0 (C04)
        res matches Ok(r) ==> ((r.work_option is CommandExecuted) <==> final(w).execs != old(w).execs),                 //# O-D-option-built [C20]
        res matches Ok(r) ==> (r.work_option matches WorkOption::CommandExecuted(o) ==> o.code == Some(0i32)),         //# O-D-built-exit-zero [C04]
        // per-target statuses are true and none says 'Outdated' (C20); nothing ran (C02)
        res matches Ok(r) ==> (r.work_option matches WorkOption::Resolutions(v) ==> {                                  //# O-D-option-resolutions [C02,C20]
            &&& final(w).execs == old(w).execs
            &&& v@.len() == info.blob.file_infos@.len()
            &&& (rule_ext.rule_history.map().contains_key(rule_ext.sources_ticket) || info.blob.file_infos@.len() == 0)
            &&& forall|k: int| 0 <= k < info.blob.file_infos@.len() ==> !((#[trigger] v@[k]) is NeedsRebuild)
                    && res_ok(*old(w), *final(w), info.blob.file_infos@[k].path@, rule_ext.rule_history.map()[rule_ext.sources_ticket].infos@[k].ticket.bytes(), v@[k])
            &&& forall|k: int| 0 <= k < info.blob.file_infos@.len() && uniq_at(rule_ext.rule_history.map()[rule_ext.sources_ticket].tickets(), k) ==>
                    res_unique(*old(w), *final(w), info.blob.file_infos@[k].path@, rule_ext.rule_history.map()[rule_ext.sources_ticket].infos@[k].ticket.bytes(), #[trigger] v@[k], info.blob.all_absent(*old(w)))
            &&& ((rule_ext.rule_history.map().contains_key(rule_ext.sources_ticket) && all_already_correct(v@)) ==> *final(w) == *old(w))     // nothing at all changes when everything is up to date
        }),
        // history returned only with success, still well-formed, old entries kept, the new entry is what is on disk
        res matches Ok(r) ==> r.rule_history matches Some(h) && hist_wf(h.map(), info.blob.file_infos@.len() as int)  //# O-D-hrn-history [C01,C04,C17]
            && (forall|k: Ticket| #![trigger h.map()[k]] #![trigger h.map().contains_key(k)] rule_ext.rule_history.map().contains_key(k) ==> h.map().contains_key(k) && h.map()[k] == rule_ext.rule_history.map()[k])
            && (forall|k: Ticket| #![trigger h.map().contains_key(k)] h.map().contains_key(k) ==> k == rule_ext.sources_ticket || rule_ext.rule_history.map().contains_key(k))
            && (r.work_option is CommandExecuted ==> h.map().contains_key(rule_ext.sources_ticket) && h.map()[rule_ext.sources_ticket].tickets() =~= r.file_state_vec.tickets()),
        // C01: with deterministic commands and a true history, success means every target holds the from-scratch output for the
        // sources' hash, and the history handed back is still true
        ((forall|m: World| #[trigger] cmd_det(to_script(strs(rule_ext.command@)), rule_ext.sources_ticket.bytes(), info.blob.paths(), m))                        //# O-D-hrn-outputs [C01]
            && hist_true(rule_ext.rule_history.map(), to_script(strs(rule_ext.command@)), info.blob.paths()) && res is Ok)
            ==> outputs_ok(*final(w), info.blob.paths(), to_script(strs(rule_ext.command@)), rule_ext.sources_ticket.bytes())
                && (res matches Ok(r) && r.rule_history matches Some(h) && hist_true(h.map(), to_script(strs(rule_ext.command@)), info.blob.paths())),           //# O-D-hist-true [C01]
        // C02: remembered + every target correct or uniquely recoverable  ==>  no command
        (res is Ok && rule_ext.rule_history.map().contains_key(rule_ext.sources_ticket)                                 //# O-D-no-exec [C02]
            && forall|k: int| 0 <= k < info.blob.file_infos@.len() ==> {
                    let r = (#[trigger] rule_ext.rule_history.map()[rule_ext.sources_ticket].infos@[k]).ticket.bytes();
                    ||| (old(w).files.contains_key(info.blob.file_infos@[k].path@) && sha256(old(w).files[info.blob.file_infos@[k].path@].content) == r)
                    ||| (uniq_at(rule_ext.rule_history.map()[rule_ext.sources_ticket].tickets(), k) && old(w).files.contains_key(cpath(old(w).cache_dir, r))) })
            ==> final(w).execs == old(w).execs,
        res matches Err(WorkError::Contradiction(ps)) ==> rule_ext.rule_history.map().contains_key(rule_ext.sources_ticket)    //# O-D-hrn-contradiction [C17]
            && exists|v: FileStateVec| true_hashes(*final(w), info.blob, v) &&
                strs(ps@) =~= path_strs(info.blob.paths(), diff_indices(rule_ext.rule_history.map()[rule_ext.sources_ticket].tickets(), #[trigger] v.tickets(), info.blob.file_infos@.len() as int)),
        res matches Err(WorkError::TargetFileNotGenerated(p)) ==>                                       //# O-D-hrn-not-generated [C04]
            exists|i: int| 0 <= i < info.blob.file_infos@.len() && #[trigger] info.blob.file_infos@[i].path@ == p@,
//@ hint before 1/1 /Ok\(\s*WorkResult\s*\{\s*file_state_vec : file_state_vec,\s*blob : info\.blob,/
                proof {
                    let script = to_script(strs(rule_ext.command@)); let st = rule_ext.sources_ticket; let paths = info.blob.paths(); let h0 = rule_ext.rule_history.map();
                    if hist_true(h0, script, paths) {
                        assert forall|k: int| 0 <= k < paths.len() implies w.files.contains_key(#[trigger] paths[k]) && sha256(w.files[paths[k]].content) == out_hash(script, st.bytes(), paths[k]) by {
                            assert(paths[k] == info.blob.file_infos@[k].path@);
                            assert(h0.contains_key(st));
                            assert(res_ok(*old(w), *w, info.blob.file_infos@[k].path@, h0[st].infos@[k].ticket.bytes(), resolutions@[k]));
                            assert(!(resolutions@[k] is NeedsRebuild));
                            assert(h0[st].infos@[k].ticket.bytes() == out_hash(script, st.bytes(), paths[k]));
                        }
                    }
                }
//@ hint before 1/1 /if needs_rebuild\(&resolutions\)/
            let ghost w_mid = *w;
            proof {
                assert(w_mid.execs.push(to_script(strs(rule_ext.command@))).len() != w_mid.execs.len());
                if !rule_ext.rule_history.map().contains_key(rule_ext.sources_ticket) && info.blob.file_infos@.len() > 0 { assert(resolutions@[0] is NeedsRebuild); }
                assert forall|k: int| 0 <= k < info.blob.file_infos@.len() implies
                    displaced_or_recorded(w_mid, #[trigger] info.blob.file_infos@[k].path@, rule_ext.rule_history.map(), rule_ext.sources_ticket, k) by {
                    if rule_ext.rule_history.map().contains_key(rule_ext.sources_ticket) {
                        assert(res_ok(*old(w), w_mid, info.blob.file_infos@[k].path@, rule_ext.rule_history.map()[rule_ext.sources_ticket].infos@[k].ticket.bytes(), resolutions@[k]));
                    }
                }
            }
//@ end

//@ extract work.rs fn handle_source_only_node
//@ props C01 C03 C04 C09 C05
//@ ret res
//@ param Tracked(w): Tracked<&mut World>
//@ spec
    requires blob.all_rem_ok(), mt(*old(w)), blob.wf(*old(w)),
    ensures *final(w) == *old(w),                                                                       //# O-D-leaf-readonly [C09]
        res matches Ok(r) ==> true_hashes(*old(w), blob, r.file_state_vec),                             //# O-D-src-true-hash [C01,C03]
        res matches Ok(r) ==> r.work_option is SourceOnly && r.rule_history is None && r.blob == blob,
        res matches Err(WorkError::FileNotFound(p)) ==>                                                 //# O-D-leaf-missing-names [C04]
            exists|i: int| 0 <= i < blob.file_infos@.len() && #[trigger] blob.file_infos@[i].path@ == p@ && !old(w).files.contains_key(p@),
//@ end

//@ extract work.rs fn clean_targets
//@ props C05 C07 C08 C09 C10
//@ ret res
//@ param Tracked(w): Tracked<&mut World>
//@ spec
    requires old(cache).wf(*old(w)), inv(*old(w)), blob.wf(*old(w)), blob.all_rem_ok(),
    ensures final(cache).wf(*final(w)), final(cache).path@ == old(cache).path@,
        inv(*final(w)),                                                                                 //# O-D-clean-inv [C07]
        kept(*old(w), *final(w)),                                                                       //# O-D-clean-kept [C08]
        frame_except(*old(w), *final(w), blob.paths()),                                                 //# O-D-clean-frame [C09]
        final(w).execs == old(w).execs,
        // after a successful clean no target exists, and each one's whole entry (bytes, mtime, exec bit) is in the cache under its hash
        res is Ok ==> blob.all_absent(*final(w)),                                                       //# O-D-clean-removed [C10]
        res is Ok ==> forall|k: int| 0 <= k < blob.file_infos@.len() && old(w).files.contains_key(#[trigger] blob.file_infos@[k].path@) ==>   //# O-D-clean-cached [C10]
            in_cache(*final(w), sha256(old(w).files[blob.file_infos@[k].path@].content))
            && (uniq_content_at(*old(w), blob, k) ==> final(w).files[cpath(old(w).cache_dir, sha256(old(w).files[blob.file_infos@[k].path@].content))] == old(w).files[blob.file_infos@[k].path@]),
//@ loop 1 binder it
//@ loop 1 invariant
        invariant cache.wf(*w), cache.path@ == old(cache).path@, inv(*w), blob.wf(*w), blob.all_rem_ok(),
            same_consts(*old(w), *w),
            kept(*old(w), *w), frame_except(*old(w), *w, blob.paths()), w.execs == old(w).execs,
            // done targets are gone and cached; pending targets are as they were
            forall|k: int| 0 <= k < it.index@ ==> !w.files.contains_key(#[trigger] blob.file_infos@[k].path@),
            forall|k: int| 0 <= k < it.index@ && old(w).files.contains_key(#[trigger] blob.file_infos@[k].path@) ==>
                in_cache(*w, sha256(old(w).files[blob.file_infos@[k].path@].content)),
            forall|k: int| 0 <= k < it.index@ && old(w).files.contains_key(#[trigger] blob.file_infos@[k].path@) && uniq_content_at(*old(w), blob, k) ==>
                w.files[cpath(old(w).cache_dir, sha256(old(w).files[blob.file_infos@[k].path@].content))] == old(w).files[blob.file_infos@[k].path@],
            forall|k: int| it.index@ <= k < blob.file_infos@.len() ==> (w.files.contains_key(#[trigger] blob.file_infos@[k].path@) == old(w).files.contains_key(blob.file_infos@[k].path@))
                && (w.files.contains_key(blob.file_infos@[k].path@) ==> w.files[blob.file_infos@[k].path@] == old(w).files[blob.file_infos@[k].path@]),
//@ hint before 1/1 /if system\.is_file\(&target_info\.path/
        let ghost w_i = *w;
        proof {
            assert(blob.paths()[it.index@] == blob.file_infos@[it.index@].path@);
            assert forall|k: int| 0 <= k < blob.file_infos@.len() && k != it.index@ implies (#[trigger] blob.file_infos@[k]).path@ != blob.file_infos@[it.index@].path@ by {}
            if w.files.contains_key(target_info.path@) {
                let h_i = sha256(w.files[target_info.path@].content);
                cpath_under(w.cache_dir, h_i);
                assert forall|k: int| 0 <= k < blob.file_infos@.len() && old(w).files.contains_key(#[trigger] blob.file_infos@[k].path@)
                    && cpath(w.cache_dir, sha256(old(w).files[blob.file_infos@[k].path@].content)) == cpath(w.cache_dir, h_i)
                    implies sha256(old(w).files[blob.file_infos@[k].path@].content) == h_i by {
                    cpath_inj(w.cache_dir, sha256(old(w).files[blob.file_infos@[k].path@].content), h_i);
                }
            }
        }
//@ end

// closure #1 of clean(): the body of a rule's clean thread -- it hands exactly its captures to clean_targets and returns its verdict
// unchanged (the spawn loop around it is unit G; the join loop is unit F)
//@ extract build.rs fn clean closure 1
//@ props C05 C08 C09 C10
//@ sig fn clean_thread<SystemType : System>(blob: Blob, mut system_clone: SystemType, mut local_cache_clone: SysCache<SystemType>, Tracked(w): Tracked<&mut World>) -> (res: Result<(), WorkError>)
//@ spec
    requires local_cache_clone.wf(*old(w)), inv(*old(w)), blob.wf(*old(w)), blob.all_rem_ok(),
    ensures
        inv(*final(w)), kept(*old(w), *final(w)),                                                       //# O-D-clean-thread-kept [C08]
        frame_except(*old(w), *final(w), blob.paths()),                                                 //# O-D-clean-thread-frame [C09]
        res is Ok ==> blob.all_absent(*final(w)),                                                       //# O-D-clean-thread-removed [C10]
        res is Ok ==> forall|k: int| 0 <= k < blob.file_infos@.len() && old(w).files.contains_key(#[trigger] blob.file_infos@[k].path@) ==>   //# O-D-clean-thread-cached [C10]
            in_cache(*final(w), sha256(old(w).files[blob.file_infos@[k].path@].content)),
//@ end
// no other existing target of the blob has the same content hash as target k
spec fn uniq_content_at(w: World, b: Blob, k: int) -> bool {
    forall|j: int| 0 <= j < b.file_infos@.len() && j != k && w.files.contains_key(#[trigger] b.file_infos@[j].path@) ==> sha256(w.files[b.file_infos@[j].path@].content) != sha256(w.files[b.file_infos@[k].path@].content)
}

// ---------- verified clients: compositions the way build.rs / clean() compose them (no repo code; checked by Verus) ----------

// C10: clean, then build.  The file-state table handed to the build may say anything valid.
fn client_clean_then_build<SystemType: System>(
    blob : Blob, system : &mut SystemType, cache : &mut SysCache<SystemType>,
    info : HandleNodeInfo<SystemType>, rule_ext : RuleExt<SystemType>, Tracked(w): Tracked<&mut World>)
    -> (res: (Result<(), WorkError>, Option<Result<WorkResult, WorkError>>))
    requires
        old(cache).wf(*old(w)), rule_ext.cache.wf(*old(w)), inv(*old(w)),
        blob.wf(*old(w)), blob.all_rem_ok(), info.blob.all_rem_ok(), blob.file_infos@.len() > 0,
        info.blob.file_infos@.len() == blob.file_infos@.len(),
        forall|k: int| 0 <= k < blob.file_infos@.len() ==> (#[trigger] info.blob.file_infos@[k]).path@ == blob.file_infos@[k].path@,
        no_urls(rule_ext.downloader_cache_opt), no_urls_h(rule_ext.downloader_rule_history_opt),
        hist_wf(rule_ext.rule_history.map(), blob.file_infos@.len() as int),
        // the targets were up to date before the clean: the history remembers exactly their hashes for the current sources
        rule_ext.rule_history.map().contains_key(rule_ext.sources_ticket),
        forall|k: int| 0 <= k < blob.file_infos@.len() ==> old(w).files.contains_key(#[trigger] blob.file_infos@[k].path@)
            && rule_ext.rule_history.map()[rule_ext.sources_ticket].infos@[k].ticket.bytes() == sha256(old(w).files[blob.file_infos@[k].path@].content),
        // ... and their contents are pairwise different
        forall|j: int, k: int| 0 <= j < k < blob.file_infos@.len() ==>
            sha256(old(w).files[#[trigger] blob.file_infos@[j].path@].content) != sha256(old(w).files[#[trigger] blob.file_infos@[k].path@].content),
    ensures
        // after the clean no target exists and each one's content is in the cache                                   //# O-D-client-clean [C10]
        res.0 is Ok ==> res.1 is Some,
        // the following build runs no command and puts every target back: bytes, executable bit (the whole entry)    //# O-D-client-clean-build [C10]
        (res.0 is Ok && res.1 matches Some(Ok(r))) ==> final(w).execs == old(w).execs
            && forall|k: int| 0 <= k < blob.file_infos@.len() ==> final(w).files.contains_key(#[trigger] blob.file_infos@[k].path@)
                    && final(w).files[blob.file_infos@[k].path@] == old(w).files[blob.file_infos@[k].path@],
{
    let ghost w0 = *w;
    let ghost n = blob.file_infos@.len() as int;
    let ghost hs = rule_ext.rule_history.map()[rule_ext.sources_ticket];
    let ghost cmd = to_script(strs(rule_ext.command@));
    let ghost b0 = blob;
    let ghost b1 = info.blob;
    let r1 = clean_targets(blob, system, cache, Tracked(w));
    if r1.is_err() { return (r1, None); }
    let ghost w1 = *w;
    proof {
        assert forall|k: int| 0 <= k < n implies uniq_content_at(w0, b0, k) by {}
        assert forall|k: int| 0 <= k < n implies !w1.files.contains_key(#[trigger] b1.file_infos@[k].path@) by { assert(!w1.files.contains_key(b0.file_infos@[k].path@)); }
        assert(b1.wf(w1)) by {
            assert forall|k: int| 0 <= k < n implies w1.targets.contains(#[trigger] b1.file_infos@[k].path@) && !under(w1.cache_dir, b1.file_infos@[k].path@) && !w1.dirs.contains(b1.file_infos@[k].path@) by {
                assert(b1.file_infos@[k].path@ == b0.file_infos@[k].path@);
            }
            assert forall|i: int, j: int| 0 <= i < j < n implies b1.file_infos@[i].path@ != b1.file_infos@[j].path@ by {
                assert(b1.file_infos@[i].path@ == b0.file_infos@[i].path@); assert(b1.file_infos@[j].path@ == b0.file_infos@[j].path@);
            }
        }
        assert(b1.all_absent(w1));
        assert forall|k: int| 0 <= k < n implies uniq_at(hs.tickets(), k) && w1.files.contains_key(cpath(w1.cache_dir, #[trigger] hs.tickets()[k]))
            && w1.files[cpath(w1.cache_dir, hs.tickets()[k])] == w0.files[b0.file_infos@[k].path@] by {
            assert(w0.files.contains_key(b0.file_infos@[k].path@));
            assert(hs.tickets()[k] == hs.infos@[k].ticket.bytes());
            assert forall|j: int| 0 <= j < hs.tickets().len() && j != k implies #[trigger] hs.tickets()[j] != hs.tickets()[k] by {
                assert(hs.tickets()[j] == hs.infos@[j].ticket.bytes());
                assert(w0.files.contains_key(b0.file_infos@[j].path@));
                if j < k { assert(sha256(w0.files[b0.file_infos@[j].path@].content) != sha256(w0.files[b0.file_infos@[k].path@].content)); }
                else { assert(sha256(w0.files[b0.file_infos@[k].path@].content) != sha256(w0.files[b0.file_infos@[j].path@].content)); }
            }
        }
    }
    let r2 = handle_rule_node(info, rule_ext, Tracked(w));
    proof {
        if r2 is Ok {
            let r = r2->Ok_0;
            // O-D-no-exec applies: every target is uniquely recoverable
            assert forall|k: int| 0 <= k < n implies
                (uniq_at(hs.tickets(), k) && w1.files.contains_key(cpath(w1.cache_dir, (#[trigger] hs.infos@[k]).ticket.bytes()))) by {
                assert(hs.tickets()[k] == hs.infos@[k].ticket.bytes());
            }
            assert(w.execs == w1.execs);
            assert(!(r.work_option is CommandExecuted));
            if r.work_option is Resolutions {
                let v = r.work_option->Resolutions_0;
                assert forall|k: int| 0 <= k < n implies w.files.contains_key(#[trigger] b0.file_infos@[k].path@) && w.files[b0.file_infos@[k].path@] == w0.files[b0.file_infos@[k].path@] by {
                    assert(b1.file_infos@[k].path@ == b0.file_infos@[k].path@);
                    assert(hs.tickets()[k] == hs.infos@[k].ticket.bytes());
                    assert(res_ok(w1, *w, b1.file_infos@[k].path@, hs.infos@[k].ticket.bytes(), v@[k]));
                    assert(res_unique(w1, *w, b1.file_infos@[k].path@, hs.infos@[k].ticket.bytes(), v@[k], b1.all_absent(w1)));
                    assert(!(v@[k] is NeedsRebuild));
                }
            }
        }
    }
    /*VACPROBE*/
    (r1, Some(r2))
}

// C02: build the same rule again with nothing changed in between.  The second build gets what the first
// one returned: its blob (file-state table round trip) and its history (history file round trip).
fn client_build_twice<SystemType: System>(
    info : HandleNodeInfo<SystemType>, rule_ext : RuleExt<SystemType>,
    system2 : SystemType, cache2 : SysCache<SystemType>, sources_ticket2 : Ticket, command2 : Vec<String>,
    Tracked(w): Tracked<&mut World>)
    -> (res: (Option<Result<WorkResult, WorkError>>, Ghost<World>))
    requires
        rule_ext.cache.wf(*old(w)), cache2.wf(*old(w)), inv(*old(w)),
        info.blob.wf(*old(w)), info.blob.all_rem_ok(), info.blob.file_infos@.len() > 0,
        no_urls(rule_ext.downloader_cache_opt), no_urls_h(rule_ext.downloader_rule_history_opt),
        hist_wf(rule_ext.rule_history.map(), info.blob.file_infos@.len() as int),
        sources_ticket2 == rule_ext.sources_ticket, command2@ == rule_ext.command@,
    ensures
        // if both builds succeed, the second one runs no command and changes no file at all (inside or outside the cache)   //# O-D-client-repeat [C02]
        // (res.1 is the world as the first build left it)
        res.0 matches Some(Ok(r2)) ==> *final(w) == res.1@
            && (r2.work_option matches WorkOption::Resolutions(v) && all_already_correct(v@)),
{
    let ghost n = info.blob.file_infos@.len() as int;
    let ghost b0 = info.blob;
    let r1 = handle_rule_node(info, rule_ext, Tracked(w));
    let ghost mid = *w;
    match r1 {
        Err(_) => (None, Ghost(mid)),
        Ok(wr) => {
            let ghost st = sources_ticket2;
            match wr.rule_history {
                None => (None, Ghost(mid)),
                Some(h) => {
                    proof {
                        assert(wr.blob.file_infos@.len() == n) by { assert(wr.blob.paths().len() == b0.paths().len()); }
                        assert forall|k: int| 0 <= k < n implies (#[trigger] wr.blob.file_infos@[k]).path@ == b0.file_infos@[k].path@ by { assert(wr.blob.paths()[k] == b0.paths()[k]); }
                        assert(wr.blob.wf(mid)) by {
                            assert forall|k: int| 0 <= k < n implies mid.targets.contains(#[trigger] wr.blob.file_infos@[k].path@) && !under(mid.cache_dir, wr.blob.file_infos@[k].path@) && !mid.dirs.contains(wr.blob.file_infos@[k].path@) by {
                                assert(wr.blob.file_infos@[k].path@ == b0.file_infos@[k].path@);
                                hrn_dirs(*old(w), mid, to_script(strs(command2@)), b0.paths(), b0.file_infos@[k].path@);
                            }
                            assert forall|i: int, j: int| 0 <= i < j < n implies wr.blob.file_infos@[i].path@ != wr.blob.file_infos@[j].path@ by {
                                assert(wr.blob.file_infos@[i].path@ == b0.file_infos@[i].path@); assert(wr.blob.file_infos@[j].path@ == b0.file_infos@[j].path@);
                            }
                        }
                        // after a successful build the history remembers, for these sources, exactly what is on disk
                        assert(h.map().contains_key(st));
                        assert forall|k: int| 0 <= k < n implies file_tk(mid, b0.file_infos@[k].path@, (#[trigger] h.map()[st].infos@[k]).ticket) by {
                            if wr.work_option is CommandExecuted {
                                assert(h.map()[st].tickets()[k] == wr.file_state_vec.tickets()[k]);
                                assert(file_tk(mid, b0.file_infos@[k].path@, wr.file_state_vec.infos@[k].ticket));
                            } else {
                                if wr.work_option is Resolutions {
                                    let v = wr.work_option->Resolutions_0;
                                    assert(res_ok(*old(w), mid, b0.file_infos@[k].path@, h.map()[st].infos@[k].ticket.bytes(), v@[k]));
                                    assert(!(v@[k] is NeedsRebuild));
                                }
                            }
                        }
                    }
                    let mut info2 = HandleNodeInfo { system: system2, blob: wr.blob };
                    let ext2 = RuleExt { sources_ticket: sources_ticket2, command: command2, rule_history: h, cache: cache2,
                        downloader_cache_opt: None, downloader_rule_history_opt: None };
                    let r2 = handle_rule_node(info2, ext2, Tracked(w));
                    proof {
                        if r2 is Ok {
                            let x = r2->Ok_0;
                            // every target already holds its remembered hash: O-D-no-exec, then each status is Up-to-date
                            assert(w.execs == mid.execs);
                            if x.work_option is Resolutions {
                                let v = x.work_option->Resolutions_0;
                                assert forall|k: int| 0 <= k < v@.len() implies (#[trigger] v@[k]) is AlreadyCorrect by {
                                    assert(wr.blob.file_infos@[k].path@ == b0.file_infos@[k].path@);
                                    assert(file_tk(mid, b0.file_infos@[k].path@, h.map()[st].infos@[k].ticket));
                                    assert(res_ok(mid, *w, wr.blob.file_infos@[k].path@, h.map()[st].infos@[k].ticket.bytes(), v@[k]));
                                }
                                assert(*w == mid);
                            }
                        }
                    }
                    /*VACPROBE*/
                    (Some(r2), Ghost(mid))
                }
            }
        }
    }
}
// directories at target paths: ruler creates none, and (environment) neither do commands
proof fn hrn_dirs(a: World, b: World, script: Seq<Seq<char>>, paths: Seq<Seq<char>>, p: Seq<char>)
    requires hrn_trace(a, b, script, paths), same_consts(a, b), a.targets.contains(p), !a.dirs.contains(p)
    ensures !b.dirs.contains(p)
{
    if !(b.execs == a.execs && kept(a, b) && frame_except(a, b, paths)) {
        let mid = choose|mid: World| #![trigger ran(mid, b, script)] mid.execs == a.execs && kept(a, mid) && frame_except(a, mid, paths) && inv(mid) && ran(mid, b, script);
        assert(mid.dirs == a.dirs);
        assert(cmd_respects(mid, b));
    }
}
} // verus!
fn main() {}
