//@ unit S
//@ default-props C12 C05
// Unit S: sort.rs -- dependency analysis.  Under contract here: Frame::{from_rule_and_index, visit},
// rules_to_frame_buffer (duplicate-target verdict, canonical frame table), topological_sort / topological_sort_all
// (missing-goal verdict, call protocol).  The depth-first traversal `sort_once` and `get_result` are covered by the
// BOUNDED stand-in tools/bounded_sort.py (labelled bounded in the evidence, never counted as proved).
use vstd::prelude::*;
use vstd::std_specs::hash::*;
use std::collections::HashMap;
verus! {

//@ extract ticket.rs struct Ticket
//@ end
//@ extract rule.rs struct Rule
//@ end
//@ extract sort.rs struct Frame
//@ end
//@ extract sort.rs struct FrameBufferValue
//@ end
//@ extract sort.rs enum TopologicalSortError
//@ end
//@ extract sort.rs enum SourceIndex
//@ end
//@ extract sort.rs struct Node
//@ end
//@ extract sort.rs struct NodePack
//@ end

uninterp spec fn sha256_raw(c: Seq<u8>) -> Seq<u8>;
spec fn sha256(c: Seq<u8>) -> Seq<u8> { if sha256_raw(c).len() == 32 { sha256_raw(c) } else { Seq::new(32, |i: int| 0u8) } }
uninterp spec fn utf8(s: Seq<char>) -> Seq<u8>;
spec fn strs(v: Seq<String>) -> Seq<Seq<char>> { v.map_values(|l: String| l@) }
impl Ticket { spec fn bytes(&self) -> Seq<u8> { self.sha@ } }

// ---------- ASSUMED: std sorting / ordering (as in unit B) ----------
uninterp spec fn str_le(a: Seq<char>, b: Seq<char>) -> bool;
spec fn sorted(v: Seq<Seq<char>>) -> bool { forall|i: int, j: int| 0 <= i <= j < v.len() ==> str_le(#[trigger] v[i], #[trigger] v[j]) }
uninterp spec fn sort_spec(v: Seq<Seq<char>>) -> Seq<Seq<char>>;
#[verifier::external_body] proof fn sort_axioms(v: Seq<Seq<char>>)
    ensures sorted(sort_spec(v)), sort_spec(v).to_multiset() == v.to_multiset(), sorted(v) ==> sort_spec(v) == v, sort_spec(v).len() == v.len() {}
#[verifier::external_body]
fn sort_strings(v: &mut Vec<String>) ensures strs(final(v)@) == sort_spec(strs(old(v)@)) { v.sort() }
// a rule as the sorter sees it
struct RuleSpec { targets: Seq<Seq<char>>, sources: Seq<Seq<char>>, command: Seq<Seq<char>> }
spec fn rule_view(r: Rule) -> RuleSpec { RuleSpec { targets: strs(r.targets@), sources: strs(r.sources@), command: strs(r.command@) } }
spec fn rules_view(rs: Seq<Rule>) -> Seq<RuleSpec> { rs.map_values(|r: Rule| rule_view(r)) }
// Vec<Rule>::sort by the derived Ord: a canonical rearrangement (the same list for every ordering of the same rules)
uninterp spec fn sort_rules_spec(rs: Seq<RuleSpec>) -> Seq<RuleSpec>;
#[verifier::external_body] proof fn sort_rules_axioms(rs: Seq<RuleSpec>)
    ensures sort_rules_spec(rs).to_multiset() == rs.to_multiset(), sort_rules_spec(rs).len() == rs.len() {}
//# L-S-canonical [C12]
// ASSUMED (std sort of a total order): permutations of the same rules sort to the same list -- this is what makes the plan
// independent of the order of the rules in the input, together with the absence of hash-map iteration in sort.rs
#[verifier::external_body] proof fn sort_rules_canonical(a: Seq<RuleSpec>, b: Seq<RuleSpec>)
    requires a.to_multiset() == b.to_multiset() ensures sort_rules_spec(a) == sort_rules_spec(b) {}
#[verifier::external_body]
fn sort_rules(v: &mut Vec<Rule>) ensures rules_view(final(v)@) == sort_rules_spec(rules_view(old(v)@)) { unimplemented!() }

// the characters hashed into a rule's identity (unit B)
uninterp spec fn ident_input(t: Seq<Seq<char>>, s: Seq<Seq<char>>, c: Seq<Seq<char>>) -> Seq<char>;
impl Rule {
    // ASSUMED here, PROVED in unit B (O-B-identity)
    #[verifier::external_body]
    fn get_ticket(self: &Self) -> (res: Ticket)
        ensures res.bytes() == sha256(utf8(ident_input(strs(self.targets@), strs(self.sources@), strs(self.command@))))
    { unimplemented!() }
}

// frame f is the (target- and source-sorted) rule r, stored at buffer index b
spec fn frame_of(f: Frame, r: RuleSpec, b: int) -> bool {
    &&& strs(f.targets@) == sort_spec(r.targets) && strs(f.sources@) == sort_spec(r.sources) && strs(f.command@) == r.command
    &&& f.rule_ticket.bytes() == sha256(utf8(ident_input(sort_spec(r.targets), sort_spec(r.sources), r.command)))
    &&& f.index == b && f.sub_index == 0 && !f.visited
}

spec fn slot_ok(v: FrameBufferValue, r: RuleSpec, b: int) -> bool { v.final_index == 0 && v.opt_frame is Some && frame_of(v.opt_frame->Some_0, r, b) }

impl Frame {
//@ extract sort.rs impl /^Frame$/ fn from_rule_and_index
//@ props C12 C01 C05
//@ ret res
//@ spec
        ensures strs(res.targets@) == strs(rule.targets@), strs(res.sources@) == strs(rule.sources@), strs(res.command@) == strs(rule.command@),
            res.rule_ticket.bytes() == sha256(utf8(ident_input(strs(rule.targets@), strs(rule.sources@), strs(rule.command@)))),     //# O-S-frame-identity [C12,C01]
            res.index == index, res.sub_index == 0, !res.visited,
//@ end

//@ extract sort.rs impl /^Frame$/ fn visit
//@ props C12 C05
//@ ret res
//@ spec
        ensures res.targets == self.targets, res.sources == self.sources, res.command == self.command, res.rule_ticket == self.rule_ticket,
            res.index == self.index, res.sub_index == self.sub_index, res.visited,
//@ end
}

// ASSUMED: a String is determined by its characters; String obeys the hash-map key model (vstd states it as a precondition)
#[verifier::external_body] proof fn string_ext(a: String, b: String) requires a@ == b@ ensures a == b {}
#[verifier::external_body] proof fn string_key_model() ensures obeys_key_model::<String>() {}
// ASSUMED (R4): `target.to_string()` on a &String
#[verifier::external_body] fn string_to_string(s: &String) -> (r: String) ensures r@ == s@ { s.to_string() }

// ASSUMED (R8): HashMap<String, V>::get with a &str key
#[verifier::external_body]
fn map_get_str<'a>(m: &'a HashMap<String, (usize, usize)>, k: &str) -> (r: Option<&'a (usize, usize)>)
    ensures r matches Some(v) ==> exists|key: String| #![trigger m@.contains_key(key)] key@ == k@ && m@.contains_key(key) && m@[key] == *v,
        r is None ==> forall|key: String| #![trigger m@.contains_key(key)] key@ == k@ ==> !m@.contains_key(key),
{ m.get(k) }

// target path t is target number s of rule number b
spec fn is_target(tab: Seq<RuleSpec>, b: int, s: int, t: Seq<char>) -> bool { 0 <= b < tab.len() && 0 <= s < tab[b].targets.len() && sort_spec(tab[b].targets)[s] == t }
// the index map sends exactly the target paths to their (rule, position), for the first k rules of the table
spec fn index_ok(m: Map<String, (usize, usize)>, tab: Seq<RuleSpec>, k: int) -> bool {
    &&& forall|key: String| #![trigger m[key]] m.contains_key(key) ==> m[key].0 < k && is_target(tab, m[key].0 as int, m[key].1 as int, key@)
    &&& forall|b: int, s: int, key: String| #![trigger is_target(tab, b, s, key@)] 0 <= b < k && is_target(tab, b, s, key@) ==> m.contains_key(key) && m[key].0 as int == b && m[key].1 as int == s
}

//@ extract sort.rs fn rules_to_frame_buffer
//@ props C12 C05
//@ attr #[verifier::loop_isolation(false)]
//@ ret res
//@ rewrite 1 /rules\.sort\(\);/ => sort_rules(&mut rules);
//@ rewrite 1 /rules\.drain\(\.\.\)/ => rules
//@ rewrite 1 /rule\.targets\.sort\(\);/ => sort_strings(&mut rule.targets);
//@ rewrite 1 /rule\.sources\.sort\(\);/ => sort_strings(&mut rule.sources);
//@ rewrite 1 /target\.to_string\(\)/ => string_to_string(target)
//@ rewrite 1 /for \(sub_index, target\) in rule\.targets\.iter\(\)\.enumerate\(\)/ => for sub_index in 0..rule.targets.len()
//@ insert after 1/1 /for \(sub_index, target\) in rule\.targets\.iter\(\)\.enumerate\(\)\s*\{/ => let target = &rule.targets[sub_index];
//@ spec
    requires rules@.len() <= usize::MAX,     // (a Vec's length fits usize; stated because vstd does not expose it at spec level)
    ensures
        // accepted exactly when no path is a target twice (of two rules or of one); then the frame table is the sorted rule list
        // and the index map sends every target path to its (rule, position)                                                     //# O-S-table [C12]
        res matches Ok((fb, m)) ==> ({
            let tab = sort_rules_spec(rules_view(rules@));
            &&& fb@.len() == tab.len()
            &&& forall|b: int| 0 <= b < tab.len() ==> slot_ok(#[trigger] fb@[b], tab[b], b)
            &&& index_ok(m@, tab, tab.len() as int)
        }),
        // rejected only with a path that really is a target at two places                                                      //# O-S-dup [C12]
        res matches Err(e) ==> e matches TopologicalSortError::TargetInMultipleRules(t) && is_dup(sort_rules_spec(rules_view(rules@)), t@),
//@ hint start
    broadcast use vstd::std_specs::hash::group_hash_axioms;
    let ghost tab = sort_rules_spec(rules_view(rules@));
    let ghost n0 = rules@.len();
    proof { sort_rules_axioms(rules_view(rules@)); string_key_model(); }
//@ loop 1 binder it
//@ loop 1 invariant
        invariant rules_view(rules@) == tab, current_buffer_index == it.index@, it.index@ <= rules@.len(), n0 == rules@.len(), n0 <= usize::MAX,
            obeys_key_model::<String>(),
            frame_buffer@.len() == it.index@,
            forall|b: int| 0 <= b < it.index@ ==> slot_ok(#[trigger] frame_buffer@[b], tab[b], b),
            index_ok(to_buffer_index@, tab, it.index@),
//@ hint after 1/1 /rule\.sources\.sort\(\);/
        let ghost bi = it.index@;
        proof { assert(rules_view(rules@)[bi] == rule_view(rules@[bi])); sort_axioms(tab[bi].targets); sort_axioms(tab[bi].sources); }
//@ hint before 1/1 /let t_string = /
            let ghost m0 = to_buffer_index@;
//@ hint before 1/1 /match to_buffer_index\.get\(&t_string\)/
            proof {
                assert(is_target(tab, bi, sub_index as int, t_string@));
                if m0.contains_key(t_string) { dup_intro(tab, m0[t_string].0 as int, m0[t_string].1 as int, bi, sub_index as int, t_string@); }
            }
//@ hint after 1/1 /None => to_buffer_index\.insert\(t_string, \(current_buffer_index, sub_index\)\),\s*\};/
            proof { index_insert_ok(m0, to_buffer_index@, tab, bi, sub_index as int); }
//@ hint before 1/1 /frame_buffer\.push\(FrameBufferValue/
        proof { assert(index_ok(to_buffer_index@, tab, bi + 1)); assert(bi < n0); }
//@ loop 2 invariant
            invariant obeys_key_model::<String>(), bi == current_buffer_index, 0 <= bi < tab.len(), current_buffer_index == it.index@,
                strs(rule.targets@) == sort_spec(tab[bi].targets), rule.targets@.len() == tab[bi].targets.len(),
                index_ok_partial(to_buffer_index@, tab, bi, sub_index as int),
//@ end
// all targets of rules < k, and the first j targets of rule k
spec fn index_ok_partial(m: Map<String, (usize, usize)>, tab: Seq<RuleSpec>, k: int, j: int) -> bool {
    &&& forall|key: String| #![trigger m[key]] m.contains_key(key) ==> (m[key].0 < k || (m[key].0 == k && m[key].1 < j)) && is_target(tab, m[key].0 as int, m[key].1 as int, key@)
    &&& forall|b: int, s: int, key: String| #![trigger is_target(tab, b, s, key@)] (0 <= b < k || (b == k && s < j)) && is_target(tab, b, s, key@) ==> m.contains_key(key) && m[key].0 as int == b && m[key].1 as int == s
}

// ---- the traversal itself is NOT under contract here: BOUNDED stand-in (tools/bounded_sort.py) ----
struct TopologicalSortMachine { x: u8 }
impl TopologicalSortMachine {
    #[verifier::external_body] fn new(frame_buffer : Vec<FrameBufferValue>, to_buffer_index : HashMap<String, (usize, usize)>) -> (r: Self) { unimplemented!() }
    #[verifier::external_body] fn sort_once(&mut self, index : usize, sub_index : usize) -> (r: Result<(), TopologicalSortError>) { unimplemented!() }
    #[verifier::external_body] fn get_result(self) -> (r: Result<NodePack, TopologicalSortError>) { unimplemented!() }
}
spec fn some_target(tab: Seq<RuleSpec>, t: Seq<char>) -> bool { exists|b: int, s: int| #![trigger is_target(tab, b, s, t)] is_target(tab, b, s, t) }

//@ extract sort.rs fn topological_sort
//@ props C12 C05
//@ ret res
//@ rewrite 1 /to_buffer_index\.get\(goal_target\)/ => map_get_str(&to_buffer_index, goal_target)
//@ spec
    requires rules@.len() <= usize::MAX,
    ensures
        // a goal that is no rule's target is reported as missing, by name (when no path is a target twice)       //# O-S-missing [C12]
        (!some_target(sort_rules_spec(rules_view(rules@)), goal_target@) && !(res matches Err(TopologicalSortError::TargetInMultipleRules(_))))
            ==> (res matches Err(TopologicalSortError::TargetMissing(g)) && g@ == goal_target@),
        res matches Err(TopologicalSortError::TargetInMultipleRules(t)) ==> is_dup(sort_rules_spec(rules_view(rules@)), t@) || some_target(sort_rules_spec(rules_view(rules@)), goal_target@),
//@ hint start
    broadcast use vstd::std_specs::hash::group_hash_axioms;
    proof { string_key_model(); }
//@ hint after 1/1 /let \(frame_buffer, to_buffer_index\) = rules_to_frame_buffer\(rules\)\?;/
    let ghost tab = sort_rules_spec(rules_view(rules@));
    proof {
        assert forall|key: String| key@ == goal_target@ && #[trigger] to_buffer_index@.contains_key(key) implies some_target(tab, goal_target@) by {
            assert(is_target(tab, to_buffer_index@[key].0 as int, to_buffer_index@[key].1 as int, key@));
        }
    }
//@ end

//@ extract sort.rs fn topological_sort_all
//@ props C12 C05
//@ ret res
//@ spec
    requires rules@.len() <= usize::MAX,
    ensures res matches Err(TopologicalSortError::TargetInMultipleRules(t)) ==> true,
//@ loop 1 invariant
        invariant frame_buffer_len == frame_buffer_len,
//@ end

// path t is a target at two different places of the table
spec fn is_dup(tab: Seq<RuleSpec>, t: Seq<char>) -> bool {
    exists|b1: int, s1: int, b2: int, s2: int| #![trigger is_target(tab, b1, s1, t), is_target(tab, b2, s2, t)] is_target(tab, b1, s1, t) && is_target(tab, b2, s2, t) && (b1 != b2 || s1 != s2)
}
proof fn dup_intro(tab: Seq<RuleSpec>, b1: int, s1: int, b2: int, s2: int, t: Seq<char>)
    requires is_target(tab, b1, s1, t), is_target(tab, b2, s2, t), b1 != b2 || s1 != s2 ensures is_dup(tab, t) {}
//# L-S-no-dup [C12]
// property-facing: an exact index map means no path is a target twice -- so Ok is returned only for duplicate-free rule sets
proof fn index_ok_no_dup(m: Map<String, (usize, usize)>, tab: Seq<RuleSpec>, key: String)
    requires index_ok(m, tab, tab.len() as int) ensures !is_dup(tab, key@)
{
    if is_dup(tab, key@) {
        let (b1, s1, b2, s2) = choose|b1: int, s1: int, b2: int, s2: int| #![trigger is_target(tab, b1, s1, key@), is_target(tab, b2, s2, key@)] is_target(tab, b1, s1, key@) && is_target(tab, b2, s2, key@) && (b1 != b2 || s1 != s2);
        assert(m[key].0 as int == b1 && m[key].1 as int == s1);
        assert(m[key].0 as int == b2 && m[key].1 as int == s2);
    }
}
// inserting the next target of rule k keeps the index map exact
proof fn index_insert_ok(m0: Map<String, (usize, usize)>, m1: Map<String, (usize, usize)>, tab: Seq<RuleSpec>, k: int, j: int)
    requires index_ok_partial(m0, tab, k, j), 0 <= k < tab.len(), 0 <= j < tab[k].targets.len(), k <= usize::MAX, j <= usize::MAX,
        exists|key: String| #![trigger m0.contains_key(key)] !m0.contains_key(key) && key@ == sort_spec(tab[k].targets)[j] && m1 == m0.insert(key, (k as usize, j as usize)),
    ensures index_ok_partial(m1, tab, k, j + 1)
{
    let key0 = choose|key: String| #![trigger m0.contains_key(key)] !m0.contains_key(key) && key@ == sort_spec(tab[k].targets)[j] && m1 == m0.insert(key, (k as usize, j as usize));
    sort_axioms(tab[k].targets);
    assert(is_target(tab, k, j, key0@));
    assert forall|b: int, s: int, key: String| #![trigger is_target(tab, b, s, key@)] (0 <= b < k || (b == k && s < j + 1)) && is_target(tab, b, s, key@) implies m1.contains_key(key) && m1[key].0 as int == b && m1[key].1 as int == s by {
        if b == k && s == j { string_ext(key, key0); }
        else { assert(m0.contains_key(key) && m0[key].0 as int == b && m0[key].1 as int == s); assert(key != key0); }
    }
}

} // verus!
fn main() {}
