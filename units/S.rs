//@ unit S
//@ default-props C12 C05
// Unit S: sort.rs -- dependency analysis.  Under contract here: Frame::{from_rule_and_index, visit},
// rules_to_frame_buffer (duplicate-target verdict, canonical frame table), topological_sort / topological_sort_all
// (missing-goal verdict, call protocol), TopologicalSortMachine::{new, sort_once, get_result}: panic-freedom, termination, every
// source of every emitted rule bound by name.  Exactness of the cycle verdict, order, scope and permutation invariance of the
// traversal are covered by the BOUNDED stand-in tools/bounded_sort.py (labelled bounded in the evidence, never counted as proved).
use vstd::prelude::*;
use vstd::std_specs::hash::*;
use std::collections::HashMap;
use std::collections::HashSet;
verus! {

//@ extract ticket.rs struct Ticket
//@ end
//@ extract rule.rs struct Rule
//@ end
//@ extract sort.rs struct Frame
//@ end
//@ extract sort.rs struct FrameBufferValue
//@ end
//@ extract sort.rs enum TopologicalSortError
//@ end
//@ extract sort.rs enum SourceIndex
//@ end
//@ extract sort.rs struct Node
//@ end
//@ extract sort.rs struct NodePack
//@ end

uninterp spec fn sha256_raw(c: Seq<u8>) -> Seq<u8>;
spec fn sha256(c: Seq<u8>) -> Seq<u8> { if sha256_raw(c).len() == 32 { sha256_raw(c) } else { Seq::new(32, |i: int| 0u8) } }
uninterp spec fn utf8(s: Seq<char>) -> Seq<u8>;
spec fn strs(v: Seq<String>) -> Seq<Seq<char>> { v.map_values(|l: String| l@) }
impl Ticket { spec fn bytes(&self) -> Seq<u8> { self.sha@ } }

// ---------- ASSUMED: std sorting / ordering (as in unit B) ----------
uninterp spec fn str_le(a: Seq<char>, b: Seq<char>) -> bool;
spec fn sorted(v: Seq<Seq<char>>) -> bool { forall|i: int, j: int| 0 <= i <= j < v.len() ==> str_le(#[trigger] v[i], #[trigger] v[j]) }
uninterp spec fn sort_spec(v: Seq<Seq<char>>) -> Seq<Seq<char>>;
#[verifier::external_body] proof fn sort_axioms(v: Seq<Seq<char>>)
    ensures sorted(sort_spec(v)), sort_spec(v).to_multiset() == v.to_multiset(), sorted(v) ==> sort_spec(v) == v, sort_spec(v).len() == v.len() {}
#[verifier::external_body]
fn sort_strings(v: &mut Vec<String>) ensures strs(final(v)@) == sort_spec(strs(old(v)@)) { v.sort() }
// a rule as the sorter sees it
struct RuleSpec { targets: Seq<Seq<char>>, sources: Seq<Seq<char>>, command: Seq<Seq<char>> }
spec fn rule_view(r: Rule) -> RuleSpec { RuleSpec { targets: strs(r.targets@), sources: strs(r.sources@), command: strs(r.command@) } }
spec fn rules_view(rs: Seq<Rule>) -> Seq<RuleSpec> { rs.map_values(|r: Rule| rule_view(r)) }
// Vec<Rule>::sort by the derived Ord: a canonical rearrangement (the same list for every ordering of the same rules)
uninterp spec fn sort_rules_spec(rs: Seq<RuleSpec>) -> Seq<RuleSpec>;
#[verifier::external_body] proof fn sort_rules_axioms(rs: Seq<RuleSpec>)
    ensures sort_rules_spec(rs).to_multiset() == rs.to_multiset(), sort_rules_spec(rs).len() == rs.len() {}
//# L-S-canonical [C12]
// ASSUMED (std sort of a total order): permutations of the same rules sort to the same list -- this is what makes the plan
// independent of the order of the rules in the input, together with the absence of hash-map iteration in sort.rs
#[verifier::external_body] proof fn sort_rules_canonical(a: Seq<RuleSpec>, b: Seq<RuleSpec>)
    requires a.to_multiset() == b.to_multiset() ensures sort_rules_spec(a) == sort_rules_spec(b) {}
#[verifier::external_body]
fn sort_rules(v: &mut Vec<Rule>) ensures rules_view(final(v)@) == sort_rules_spec(rules_view(old(v)@)) { unimplemented!() }

// the characters hashed into a rule's identity (unit B)
uninterp spec fn ident_input(t: Seq<Seq<char>>, s: Seq<Seq<char>>, c: Seq<Seq<char>>) -> Seq<char>;
impl Rule {
    // ASSUMED here, PROVED in unit B (O-B-identity)
    #[verifier::external_body]
    fn get_ticket(self: &Self) -> (res: Ticket)
        ensures res.bytes() == sha256(utf8(ident_input(strs(self.targets@), strs(self.sources@), strs(self.command@))))
    { unimplemented!() }
}

// frame f is the (target- and source-sorted) rule r, stored at buffer index b
spec fn frame_of(f: Frame, r: RuleSpec, b: int) -> bool {
    &&& strs(f.targets@) == sort_spec(r.targets) && strs(f.sources@) == sort_spec(r.sources) && strs(f.command@) == r.command
    &&& f.rule_ticket.bytes() == sha256(utf8(ident_input(sort_spec(r.targets), sort_spec(r.sources), r.command)))
    &&& f.index == b && f.sub_index == 0 && !f.visited
}

spec fn slot_ok(v: FrameBufferValue, r: RuleSpec, b: int) -> bool { v.final_index == 0 && v.opt_frame is Some && frame_of(v.opt_frame->Some_0, r, b) }

impl Frame {
//@ extract sort.rs impl /^Frame$/ fn from_rule_and_index
//@ props C12 C01 C05
//@ ret res
//@ spec
        ensures strs(res.targets@) == strs(rule.targets@), strs(res.sources@) == strs(rule.sources@), strs(res.command@) == strs(rule.command@),
            res.rule_ticket.bytes() == sha256(utf8(ident_input(strs(rule.targets@), strs(rule.sources@), strs(rule.command@)))),     //# O-S-frame-identity [C12,C01,C13]
            res.index == index, res.sub_index == 0, !res.visited,
//@ end

//@ extract sort.rs impl /^Frame$/ fn visit
//@ props C12 C05
//@ ret res
//@ spec
        ensures res.targets == self.targets, res.sources == self.sources, res.command == self.command, res.rule_ticket == self.rule_ticket,
            res.index == self.index, res.sub_index == self.sub_index, res.visited,
//@ end
}

// ASSUMED: a String is determined by its characters; String obeys the hash-map key model (vstd states it as a precondition)
#[verifier::external_body] proof fn string_ext(a: String, b: String) requires a@ == b@ ensures a == b {}
#[verifier::external_body] proof fn string_key_model() ensures obeys_key_model::<String>() {}
// ASSUMED (R4): `target.to_string()` on a &String
#[verifier::external_body] fn string_to_string(s: &String) -> (r: String) ensures r@ == s@ { s.to_string() }

// ASSUMED (R8): HashMap<String, V>::get with a &str key
#[verifier::external_body]
fn map_get_str<'a>(m: &'a HashMap<String, (usize, usize)>, k: &str) -> (r: Option<&'a (usize, usize)>)
    ensures r matches Some(v) ==> exists|key: String| #![trigger m@.contains_key(key)] key@ == k@ && m@.contains_key(key) && m@[key] == *v,
        r is None ==> forall|key: String| #![trigger m@.contains_key(key)] key@ == k@ ==> !m@.contains_key(key),
{ m.get(k) }

// target path t is target number s of rule number b
spec fn is_target(tab: Seq<RuleSpec>, b: int, s: int, t: Seq<char>) -> bool { 0 <= b < tab.len() && 0 <= s < tab[b].targets.len() && sort_spec(tab[b].targets)[s] == t }
// the index map sends exactly the target paths to their (rule, position), for the first k rules of the table
spec fn index_ok(m: Map<String, (usize, usize)>, tab: Seq<RuleSpec>, k: int) -> bool {
    &&& forall|key: String| #![trigger m[key]] m.contains_key(key) ==> m[key].0 < k && is_target(tab, m[key].0 as int, m[key].1 as int, key@)
    &&& forall|b: int, s: int, key: String| #![trigger is_target(tab, b, s, key@)] 0 <= b < k && is_target(tab, b, s, key@) ==> m.contains_key(key) && m[key].0 as int == b && m[key].1 as int == s
}

//@ extract sort.rs fn rules_to_frame_buffer
//@ props C12 C05
//@ attr #[verifier::loop_isolation(false)]
//@ ret res
//@ rewrite 1 /rules\.sort\(\);/ => sort_rules(&mut rules);
//@ rewrite 1 /rules\.drain\(\.\.\)/ => rules
//@ rewrite 1 /rule\.targets\.sort\(\);/ => sort_strings(&mut rule.targets);
//@ rewrite 1 /rule\.sources\.sort\(\);/ => sort_strings(&mut rule.sources);
//@ rewrite 1 /target\.to_string\(\)/ => string_to_string(target)
//@ rewrite 1 /for \(sub_index, target\) in rule\.targets\.iter\(\)\.enumerate\(\)/ => for sub_index in 0..rule.targets.len()
//@ insert after 1/1 /for \(sub_index, target\) in rule\.targets\.iter\(\)\.enumerate\(\)\s*\{/ => let target = &rule.targets[sub_index];
//@ spec
    requires rules@.len() <= usize::MAX,     // (a Vec's length fits usize; stated because vstd does not expose it at spec level)
    ensures
        // accepted exactly when no path is a target twice (of two rules or of one); then the frame table is the sorted rule list
        // and the index map sends every target path to its (rule, position)                                                     //# O-S-table [C12,C13]
        res matches Ok((fb, m)) ==> ({
            let tab = sort_rules_spec(rules_view(rules@));
            &&& fb@.len() == tab.len()
            &&& forall|b: int| 0 <= b < tab.len() ==> slot_ok(#[trigger] fb@[b], tab[b], b)
            &&& index_ok(m@, tab, tab.len() as int)
        }),
        // rejected only with a path that really is a target at two places                                                      //# O-S-dup [C12]
        res matches Err(e) ==> e matches TopologicalSortError::TargetInMultipleRules(t) && is_dup(sort_rules_spec(rules_view(rules@)), t@),
//@ hint start
    broadcast use vstd::std_specs::hash::group_hash_axioms;
    let ghost tab = sort_rules_spec(rules_view(rules@));
    let ghost n0 = rules@.len();
    proof { sort_rules_axioms(rules_view(rules@)); string_key_model(); }
//@ loop 1 binder it
//@ loop 1 invariant
        invariant rules_view(rules@) == tab, current_buffer_index == it.index@, it.index@ <= rules@.len(), n0 == rules@.len(), n0 <= usize::MAX,
            obeys_key_model::<String>(),
            frame_buffer@.len() == it.index@,
            forall|b: int| 0 <= b < it.index@ ==> slot_ok(#[trigger] frame_buffer@[b], tab[b], b),
            index_ok(to_buffer_index@, tab, it.index@),
//@ hint after 1/1 /rule\.sources\.sort\(\);/
        let ghost bi = it.index@;
        proof { assert(rules_view(rules@)[bi] == rule_view(rules@[bi])); sort_axioms(tab[bi].targets); sort_axioms(tab[bi].sources); }
//@ hint before 1/1 /let t_string = /
            let ghost m0 = to_buffer_index@;
//@ hint before 1/1 /match to_buffer_index\.get\(&t_string\)/
            proof {
                assert(is_target(tab, bi, sub_index as int, t_string@));
                if m0.contains_key(t_string) { dup_intro(tab, m0[t_string].0 as int, m0[t_string].1 as int, bi, sub_index as int, t_string@); }
            }
//@ hint after 1/1 /None => to_buffer_index\.insert\(t_string, \(current_buffer_index, sub_index\)\),\s*\};/
            proof { index_insert_ok(m0, to_buffer_index@, tab, bi, sub_index as int); }
//@ hint before 1/1 /frame_buffer\.push\(FrameBufferValue/
        proof { assert(index_ok(to_buffer_index@, tab, bi + 1)); assert(bi < n0); }
//@ loop 2 invariant
            invariant obeys_key_model::<String>(), bi == current_buffer_index, 0 <= bi < tab.len(), current_buffer_index == it.index@,
                strs(rule.targets@) == sort_spec(tab[bi].targets), rule.targets@.len() == tab[bi].targets.len(),
                index_ok_partial(to_buffer_index@, tab, bi, sub_index as int),
//@ end
// all targets of rules < k, and the first j targets of rule k
spec fn index_ok_partial(m: Map<String, (usize, usize)>, tab: Seq<RuleSpec>, k: int, j: int) -> bool {
    &&& forall|key: String| #![trigger m[key]] m.contains_key(key) ==> (m[key].0 < k || (m[key].0 == k && m[key].1 < j)) && is_target(tab, m[key].0 as int, m[key].1 as int, key@)
    &&& forall|b: int, s: int, key: String| #![trigger is_target(tab, b, s, key@)] (0 <= b < k || (b == k && s < j)) && is_target(tab, b, s, key@) ==> m.contains_key(key) && m[key].0 as int == b && m[key].1 as int == s
}

// ASSUMED (R8): std::collections::BTreeSet<String> as a set with ordered iteration
struct BTreeSet<K> { s: Ghost<Set<K>> }
impl BTreeSet<String> {
    spec fn view(&self) -> Set<String> { self.s@ }
    #[verifier::external_body] fn new() -> (r: Self) ensures r@ == Set::<String>::empty() { unimplemented!() }
    #[verifier::external_body] fn insert(&mut self, k: String) -> (r: bool) ensures final(self)@ == old(self)@.insert(k) { unimplemented!() }
}
//@ extract sort.rs struct TopologicalSortMachine
//@ end
// R4/R8: iterating a BTreeSet<String> yields its elements in order, each once
#[verifier::external_body]
fn btree_into_vec(s: BTreeSet<String>) -> (r: Vec<String>)
    ensures forall|x: String| s@.contains(x) <==> #[trigger] r@.contains(x), r@.no_duplicates(), r@.len() < usize::MAX,
{ unimplemented!() }
impl NodePack {
//@ extract sort.rs impl /^NodePack$/ fn new
//@ props C12
//@ ret res
//@ spec
        ensures res.leaves == leaves, res.nodes == nodes,
//@ end
}
// the element that turned l0 into l1 (ghost helper for the hint at source_leaves.insert)
spec fn string_inserted(l0: Set<String>, l1: Set<String>) -> String { choose|x: String| l1 == l0.insert(x) }
#[verifier::external_body] proof fn usize_key_model() ensures obeys_key_model::<usize>() {}
#[verifier::external_body] fn string_to_owned(s: &String) -> (r: String) ensures r == *s { s.to_owned() }
// R4: `stack.iter().position(|f| f.index == *buffer_index && !f.visited)`
#[verifier::external_body]
fn position_unvisited(stack: &Vec<Frame>, idx: usize) -> (r: Option<usize>)
    ensures r matches Some(p) ==> p < stack@.len() && stack@[p as int].index == idx && !stack@[p as int].visited,
        r is None ==> forall|p: int| 0 <= p < stack@.len() ==> !(#[trigger] stack@[p].index == idx && !stack@[p].visited),
{ stack.iter().position(|f| f.index == idx && !f.visited) }


// ---------- termination measure ----------
spec fn unv(f: Frame) -> int { if f.visited { 0 } else { 1 } }
spec fn count_unv(s: Seq<Frame>) -> int decreases s.len() { if s.len() == 0 { 0 } else { count_unv(s.drop_last()) + unv(s.last()) } }
spec fn has(v: FrameBufferValue) -> int { if v.opt_frame is Some { 1 } else { 0 } }
spec fn count_some(s: Seq<FrameBufferValue>) -> int decreases s.len() { if s.len() == 0 { 0 } else { count_some(s.drop_last()) + has(s.last()) } }
proof fn count_unv_nonneg(s: Seq<Frame>) ensures count_unv(s) >= 0 decreases s.len() { if s.len() > 0 { count_unv_nonneg(s.drop_last()); } }
proof fn count_some_nonneg(s: Seq<FrameBufferValue>) ensures count_some(s) >= 0 decreases s.len() { if s.len() > 0 { count_some_nonneg(s.drop_last()); } }
proof fn count_unv_push(s: Seq<Frame>, f: Frame) ensures count_unv(s.push(f)) == count_unv(s) + unv(f) { assert(s.push(f).drop_last() =~= s); }
proof fn count_unv_remove(s: Seq<Frame>, p: int) requires 0 <= p < s.len() ensures count_unv(s.remove(p)) == count_unv(s) - unv(s[p])
    decreases s.len()
{
    if p == s.len() - 1 { assert(s.remove(p) =~= s.drop_last()); }
    else {
        count_unv_remove(s.drop_last(), p);
        assert(s.remove(p).drop_last() =~= s.drop_last().remove(p));
        assert(s.remove(p).last() == s.last());
    }
}
proof fn count_some_update(s: Seq<FrameBufferValue>, b: int, v: FrameBufferValue) requires 0 <= b < s.len() ensures count_some(s.update(b, v)) == count_some(s) - has(s[b]) + has(v)
    decreases s.len()
{
    if b == s.len() - 1 { assert(s.update(b, v).drop_last() =~= s.drop_last()); }
    else {
        count_some_update(s.drop_last(), b, v);
        assert(s.update(b, v).drop_last() =~= s.drop_last().update(b, v));
        assert(s.update(b, v).last() == s.last());
    }
}
spec fn all_unv(v: Seq<Frame>) -> bool { forall|p: int| 0 <= p < v.len() ==> !(#[trigger] v[p]).visited }
proof fn count_all_unv(s: Seq<Frame>) requires all_unv(s) ensures count_unv(s) == s.len()
    decreases s.len()
{ if s.len() > 0 { assert(all_unv(s.drop_last())) by { assert forall|p: int| 0 <= p < s.drop_last().len() implies !(#[trigger] s.drop_last()[p]).visited by { assert(s.drop_last()[p] == s[p]); } } count_all_unv(s.drop_last()); } }

// ---------- safety vocabulary: tl[b] = number of targets of the rule at buffer index b ----------
spec fn fok(f: Frame, tl: Seq<int>) -> bool { f.index < tl.len() && f.targets@.len() == tl[f.index as int] && f.sub_index < f.targets@.len() }
spec fn all_fok(v: Seq<Frame>, tl: Seq<int>) -> bool { forall|p: int| 0 <= p < v.len() ==> fok(#[trigger] v[p], tl) }
// how one source is bound: a leaf of that name at that position, or the owning rule's final position and the target's position in it
spec fn src_bound(si: SourceIndex, src: String, leaves: Seq<String>, m: Map<String, (usize, usize)>, fb: Seq<FrameBufferValue>) -> bool {
    match si {
        SourceIndex::Leaf(i) => i < leaves.len() && leaves[i as int] == src,
        SourceIndex::Pair(p, sub) => !leaves.contains(src) && m.contains_key(src) && m[src].0 < fb.len() && p == fb[m[src].0 as int].final_index && sub == m[src].1,
    }
}
spec fn node_of(n: Node, f: Frame, leaves: Seq<String>, m: Map<String, (usize, usize)>, fb: Seq<FrameBufferValue>) -> bool {
    &&& n.targets == f.targets && n.command == f.command && n.rule_ticket == f.rule_ticket
    &&& n.source_indices@.len() == f.sources@.len()
    &&& forall|k: int| 0 <= k < f.sources@.len() ==> src_bound(#[trigger] n.source_indices@[k], f.sources@[k], leaves, m, fb)
}
// every one of the first k sources of f is a rule's target (in the index map) or a recorded leaf
spec fn srcs_known(f: Frame, m: Map<String, (usize, usize)>, leaves: Set<String>, k: int) -> bool {
    forall|j: int| 0 <= j < k ==> m.contains_key(#[trigger] f.sources@[j]) || leaves.contains(f.sources@[j])
}
spec fn all_known(v: Seq<Frame>, m: Map<String, (usize, usize)>, leaves: Set<String>, only_visited: bool) -> bool {
    forall|p: int| 0 <= p < v.len() ==> ((#[trigger] v[p]).visited || !only_visited) ==> srcs_known(v[p], m, leaves, v[p].sources@.len() as int)
}
proof fn known_mono(v: Seq<Frame>, m: Map<String, (usize, usize)>, l1: Set<String>, l2: Set<String>, ov: bool)
    requires all_known(v, m, l1, ov), l1.subset_of(l2) ensures all_known(v, m, l2, ov)
{
    assert forall|p: int| 0 <= p < v.len() && ((#[trigger] v[p]).visited || !ov) implies srcs_known(v[p], m, l2, v[p].sources@.len() as int) by {
        assert(srcs_known(v[p], m, l1, v[p].sources@.len() as int));
    }
}

// ---------- order: a rule is emitted only after every rule it depends on (I3) ----------
// rule b has been emitted: its slot is empty and its recorded final position holds its frame
spec fn emitted(fb: Seq<FrameBufferValue>, fio: Seq<Frame>, b: int) -> bool { 0 <= b < fb.len() && fb[b].opt_frame is None && fb[b].final_index < fio.len() && fio[fb[b].final_index as int].index == b }
spec fn in_seq(s: Seq<Frame>, b: int) -> bool { exists|p: int| 0 <= p < s.len() && (#[trigger] s[p]).index == b }
spec fn above(s: Seq<Frame>, q: int, b: int) -> bool { exists|r: int| q < r < s.len() && (#[trigger] s[r]).index == b }
// one of the first k sources of f is a target of rule b
spec fn dep_upto(f: Frame, m: Map<String, (usize, usize)>, b: int, k: int) -> bool { exists|j: int| 0 <= j < k && j < f.sources@.len() && m.contains_key(#[trigger] f.sources@[j]) && m[f.sources@[j]].0 == b }
spec fn dep(f: Frame, m: Map<String, (usize, usize)>, b: int) -> bool { dep_upto(f, m, b, f.sources@.len() as int) }
// the emitted list: positions recorded, and every rule a listed rule depends on is listed EARLIER
spec fn emit_ok(fb: Seq<FrameBufferValue>, fio: Seq<Frame>, m: Map<String, (usize, usize)>, tl: Seq<int>) -> bool {
    &&& fb.len() == tl.len()
    &&& forall|p: int| 0 <= p < fio.len() ==> fok(#[trigger] fio[p], tl) && fb[fio[p].index as int].opt_frame is None && fb[fio[p].index as int].final_index == p
    &&& forall|p: int, b: int| 0 <= p < fio.len() && #[trigger] dep(fio[p], m, b) ==> emitted(fb, fio, b) && fb[b].final_index < p
}
spec fn held(s: Seq<Frame>, fb: Seq<FrameBufferValue>, fio: Seq<Frame>) -> bool { forall|p: int| 0 <= p < s.len() ==> (#[trigger] s[p]).index < fb.len() && fb[s[p].index as int].opt_frame is None && !emitted(fb, fio, s[p].index as int) }
spec fn distinct(s: Seq<Frame>) -> bool { forall|p: int, q: int| 0 <= p < q < s.len() ==> (#[trigger] s[p]).index != (#[trigger] s[q]).index }
spec fn disjoint(s: Seq<Frame>, t: Seq<Frame>) -> bool { forall|p: int, q: int| 0 <= p < s.len() && 0 <= q < t.len() ==> (#[trigger] s[p]).index != (#[trigger] t[q]).index }
// the traversal invariant.  stack / rev (the `reverser`) / cur (index of the frame being expanded, or -1) hold the rules taken
// from the table and not yet emitted, each once; every rule a VISITED stack frame depends on is emitted or sits above it (or is
// on its way there: in rev, or is the frame in hand)
#[verifier::opaque]
spec fn dfs_inv(fb: Seq<FrameBufferValue>, fio: Seq<Frame>, m: Map<String, (usize, usize)>, tl: Seq<int>, stack: Seq<Frame>, rev: Seq<Frame>, cur: int, iset: Set<usize>) -> bool {
    &&& emit_ok(fb, fio, m, tl)
    &&& held(stack, fb, fio) && held(rev, fb, fio) && distinct(stack) && distinct(rev) && disjoint(stack, rev)
    &&& (cur >= 0 ==> cur < fb.len() && fb[cur].opt_frame is None && !emitted(fb, fio, cur) && !in_seq(stack, cur) && !in_seq(rev, cur))
    &&& forall|b: int| 0 <= b < fb.len() && (#[trigger] fb[b]).opt_frame is None ==> emitted(fb, fio, b) || in_seq(stack, b) || in_seq(rev, b) || b == cur
    &&& forall|p: int| 0 <= p < stack.len() ==> iset.contains((#[trigger] stack[p]).index)
    &&& forall|x: usize| #[trigger] iset.contains(x) ==> in_seq(stack, x as int)
    &&& forall|q: int, b: int| 0 <= q < stack.len() && stack[q].visited && #[trigger] dep(stack[q], m, b) ==> emitted(fb, fio, b) || above(stack, q, b) || in_seq(rev, b) || b == cur
}
// between two calls of sort_once: nothing in hand
#[verifier::opaque]
spec fn rest_ok(fb: Seq<FrameBufferValue>, fio: Seq<Frame>, m: Map<String, (usize, usize)>, tl: Seq<int>) -> bool {
    emit_ok(fb, fio, m, tl) && forall|b: int| 0 <= b < fb.len() && (#[trigger] fb[b]).opt_frame is None ==> emitted(fb, fio, b)
}
// the first k sources of the frame in hand: the rule each depends on is emitted or waiting in rev
#[verifier::opaque]
spec fn srcs_placed(f: Frame, m: Map<String, (usize, usize)>, k: int, fb: Seq<FrameBufferValue>, fio: Seq<Frame>, rev: Seq<Frame>) -> bool {
    forall|b: int| #[trigger] dep_upto(f, m, b, k) ==> emitted(fb, fio, b) || in_seq(rev, b)
}
spec fn slot_none(v: FrameBufferValue) -> FrameBufferValue { FrameBufferValue { final_index: v.final_index, opt_frame: None } }

proof fn dfs_start(fb: Seq<FrameBufferValue>, fio: Seq<Frame>, m: Map<String, (usize, usize)>, tl: Seq<int>)
    requires rest_ok(fb, fio, m, tl) ensures dfs_inv(fb, fio, m, tl, Seq::empty(), Seq::empty(), -1, Set::empty())
{ reveal(dfs_inv); reveal(rest_ok); reveal(srcs_placed); }
proof fn dfs_finish(fb: Seq<FrameBufferValue>, fio: Seq<Frame>, m: Map<String, (usize, usize)>, tl: Seq<int>, stack: Seq<Frame>, iset: Set<usize>)
    requires dfs_inv(fb, fio, m, tl, stack, Seq::empty(), -1, iset), stack.len() == 0 ensures rest_ok(fb, fio, m, tl)
{ reveal(dfs_inv); reveal(rest_ok); reveal(srcs_placed); }
// take rule b out of the table into rev
proof fn dfs_take(fb: Seq<FrameBufferValue>, fio: Seq<Frame>, m: Map<String, (usize, usize)>, tl: Seq<int>, stack: Seq<Frame>, rev: Seq<Frame>, cur: int, iset: Set<usize>, b: int, f: Frame, fb2: Seq<FrameBufferValue>)
    requires dfs_inv(fb, fio, m, tl, stack, rev, cur, iset), 0 <= b < fb.len(), fb[b].opt_frame is Some, f.index == b, fb2 == fb.update(b, slot_none(fb[b])),
    ensures dfs_inv(fb2, fio, m, tl, stack, rev.push(f), cur, iset), forall|c: int| emitted(fb, fio, c) ==> emitted(fb2, fio, c), in_seq(rev.push(f), b),
        forall|c: int| in_seq(rev, c) ==> in_seq(rev.push(f), c),
{
    reveal(dfs_inv); reveal(rest_ok); reveal(srcs_placed);
    let rev2 = rev.push(f);
    assert forall|c: int| emitted(fb2, fio, c) == (emitted(fb, fio, c)) by {
        if c == b && emitted(fb2, fio, c) { let p = fb[b].final_index as int; assert(fok(fio[p], tl)); }
    }
    assert(rev2[rev.len() as int].index == b);
    assert forall|c: int| in_seq(rev, c) implies in_seq(rev2, c) by { let p = choose|p: int| 0 <= p < rev.len() && (#[trigger] rev[p]).index == c; assert(rev2[p].index == c); }
    assert(!in_seq(stack, b)) by { if in_seq(stack, b) { let p = choose|p: int| 0 <= p < stack.len() && (#[trigger] stack[p]).index == b; } }
    assert(!in_seq(rev, b)) by { if in_seq(rev, b) { let p = choose|p: int| 0 <= p < rev.len() && (#[trigger] rev[p]).index == b; } }
    assert(held(rev2, fb2, fio)) by { assert forall|p: int| 0 <= p < rev2.len() implies (#[trigger] rev2[p]).index < fb2.len() && fb2[rev2[p].index as int].opt_frame is None && !emitted(fb2, fio, rev2[p].index as int) by { if p < rev.len() { assert(rev2[p] == rev[p]); } } }
    assert(held(stack, fb2, fio));
    assert(distinct(rev2)) by { assert forall|p: int, q: int| 0 <= p < q < rev2.len() implies (#[trigger] rev2[p]).index != (#[trigger] rev2[q]).index by { assert(rev2[p] == rev[p]); if q < rev.len() { assert(rev2[q] == rev[q]); } } }
    assert(disjoint(stack, rev2)) by { assert forall|p: int, q: int| 0 <= p < stack.len() && 0 <= q < rev2.len() implies (#[trigger] stack[p]).index != (#[trigger] rev2[q]).index by { if q < rev.len() { assert(rev2[q] == rev[q]); } } }
    if cur >= 0 { assert(!in_seq(rev2, cur)) by { if in_seq(rev2, cur) { let p = choose|p: int| 0 <= p < rev2.len() && (#[trigger] rev2[p]).index == cur; if p < rev.len() { assert(rev[p].index == cur); } } } }
    assert forall|c: int| 0 <= c < fb2.len() && (#[trigger] fb2[c]).opt_frame is None implies emitted(fb2, fio, c) || in_seq(stack, c) || in_seq(rev2, c) || c == cur by { if c != b { assert(fb[c].opt_frame is None); } }
    assert(emit_ok(fb2, fio, m, tl)) by {
        assert forall|p: int| 0 <= p < fio.len() implies fok(#[trigger] fio[p], tl) && fb2[fio[p].index as int].opt_frame is None && fb2[fio[p].index as int].final_index == p by {}
    }
}
// a fact about a rule that is neither in hand, nor on the stack: it is emitted or waiting in rev
proof fn dfs_elsewhere(fb: Seq<FrameBufferValue>, fio: Seq<Frame>, m: Map<String, (usize, usize)>, tl: Seq<int>, stack: Seq<Frame>, rev: Seq<Frame>, cur: int, iset: Set<usize>, b: int)
    requires dfs_inv(fb, fio, m, tl, stack, rev, cur, iset), 0 <= b < fb.len(), fb[b].opt_frame is None, b != cur, !iset.contains(b as usize)
    ensures emitted(fb, fio, b) || in_seq(rev, b)
{
    reveal(dfs_inv); reveal(rest_ok); reveal(srcs_placed);
    if in_seq(stack, b) { let p = choose|p: int| 0 <= p < stack.len() && (#[trigger] stack[p]).index == b; assert(iset.contains(stack[p].index)); }
}
// one more source of the frame in hand has been dealt with
proof fn placed_step(f: Frame, m: Map<String, (usize, usize)>, k: int, fb: Seq<FrameBufferValue>, fio: Seq<Frame>, rev: Seq<Frame>, fb2: Seq<FrameBufferValue>, rev2: Seq<Frame>)
    requires srcs_placed(f, m, k, fb, fio, rev), 0 <= k < f.sources@.len(),
        forall|c: int| emitted(fb, fio, c) ==> emitted(fb2, fio, c), forall|c: int| in_seq(rev, c) ==> in_seq(rev2, c),
        m.contains_key(f.sources@[k]) ==> emitted(fb2, fio, m[f.sources@[k]].0 as int) || in_seq(rev2, m[f.sources@[k]].0 as int),
    ensures srcs_placed(f, m, k + 1, fb2, fio, rev2)
{
    reveal(dfs_inv); reveal(rest_ok); reveal(srcs_placed);
    assert forall|b: int| #[trigger] dep_upto(f, m, b, k + 1) implies emitted(fb2, fio, b) || in_seq(rev2, b) by {
        let j = choose|j: int| 0 <= j < k + 1 && j < f.sources@.len() && m.contains_key(#[trigger] f.sources@[j]) && m[f.sources@[j]].0 == b;
        if j < k { assert(dep_upto(f, m, b, k)); }
    }
}
proof fn placed_same_sources(f: Frame, g: Frame, m: Map<String, (usize, usize)>, k: int, fb: Seq<FrameBufferValue>, fio: Seq<Frame>, rev: Seq<Frame>)
    requires f.sources == g.sources, srcs_placed(f, m, k, fb, fio, rev) ensures srcs_placed(g, m, k, fb, fio, rev)
{
    reveal(dfs_inv); reveal(rest_ok); reveal(srcs_placed);
    assert forall|b: int| #[trigger] dep_upto(g, m, b, k) implies emitted(fb, fio, b) || in_seq(rev, b) by { assert(dep_upto(f, m, b, k)); }
}
// the top frame, visited, is emitted
proof fn dfs_emit(fb: Seq<FrameBufferValue>, fio: Seq<Frame>, m: Map<String, (usize, usize)>, tl: Seq<int>, stack0: Seq<Frame>, iset: Set<usize>, frame: Frame, v: FrameBufferValue, fb2: Seq<FrameBufferValue>)
    requires dfs_inv(fb, fio, m, tl, stack0, Seq::empty(), -1, iset), stack0.len() > 0, frame == stack0.last(), frame.visited, fok(frame, tl),
        fb2 == fb.update(frame.index as int, v), v.final_index == fio.len(), v.opt_frame == fb[frame.index as int].opt_frame,
    ensures dfs_inv(fb2, fio.push(frame), m, tl, stack0.drop_last(), Seq::empty(), -1, iset.remove(frame.index))
{
    reveal(dfs_inv); reveal(rest_ok); reveal(srcs_placed);
    let bi = frame.index as int; let fio2 = fio.push(frame); let stack1 = stack0.drop_last(); let top = stack0.len() - 1; let n = fio.len() as int;
    let rev = Seq::<Frame>::empty();
    assert(stack0[top].index == bi);
    assert(fb[bi].opt_frame is None && !emitted(fb, fio, bi));
    assert forall|p: int| 0 <= p < n implies (#[trigger] fio[p]).index != bi by { if fio[p].index == bi { assert(fok(fio[p], tl)); assert(emitted(fb, fio, bi)); } }
    assert forall|c: int| c != bi implies emitted(fb2, fio2, c) == emitted(fb, fio, c) by {
        if 0 <= c < fb.len() && fb[c].opt_frame is None {
            let fi = fb[c].final_index as int;
            if fi < n { assert(fio2[fi] == fio[fi]); } else if fi == n { assert(fio2[fi].index == bi); }
        }
    }
    assert(emitted(fb2, fio2, bi)) by { assert(fio2[n] == frame); }
    assert forall|p: int| 0 <= p < fio2.len() implies fok(#[trigger] fio2[p], tl) && fb2[fio2[p].index as int].opt_frame is None && fb2[fio2[p].index as int].final_index == p by {
        if p < n { assert(fio2[p] == fio[p]); assert(fok(fio[p], tl)); }
    }
    assert forall|p: int, b: int| 0 <= p < fio2.len() && #[trigger] dep(fio2[p], m, b) implies emitted(fb2, fio2, b) && fb2[b].final_index < p by {
        if p < n { assert(fio2[p] == fio[p]); assert(dep(fio[p], m, b)); assert(emitted(fb, fio, b)); }
        else { assert(dep(stack0[top], m, b)); assert(!above(stack0, top, b)); assert(!in_seq(rev, b)); assert(emitted(fb, fio, b)); }
    }
    assert(held(stack1, fb2, fio2)) by { assert forall|p: int| 0 <= p < stack1.len() implies (#[trigger] stack1[p]).index < fb2.len() && fb2[stack1[p].index as int].opt_frame is None && !emitted(fb2, fio2, stack1[p].index as int) by { assert(stack1[p] == stack0[p]); assert(stack0[p].index != stack0[top].index); } }
    assert(distinct(stack1)) by { assert forall|p: int, q: int| 0 <= p < q < stack1.len() implies (#[trigger] stack1[p]).index != (#[trigger] stack1[q]).index by { assert(stack1[p] == stack0[p] && stack1[q] == stack0[q]); } }
    assert forall|c: int| 0 <= c < fb2.len() && (#[trigger] fb2[c]).opt_frame is None implies emitted(fb2, fio2, c) || in_seq(stack1, c) || in_seq(rev, c) || c == -1 by {
        if c != bi { assert(fb[c].opt_frame is None); if in_seq(stack0, c) { let p = choose|p: int| 0 <= p < stack0.len() && (#[trigger] stack0[p]).index == c; assert(p != top); assert(stack1[p].index == c); } }
    }
    assert forall|p: int| 0 <= p < stack1.len() implies iset.remove(frame.index).contains((#[trigger] stack1[p]).index) by { assert(stack1[p] == stack0[p]); assert(stack0[p].index != stack0[top].index); assert(iset.contains(stack0[p].index)); }
    assert forall|q: int, b: int| 0 <= q < stack1.len() && stack1[q].visited && #[trigger] dep(stack1[q], m, b) implies emitted(fb2, fio2, b) || above(stack1, q, b) || in_seq(rev, b) || b == -1 by {
        assert(stack1[q] == stack0[q]); assert(dep(stack0[q], m, b));
        if above(stack0, q, b) { let r = choose|r: int| q < r < stack0.len() && (#[trigger] stack0[r]).index == b; if r < top { assert(stack1[r].index == b); } }
    }
}
// the top frame, not yet visited, is taken in hand
proof fn dfs_pop(fb: Seq<FrameBufferValue>, fio: Seq<Frame>, m: Map<String, (usize, usize)>, tl: Seq<int>, stack0: Seq<Frame>, iset: Set<usize>, frame: Frame)
    requires dfs_inv(fb, fio, m, tl, stack0, Seq::empty(), -1, iset), stack0.len() > 0, frame == stack0.last(),
    ensures dfs_inv(fb, fio, m, tl, stack0.drop_last(), Seq::empty(), frame.index as int, iset.remove(frame.index)), srcs_placed(frame, m, 0, fb, fio, Seq::empty()),
{
    reveal(dfs_inv); reveal(rest_ok); reveal(srcs_placed);
    let bi = frame.index as int; let stack1 = stack0.drop_last(); let top = stack0.len() - 1; let rev = Seq::<Frame>::empty();
    assert(stack0[top].index == bi);
    assert(!in_seq(stack1, bi)) by { if in_seq(stack1, bi) { let p = choose|p: int| 0 <= p < stack1.len() && (#[trigger] stack1[p]).index == bi; assert(stack1[p] == stack0[p]); } }
    assert(held(stack1, fb, fio)) by { assert forall|p: int| 0 <= p < stack1.len() implies (#[trigger] stack1[p]).index < fb.len() && fb[stack1[p].index as int].opt_frame is None && !emitted(fb, fio, stack1[p].index as int) by { assert(stack1[p] == stack0[p]); } }
    assert(distinct(stack1)) by { assert forall|p: int, q: int| 0 <= p < q < stack1.len() implies (#[trigger] stack1[p]).index != (#[trigger] stack1[q]).index by { assert(stack1[p] == stack0[p] && stack1[q] == stack0[q]); } }
    assert forall|c: int| 0 <= c < fb.len() && (#[trigger] fb[c]).opt_frame is None implies emitted(fb, fio, c) || in_seq(stack1, c) || in_seq(rev, c) || c == bi by {
        if in_seq(stack0, c) { let p = choose|p: int| 0 <= p < stack0.len() && (#[trigger] stack0[p]).index == c; if p != top { assert(stack1[p].index == c); } }
    }
    assert forall|p: int| 0 <= p < stack1.len() implies iset.remove(frame.index).contains((#[trigger] stack1[p]).index) by { assert(stack1[p] == stack0[p]); assert(stack0[p].index != stack0[top].index); assert(iset.contains(stack0[p].index)); }
    assert forall|q: int, b: int| 0 <= q < stack1.len() && stack1[q].visited && #[trigger] dep(stack1[q], m, b) implies emitted(fb, fio, b) || above(stack1, q, b) || in_seq(rev, b) || b == bi by {
        assert(stack1[q] == stack0[q]); assert(dep(stack0[q], m, b));
        if above(stack0, q, b) { let r = choose|r: int| q < r < stack0.len() && (#[trigger] stack0[r]).index == b; if r < top { assert(stack1[r].index == b); } }
    }
}
// an unvisited sibling is moved from the stack to rev
proof fn dfs_sibling(fb: Seq<FrameBufferValue>, fio: Seq<Frame>, m: Map<String, (usize, usize)>, tl: Seq<int>, stack: Seq<Frame>, rev: Seq<Frame>, cur: int, iset: Set<usize>, pos: int, f: Frame)
    requires dfs_inv(fb, fio, m, tl, stack, rev, cur, iset), 0 <= pos < stack.len(), f.index == stack[pos].index,
    ensures dfs_inv(fb, fio, m, tl, stack.remove(pos), rev.push(f), cur, iset.remove(f.index)), in_seq(rev.push(f), f.index as int),
        forall|c: int| in_seq(rev, c) ==> in_seq(rev.push(f), c),
{
    reveal(dfs_inv); reveal(rest_ok); reveal(srcs_placed);
    let s2 = stack.remove(pos); let rev2 = rev.push(f); let b = f.index as int;
    assert(rev2[rev.len() as int].index == b);
    assert forall|c: int| in_seq(rev, c) implies in_seq(rev2, c) by { let p = choose|p: int| 0 <= p < rev.len() && (#[trigger] rev[p]).index == c; assert(rev2[p].index == c); }
    assert forall|p: int| 0 <= p < s2.len() implies #[trigger] s2[p] == stack[if p < pos { p } else { p + 1 }] by {}
    assert(held(s2, fb, fio)) by { assert forall|p: int| 0 <= p < s2.len() implies (#[trigger] s2[p]).index < fb.len() && fb[s2[p].index as int].opt_frame is None && !emitted(fb, fio, s2[p].index as int) by { let p0 = if p < pos { p } else { p + 1 }; assert(s2[p] == stack[p0]); } }
    assert(held(rev2, fb, fio)) by { assert forall|p: int| 0 <= p < rev2.len() implies (#[trigger] rev2[p]).index < fb.len() && fb[rev2[p].index as int].opt_frame is None && !emitted(fb, fio, rev2[p].index as int) by { if p < rev.len() { assert(rev2[p] == rev[p]); } else { assert(stack[pos].index == b); } } }
    assert(distinct(s2)) by { assert forall|p: int, q: int| 0 <= p < q < s2.len() implies (#[trigger] s2[p]).index != (#[trigger] s2[q]).index by { let p0 = if p < pos { p } else { p + 1 }; let q0 = if q < pos { q } else { q + 1 }; assert(s2[p] == stack[p0] && s2[q] == stack[q0]); } }
    assert(distinct(rev2)) by { assert forall|p: int, q: int| 0 <= p < q < rev2.len() implies (#[trigger] rev2[p]).index != (#[trigger] rev2[q]).index by { assert(rev2[p] == rev[p]); if q < rev.len() { assert(rev2[q] == rev[q]); } else { assert(stack[pos].index == b); } } }
    assert(disjoint(s2, rev2)) by { assert forall|p: int, q: int| 0 <= p < s2.len() && 0 <= q < rev2.len() implies (#[trigger] s2[p]).index != (#[trigger] rev2[q]).index by { let p0 = if p < pos { p } else { p + 1 }; assert(s2[p] == stack[p0]); if q < rev.len() { assert(rev2[q] == rev[q]); } else { assert(stack[p0].index != stack[pos].index); } } }
    if cur >= 0 {
        assert(!in_seq(s2, cur)) by { if in_seq(s2, cur) { let p = choose|p: int| 0 <= p < s2.len() && (#[trigger] s2[p]).index == cur; let p0 = if p < pos { p } else { p + 1 }; assert(stack[p0].index == cur); } }
        assert(!in_seq(rev2, cur)) by { if in_seq(rev2, cur) { let p = choose|p: int| 0 <= p < rev2.len() && (#[trigger] rev2[p]).index == cur; if p < rev.len() { assert(rev[p].index == cur); } else { assert(stack[pos].index == cur); } } }
    }
    assert forall|c: int| 0 <= c < fb.len() && (#[trigger] fb[c]).opt_frame is None implies emitted(fb, fio, c) || in_seq(s2, c) || in_seq(rev2, c) || c == cur by {
        if in_seq(stack, c) { let p = choose|p: int| 0 <= p < stack.len() && (#[trigger] stack[p]).index == c; if p < pos { assert(s2[p].index == c); } else if p > pos { assert(s2[p - 1].index == c); } }
    }
    assert forall|p: int| 0 <= p < s2.len() implies iset.remove(f.index).contains((#[trigger] s2[p]).index) by { let p0 = if p < pos { p } else { p + 1 }; assert(s2[p] == stack[p0]); assert(stack[p0].index != stack[pos].index); assert(iset.contains(stack[p0].index)); }
    assert forall|q: int, c: int| 0 <= q < s2.len() && s2[q].visited && #[trigger] dep(s2[q], m, c) implies emitted(fb, fio, c) || above(s2, q, c) || in_seq(rev2, c) || c == cur by {
        let q0 = if q < pos { q } else { q + 1 }; assert(s2[q] == stack[q0]); assert(dep(stack[q0], m, c));
        if above(stack, q0, c) { let r = choose|r: int| q0 < r < stack.len() && (#[trigger] stack[r]).index == c; if r < pos { assert(s2[r].index == c); } else if r > pos { assert(s2[r - 1].index == c); } }
    }
}
// the frame in hand goes back on the stack, visited
proof fn dfs_visit(fb: Seq<FrameBufferValue>, fio: Seq<Frame>, m: Map<String, (usize, usize)>, tl: Seq<int>, stack: Seq<Frame>, rev: Seq<Frame>, cur: int, iset: Set<usize>, fv: Frame)
    requires dfs_inv(fb, fio, m, tl, stack, rev, cur, iset), cur >= 0, fv.index == cur, srcs_placed(fv, m, fv.sources@.len() as int, fb, fio, rev),
    ensures dfs_inv(fb, fio, m, tl, stack.push(fv), rev, -1, iset.insert(fv.index))
{
    reveal(dfs_inv); reveal(rest_ok); reveal(srcs_placed);
    let s2 = stack.push(fv); let top = stack.len() as int;
    assert(s2[top].index == cur);
    assert(held(s2, fb, fio)) by { assert forall|p: int| 0 <= p < s2.len() implies (#[trigger] s2[p]).index < fb.len() && fb[s2[p].index as int].opt_frame is None && !emitted(fb, fio, s2[p].index as int) by { if p < top { assert(s2[p] == stack[p]); } } }
    assert(distinct(s2)) by { assert forall|p: int, q: int| 0 <= p < q < s2.len() implies (#[trigger] s2[p]).index != (#[trigger] s2[q]).index by { assert(s2[p] == stack[p]); if q < top { assert(s2[q] == stack[q]); } } }
    assert(disjoint(s2, rev)) by { assert forall|p: int, q: int| 0 <= p < s2.len() && 0 <= q < rev.len() implies (#[trigger] s2[p]).index != (#[trigger] rev[q]).index by { if p < top { assert(s2[p] == stack[p]); } } }
    assert forall|c: int| 0 <= c < fb.len() && (#[trigger] fb[c]).opt_frame is None implies emitted(fb, fio, c) || in_seq(s2, c) || in_seq(rev, c) || c == -1 by {
        if in_seq(stack, c) { let p = choose|p: int| 0 <= p < stack.len() && (#[trigger] stack[p]).index == c; assert(s2[p].index == c); }
    }
    assert forall|p: int| 0 <= p < s2.len() implies iset.insert(fv.index).contains((#[trigger] s2[p]).index) by { if p < top { assert(s2[p] == stack[p]); assert(iset.contains(stack[p].index)); } }
    assert forall|q: int, c: int| 0 <= q < s2.len() && s2[q].visited && #[trigger] dep(s2[q], m, c) implies emitted(fb, fio, c) || above(s2, q, c) || in_seq(rev, c) || c == -1 by {
        if q < top {
            assert(s2[q] == stack[q]); assert(dep(stack[q], m, c));
            if above(stack, q, c) { let r = choose|r: int| q < r < stack.len() && (#[trigger] stack[r]).index == c; assert(s2[r].index == c); }
            if c == cur { assert(s2[top].index == c); }
        } else { assert(dep_upto(fv, m, c, fv.sources@.len() as int)); }
    }
}
// a waiting frame goes from rev onto the stack
proof fn dfs_unrev(fb: Seq<FrameBufferValue>, fio: Seq<Frame>, m: Map<String, (usize, usize)>, tl: Seq<int>, stack: Seq<Frame>, rev0: Seq<Frame>, iset: Set<usize>, f: Frame)
    requires dfs_inv(fb, fio, m, tl, stack, rev0, -1, iset), rev0.len() > 0, f == rev0.last(), !f.visited,
    ensures dfs_inv(fb, fio, m, tl, stack.push(f), rev0.drop_last(), -1, iset.insert(f.index))
{
    reveal(dfs_inv); reveal(rest_ok); reveal(srcs_placed);
    let s2 = stack.push(f); let top = stack.len() as int; let rev1 = rev0.drop_last(); let last = rev0.len() - 1; let b = f.index as int;
    assert(rev0[last].index == b); assert(s2[top].index == b);
    assert(held(s2, fb, fio)) by { assert forall|p: int| 0 <= p < s2.len() implies (#[trigger] s2[p]).index < fb.len() && fb[s2[p].index as int].opt_frame is None && !emitted(fb, fio, s2[p].index as int) by { if p < top { assert(s2[p] == stack[p]); } } }
    assert(held(rev1, fb, fio)) by { assert forall|p: int| 0 <= p < rev1.len() implies (#[trigger] rev1[p]).index < fb.len() && fb[rev1[p].index as int].opt_frame is None && !emitted(fb, fio, rev1[p].index as int) by { assert(rev1[p] == rev0[p]); } }
    assert(distinct(s2)) by { assert forall|p: int, q: int| 0 <= p < q < s2.len() implies (#[trigger] s2[p]).index != (#[trigger] s2[q]).index by { assert(s2[p] == stack[p]); if q < top { assert(s2[q] == stack[q]); } else { assert(stack[p].index != rev0[last].index); } } }
    assert(distinct(rev1)) by { assert forall|p: int, q: int| 0 <= p < q < rev1.len() implies (#[trigger] rev1[p]).index != (#[trigger] rev1[q]).index by { assert(rev1[p] == rev0[p] && rev1[q] == rev0[q]); } }
    assert(disjoint(s2, rev1)) by { assert forall|p: int, q: int| 0 <= p < s2.len() && 0 <= q < rev1.len() implies (#[trigger] s2[p]).index != (#[trigger] rev1[q]).index by { assert(rev1[q] == rev0[q]); if p < top { assert(s2[p] == stack[p]); } else { assert(rev0[q].index != rev0[last].index); } } }
    assert forall|c: int| 0 <= c < fb.len() && (#[trigger] fb[c]).opt_frame is None implies emitted(fb, fio, c) || in_seq(s2, c) || in_seq(rev1, c) || c == -1 by {
        if in_seq(stack, c) { let p = choose|p: int| 0 <= p < stack.len() && (#[trigger] stack[p]).index == c; assert(s2[p].index == c); }
        if in_seq(rev0, c) { let p = choose|p: int| 0 <= p < rev0.len() && (#[trigger] rev0[p]).index == c; if p < last { assert(rev1[p].index == c); } else { assert(s2[top].index == c); } }
    }
    assert forall|p: int| 0 <= p < s2.len() implies iset.insert(f.index).contains((#[trigger] s2[p]).index) by { if p < top { assert(s2[p] == stack[p]); assert(iset.contains(stack[p].index)); } }
    assert forall|q: int, c: int| 0 <= q < s2.len() && s2[q].visited && #[trigger] dep(s2[q], m, c) implies emitted(fb, fio, c) || above(s2, q, c) || in_seq(rev1, c) || c == -1 by {
        assert(q < top); assert(s2[q] == stack[q]); assert(dep(stack[q], m, c));
        if above(stack, q, c) { let r = choose|r: int| q < r < stack.len() && (#[trigger] stack[r]).index == c; assert(s2[r].index == c); }
        if in_seq(rev0, c) { let p = choose|p: int| 0 <= p < rev0.len() && (#[trigger] rev0[p]).index == c; if p < last { assert(rev1[p].index == c); } else { assert(s2[top].index == c); } }
    }
}

// ---------- cycle verdict: CircularDependence / SelfDependentRule are reported only for a real cycle ----------
// the rule graph, abstractly: g(a, b) = rule a depends on rule b (a source of a is a target of b); n rules
// ft: the frame of every rule as the table was built (frames move between table, stack, reverser and the emitted list, but their
// sources never change); the rule graph: a depends on b when a source of rule a is a target of rule b
spec fn in_g(f: Frame, ft: Seq<Frame>) -> bool { f.index < ft.len() && f.sources == ft[f.index as int].sources && f.targets == ft[f.index as int].targets }
spec fn all_in_g(v: Seq<Frame>, ft: Seq<Frame>) -> bool { forall|p: int| 0 <= p < v.len() ==> in_g(#[trigger] v[p], ft) }
spec fn gf(ft: Seq<Frame>, m: Map<String, (usize, usize)>) -> spec_fn(int, int) -> bool { |a: int, b: int| 0 <= a < ft.len() && dep(ft[a], m, b) }
proof fn dep_same(f: Frame, f2: Frame, m: Map<String, (usize, usize)>, b: int) requires f.sources == f2.sources, dep(f, m, b) ensures dep(f2, m, b)
{ assert(dep_upto(f, m, b, f.sources@.len() as int)); assert(dep_upto(f2, m, b, f2.sources@.len() as int)); }
spec fn is_path(g: spec_fn(int, int) -> bool, n: int, p: Seq<int>) -> bool {
    p.len() >= 1 && (forall|i: int| 0 <= i < p.len() ==> 0 <= #[trigger] p[i] < n) && (forall|i: int| #![trigger p[i]] 0 <= i < p.len() - 1 ==> g(p[i], p[i + 1]))
}
spec fn reach(g: spec_fn(int, int) -> bool, n: int, a: int, b: int) -> bool { exists|p: Seq<int>| #[trigger] is_path(g, n, p) && p[0] == a && p.last() == b }
// a real cycle: a path from a to b and an edge from b back to a
spec fn cyclic(g: spec_fn(int, int) -> bool, n: int) -> bool { exists|a: int, b: int| #[trigger] reach(g, n, a, b) && g(b, a) }
proof fn reach_refl(g: spec_fn(int, int) -> bool, n: int, a: int) requires 0 <= a < n ensures reach(g, n, a, a)
{ let p = seq![a]; assert(is_path(g, n, p)); assert(p[0] == a && p.last() == a); }
proof fn reach_step(g: spec_fn(int, int) -> bool, n: int, a: int, b: int, c: int) requires reach(g, n, a, b), 0 <= c < n, g(b, c) ensures reach(g, n, a, c)
{
    let p = choose|p: Seq<int>| #[trigger] is_path(g, n, p) && p[0] == a && p.last() == b;
    let p2 = p.push(c);
    assert forall|i: int| 0 <= i < p2.len() implies 0 <= #[trigger] p2[i] < n by { if i < p.len() { assert(p2[i] == p[i]); } }
    assert forall|i: int| #![trigger p2[i]] 0 <= i < p2.len() - 1 implies g(p2[i], p2[i + 1]) by {
        if i < p.len() - 1 { assert(p2[i] == p[i] && p2[i + 1] == p[i + 1]); } else { assert(p2[i] == p.last() && p2[i + 1] == c); }
    }
    assert(is_path(g, n, p2)); assert(p2[0] == p[0]); assert(p2.last() == c);
}
// the nearest visited frame below position r of the stack (-1: none)
spec fn np(s: Seq<Frame>, r: int) -> int decreases r { if r <= 0 { -1 } else if s[r - 1].visited { r - 1 } else { np(s, r - 1) } }
proof fn np_props(s: Seq<Frame>, r: int)
    requires 0 <= r <= s.len()
    ensures -1 <= np(s, r) < r, np(s, r) >= 0 ==> s[np(s, r)].visited, forall|q: int| np(s, r) < q < r ==> !(#[trigger] s[q]).visited
    decreases r
{ if r > 0 && !s[r - 1].visited { np_props(s, r - 1); } }
proof fn np_ge(s: Seq<Frame>, q: int, r: int) requires 0 <= q < r <= s.len(), s[q].visited ensures np(s, r) >= q
{ np_props(s, r); if np(s, r) < q { assert(!s[q].visited); } }
proof fn np_same(s: Seq<Frame>, t: Seq<Frame>, r: int)
    requires 0 <= r <= s.len(), r <= t.len(), forall|i: int| 0 <= i < r ==> (#[trigger] s[i]).visited == t[i].visited
    ensures np(s, r) == np(t, r)
    decreases r
{ if r > 0 { assert(s[r - 1].visited == t[r - 1].visited); if !s[r - 1].visited { np_same(s, t, r - 1); } } }
// removing an unvisited frame at pos: the nearest visited frame of every other position is the same frame
proof fn np_remove(s: Seq<Frame>, pos: int, r: int)
    requires 0 <= pos < s.len(), !s[pos].visited, 0 <= r <= s.len() - 1
    ensures ({ let t = s.remove(pos); let r0 = if r <= pos { r } else { r + 1 }; let n0 = np(s, r0); np(t, r) == (if n0 > pos { n0 - 1 } else { n0 }) })
    decreases r
{
    let t = s.remove(pos);
    if r <= 0 { assert(np(t, r) == -1 && np(s, r) == -1); }
    else if r <= pos {
        assert(t[r - 1] == s[r - 1]);
        assert(np(t, r) == (if t[r - 1].visited { r - 1 } else { np(t, r - 1) }));
        assert(np(s, r) == (if s[r - 1].visited { r - 1 } else { np(s, r - 1) }));
        if !s[r - 1].visited { np_remove(s, pos, r - 1); np_props(s, r - 1); }
    } else {
        assert(t[r - 1] == s[r]);
        assert(np(t, r) == (if t[r - 1].visited { r - 1 } else { np(t, r - 1) }));
        assert(np(s, r + 1) == (if s[r].visited { r } else { np(s, r) }));
        if !s[r].visited {
            np_remove(s, pos, r - 1);
            if r - 1 == pos { assert(np(s, pos + 1) == (if s[pos].visited { pos } else { np(s, pos) })); np_props(s, pos); }
        }
    }
}
// the parent structure of the traversal: every stack frame that has a visited frame below it is something that frame depends on;
// the frame in hand is something the topmost visited frame depends on; what waits in rev is something the frame in hand depends
// on (cur >= 0), or -- once that frame is back on the stack, visited -- something the topmost visited frame depends on (cur < 0)
#[verifier::opaque]
spec fn par_inv(stack: Seq<Frame>, rev: Seq<Frame>, cur: int, g: spec_fn(int, int) -> bool) -> bool {
    &&& forall|r: int| 0 <= r < stack.len() && np(stack, r) >= 0 ==> g(stack[np(stack, r)].index as int, (#[trigger] stack[r]).index as int)
    &&& (cur >= 0 && np(stack, stack.len() as int) >= 0 ==> g(stack[np(stack, stack.len() as int)].index as int, cur))
    &&& forall|i: int| 0 <= i < rev.len() ==> (if cur >= 0 { g(cur, (#[trigger] rev[i]).index as int) } else { np(stack, stack.len() as int) >= 0 && g(stack[np(stack, stack.len() as int)].index as int, rev[i].index as int) })
}
proof fn par_start(g: spec_fn(int, int) -> bool) ensures par_inv(Seq::empty(), Seq::empty(), -1, g) { reveal(par_inv); }
proof fn par_first(f: Frame, g: spec_fn(int, int) -> bool) ensures par_inv(Seq::<Frame>::empty().push(f), Seq::empty(), -1, g)
{ reveal(par_inv); let s = Seq::<Frame>::empty().push(f); assert(np(s, 0) == -1); }
proof fn par_pop(stack0: Seq<Frame>, g: spec_fn(int, int) -> bool)
    requires par_inv(stack0, Seq::empty(), -1, g), stack0.len() > 0, !stack0.last().visited
    ensures par_inv(stack0.drop_last(), Seq::empty(), stack0.last().index as int, g)
{
    reveal(par_inv);
    let s1 = stack0.drop_last(); let top = stack0.len() - 1;
    assert forall|r: int| 0 <= r <= s1.len() implies np(s1, r) == np(stack0, r) by { np_same(s1, stack0, r); }
    assert forall|r: int| 0 <= r < s1.len() && np(s1, r) >= 0 implies g(s1[np(s1, r)].index as int, (#[trigger] s1[r]).index as int) by {
        np_props(stack0, r); assert(s1[r] == stack0[r]); assert(g(stack0[np(stack0, r)].index as int, stack0[r].index as int));
    }
    if np(s1, s1.len() as int) >= 0 { np_props(stack0, top); assert(g(stack0[np(stack0, top)].index as int, stack0[top].index as int)); }
}
proof fn par_emit(stack0: Seq<Frame>, g: spec_fn(int, int) -> bool)
    requires par_inv(stack0, Seq::empty(), -1, g), stack0.len() > 0
    ensures par_inv(stack0.drop_last(), Seq::empty(), -1, g)
{
    reveal(par_inv);
    let s1 = stack0.drop_last();
    assert forall|r: int| 0 <= r < s1.len() && np(s1, r) >= 0 implies g(s1[np(s1, r)].index as int, (#[trigger] s1[r]).index as int) by {
        np_same(s1, stack0, r); np_props(stack0, r); assert(s1[r] == stack0[r]); assert(g(stack0[np(stack0, r)].index as int, stack0[r].index as int));
    }
}
// a frame the frame in hand depends on goes to rev (taken from the table, or moved up from the stack where it waited unvisited)
proof fn par_take(stack: Seq<Frame>, rev: Seq<Frame>, cur: int, g: spec_fn(int, int) -> bool, f: Frame)
    requires par_inv(stack, rev, cur, g), cur >= 0, g(cur, f.index as int)
    ensures par_inv(stack, rev.push(f), cur, g)
{
    reveal(par_inv);
    let rev2 = rev.push(f);
    assert forall|i: int| 0 <= i < rev2.len() implies g(cur, (#[trigger] rev2[i]).index as int) by { if i < rev.len() { assert(rev2[i] == rev[i]); } }
}
// P1 for one position of the stack after an unvisited frame was removed
proof fn sib_one(stack: Seq<Frame>, rev: Seq<Frame>, cur: int, g: spec_fn(int, int) -> bool, pos: int, r: int)
    requires par_inv(stack, rev, cur, g), 0 <= pos < stack.len(), !stack[pos].visited, 0 <= r < stack.len() - 1, np(stack.remove(pos), r) >= 0
    ensures g(stack.remove(pos)[np(stack.remove(pos), r)].index as int, stack.remove(pos)[r].index as int)
{
    reveal(par_inv);
    let t = stack.remove(pos);
    np_remove(stack, pos, r);
    if r < pos {
        let n0 = np(stack, r); np_props(stack, r);
        assert(np(t, r) == n0); assert(t[r] == stack[r]); assert(t[n0] == stack[n0]);
        assert(g(stack[n0].index as int, stack[r].index as int));
    } else if r == pos {
        let n0 = np(stack, pos); np_props(stack, pos);
        assert(np(t, r) == n0); assert(t[n0] == stack[n0]); assert(t[r] == stack[pos + 1]);
        assert(np(stack, pos + 1) == (if stack[pos].visited { pos } else { np(stack, pos) }));
        assert(g(stack[np(stack, pos + 1)].index as int, stack[pos + 1].index as int));
    } else {
        let n0 = np(stack, r + 1); np_props(stack, r + 1);
        assert(t[r] == stack[r + 1]);
        if n0 >= 0 { assert(stack[n0].visited); }
        if n0 > pos { assert(np(t, r) == n0 - 1); assert(t[n0 - 1] == stack[n0]); } else { assert(np(t, r) == n0); assert(n0 < pos); assert(t[n0] == stack[n0]); }
        assert(g(stack[n0].index as int, stack[r + 1].index as int));
    }
}
// the topmost visited frame is the same frame after an unvisited frame was removed
proof fn sib_top(stack: Seq<Frame>, pos: int)
    requires 0 <= pos < stack.len(), !stack[pos].visited
    ensures ({ let t = stack.remove(pos); let a = np(stack, stack.len() as int); let b = np(t, t.len() as int); (a < 0 <==> b < 0) && (a >= 0 ==> t[b] == stack[a]) })
{
    let t = stack.remove(pos); let a = np(stack, stack.len() as int); np_props(stack, stack.len() as int);
    if pos == stack.len() - 1 {
        assert(np(stack, pos + 1) == (if stack[pos].visited { pos } else { np(stack, pos) }));
        np_same(t, stack, pos);
        if a >= 0 { assert(t[a] == stack[a]); }
    } else {
        np_remove(stack, pos, t.len() as int);
        if a >= 0 { assert(stack[a].visited); if a > pos { assert(t[a - 1] == stack[a]); } else { assert(t[a] == stack[a]); } }
    }
}
proof fn par_sibling(stack: Seq<Frame>, rev: Seq<Frame>, cur: int, g: spec_fn(int, int) -> bool, pos: int, f: Frame)
    requires par_inv(stack, rev, cur, g), cur >= 0, 0 <= pos < stack.len(), !stack[pos].visited, g(cur, f.index as int)
    ensures par_inv(stack.remove(pos), rev.push(f), cur, g)
{
    let t = stack.remove(pos); let rev2 = rev.push(f);
    assert forall|r: int| 0 <= r < t.len() && np(t, r) >= 0 implies g(t[np(t, r)].index as int, (#[trigger] t[r]).index as int) by { sib_one(stack, rev, cur, g, pos, r); }
    sib_top(stack, pos);
    reveal(par_inv);
    assert forall|i: int| 0 <= i < rev2.len() implies g(cur, (#[trigger] rev2[i]).index as int) by { if i < rev.len() { assert(rev2[i] == rev[i]); } }
}
// the frame in hand goes back on the stack, visited: it is the topmost visited frame now, and what waits in rev is what it depends on
proof fn par_visit(stack: Seq<Frame>, rev: Seq<Frame>, cur: int, g: spec_fn(int, int) -> bool, fv: Frame)
    requires par_inv(stack, rev, cur, g), cur >= 0, fv.index == cur, fv.visited
    ensures par_inv(stack.push(fv), rev, -1, g)
{
    reveal(par_inv);
    let s2 = stack.push(fv); let top = stack.len() as int;
    assert forall|r: int| 0 <= r <= top implies np(s2, r) == np(stack, r) by { np_same(s2, stack, r); }
    assert(np(s2, top + 1) == top);
    assert forall|r: int| 0 <= r < s2.len() && np(s2, r) >= 0 implies g(s2[np(s2, r)].index as int, (#[trigger] s2[r]).index as int) by {
        np_props(stack, r);
        if r < top { assert(s2[r] == stack[r]); assert(s2[np(stack, r)] == stack[np(stack, r)]); assert(g(stack[np(stack, r)].index as int, stack[r].index as int)); }
        else { assert(s2[np(stack, top)] == stack[np(stack, top)]); }
    }
}
proof fn par_unrev(stack: Seq<Frame>, rev0: Seq<Frame>, g: spec_fn(int, int) -> bool)
    requires par_inv(stack, rev0, -1, g), rev0.len() > 0, !rev0.last().visited
    ensures par_inv(stack.push(rev0.last()), rev0.drop_last(), -1, g)
{
    reveal(par_inv);
    let f = rev0.last(); let s2 = stack.push(f); let top = stack.len() as int; let rev1 = rev0.drop_last();
    assert forall|r: int| 0 <= r <= top implies np(s2, r) == np(stack, r) by { np_same(s2, stack, r); }
    assert(np(s2, top + 1) == np(stack, top));
    let tv = np(stack, top); np_props(stack, top);
    assert(tv >= 0 && g(stack[tv].index as int, f.index as int)) by { assert(rev0[rev0.len() - 1] == f); }
    assert forall|r: int| 0 <= r < s2.len() && np(s2, r) >= 0 implies g(s2[np(s2, r)].index as int, (#[trigger] s2[r]).index as int) by {
        np_props(stack, r);
        if r < top { assert(s2[r] == stack[r]); assert(s2[np(stack, r)] == stack[np(stack, r)]); assert(g(stack[np(stack, r)].index as int, stack[r].index as int)); }
        else { assert(s2[tv] == stack[tv]); }
    }
    assert forall|i: int| 0 <= i < rev1.len() implies np(s2, s2.len() as int) >= 0 && g(s2[np(s2, s2.len() as int)].index as int, (#[trigger] rev1[i]).index as int) by {
        assert(rev1[i] == rev0[i]); assert(s2[tv] == stack[tv]);
    }
}
// visited stack frames form a chain of dependencies, bottom to top
proof fn vis_reach(stack: Seq<Frame>, rev: Seq<Frame>, cur: int, g: spec_fn(int, int) -> bool, n: int, q: int, r: int)
    requires par_inv(stack, rev, cur, g), 0 <= q <= r < stack.len(), stack[q].visited, stack[r].visited, forall|p: int| 0 <= p < stack.len() ==> (#[trigger] stack[p]).index < n
    ensures reach(g, n, stack[q].index as int, stack[r].index as int)
    decreases r - q
{
    reveal(par_inv);
    if q == r { reach_refl(g, n, stack[q].index as int); }
    else {
        np_ge(stack, q, r); np_props(stack, r);
        let k = np(stack, r);
        vis_reach(stack, rev, cur, g, n, q, k);
        assert(g(stack[k].index as int, stack[r].index as int));
        reach_step(g, n, stack[q].index as int, stack[k].index as int, stack[r].index as int);
    }
}
// the frame in hand depends on a rule whose frame sits on the stack, VISITED (an ancestor): that is a real cycle      //# L-S-cycle-real [C12]
proof fn cycle_found(stack: Seq<Frame>, rev: Seq<Frame>, cur: int, g: spec_fn(int, int) -> bool, n: int, q: int)
    requires par_inv(stack, rev, cur, g), 0 <= cur < n, 0 <= q < stack.len(), stack[q].visited, g(cur, stack[q].index as int), forall|p: int| 0 <= p < stack.len() ==> (#[trigger] stack[p]).index < n
    ensures cyclic(g, n)
{
    let t = np(stack, stack.len() as int);
    np_ge(stack, q, stack.len() as int); np_props(stack, stack.len() as int);
    vis_reach(stack, rev, cur, g, n, q, t);
    assert(g(stack[t].index as int, cur)) by { reveal(par_inv); }
    reach_step(g, n, stack[q].index as int, stack[t].index as int, cur);
}
proof fn self_cycle(g: spec_fn(int, int) -> bool, n: int, a: int) requires 0 <= a < n, g(a, a) ensures cyclic(g, n) { reach_refl(g, n, a); }
// a frame keeps its place in the graph when only its sub_index / visited flag change
proof fn in_g_same(f: Frame, f2: Frame, ft: Seq<Frame>) requires in_g(f, ft), f2.index == f.index, f2.sources == f.sources, f2.targets == f.targets ensures in_g(f2, ft) {}
// what a frame depends on is an edge of the graph
proof fn g_edge(f: Frame, ft: Seq<Frame>, m: Map<String, (usize, usize)>, b: int) requires in_g(f, ft), dep(f, m, b) ensures gf(ft, m)(f.index as int, b)
{ dep_same(f, ft[f.index as int], m, b); }
// source k of f is a target of rule b: f depends on b
proof fn dep_intro(f: Frame, m: Map<String, (usize, usize)>, k: int, b: int)
    requires 0 <= k < f.sources@.len(), m.contains_key(f.sources@[k]), m[f.sources@[k]].0 == b ensures dep(f, m, b)
{ assert(dep_upto(f, m, b, f.sources@.len() as int)); }
proof fn dfs_on_stack(fb: Seq<FrameBufferValue>, fio: Seq<Frame>, m: Map<String, (usize, usize)>, tl: Seq<int>, stack: Seq<Frame>, rev: Seq<Frame>, cur: int, iset: Set<usize>, b: usize)
    requires dfs_inv(fb, fio, m, tl, stack, rev, cur, iset), iset.contains(b) ensures in_seq(stack, b as int)
{ reveal(dfs_inv); }
// the rule graph of a table: rule a has a source that is a target of rule b
spec fn edge_t(tab: Seq<RuleSpec>, a: int, b: int) -> bool {
    0 <= a < tab.len() && exists|j: int, s: int| 0 <= j < tab[a].sources.len() && #[trigger] is_target(tab, b, s, sort_spec(tab[a].sources)[j])
}
spec fn g_tab(tab: Seq<RuleSpec>) -> spec_fn(int, int) -> bool { |a: int, b: int| edge_t(tab, a, b) }

// ---------- scope: a traversal emits only rules that the start rule needs ----------
spec fn later_parent(fio: Seq<Frame>, g: spec_fn(int, int) -> bool, p: int) -> bool { exists|p2: int| p < p2 < fio.len() && g((#[trigger] fio[p2]).index as int, fio[p].index as int) }
spec fn stack_parent(fio: Seq<Frame>, stack: Seq<Frame>, g: spec_fn(int, int) -> bool, p: int) -> bool { exists|q: int| 0 <= q < stack.len() && (#[trigger] stack[q]).visited && g(stack[q].index as int, fio[p].index as int) }
// every rule emitted by this traversal (positions >= base) is something a later emitted rule, or a visited rule still on the stack,
// depends on -- except the start rule, which sits at the bottom of the stack and is emitted last
#[verifier::opaque]
spec fn scope_inv(fio: Seq<Frame>, base: int, stack: Seq<Frame>, cur: int, nrev: int, start: int, g: spec_fn(int, int) -> bool) -> bool {
    &&& 0 <= base <= fio.len()
    &&& forall|p: int| #![trigger fio[p]] base <= p < fio.len() ==> later_parent(fio, g, p) || stack_parent(fio, stack, g, p) || (stack.len() == 0 && cur < 0 && p == fio.len() - 1)
    &&& (stack.len() > 0 ==> stack[0].index == start && (stack[0].visited || (stack.len() == 1 && cur < 0 && nrev == 0)))
    &&& (stack.len() == 0 && cur >= 0 ==> cur == start)
    &&& (stack.len() == 0 && cur < 0 && fio.len() > base ==> fio.last().index == start)
}
// what a finished traversal leaves: every rule it emitted except the last is needed by a later one; the last one is the start rule
spec fn scope_done(fio: Seq<Frame>, base: int, start: int, g: spec_fn(int, int) -> bool) -> bool {
    &&& 0 <= base <= fio.len()
    &&& forall|p: int| #![trigger fio[p]] base <= p < fio.len() - 1 ==> later_parent(fio, g, p)
    &&& (fio.len() > base ==> fio.last().index == start)
}
proof fn scope_none(fio: Seq<Frame>, start: int, g: spec_fn(int, int) -> bool) ensures scope_done(fio, fio.len() as int, start, g) {}
proof fn scope_first(fio: Seq<Frame>, f: Frame, g: spec_fn(int, int) -> bool)
    ensures scope_inv(fio, fio.len() as int, Seq::<Frame>::empty().push(f), -1, 0, f.index as int, g)
{ reveal(scope_inv); }
proof fn scope_finish(fio: Seq<Frame>, base: int, stack: Seq<Frame>, start: int, g: spec_fn(int, int) -> bool)
    requires scope_inv(fio, base, stack, -1, 0, start, g), stack.len() == 0 ensures scope_done(fio, base, start, g)
{
    reveal(scope_inv);
    assert forall|p: int| #![trigger fio[p]] base <= p < fio.len() - 1 implies later_parent(fio, g, p) by { assert(!stack_parent(fio, stack, g, p)); }
}
proof fn scope_pop(fio: Seq<Frame>, base: int, stack0: Seq<Frame>, start: int, g: spec_fn(int, int) -> bool)
    requires scope_inv(fio, base, stack0, -1, 0, start, g), stack0.len() > 0, !stack0.last().visited
    ensures scope_inv(fio, base, stack0.drop_last(), stack0.last().index as int, 0, start, g)
{
    reveal(scope_inv);
    let s1 = stack0.drop_last(); let top = stack0.len() - 1;
    assert forall|p: int| #![trigger fio[p]] base <= p < fio.len() implies later_parent(fio, g, p) || stack_parent(fio, s1, g, p) by {
        if !later_parent(fio, g, p) {
            assert(stack_parent(fio, stack0, g, p));
            let q = choose|q: int| 0 <= q < stack0.len() && (#[trigger] stack0[q]).visited && g(stack0[q].index as int, fio[p].index as int);
            assert(q != top); assert(s1[q] == stack0[q]);
        }
    }
    if s1.len() > 0 { assert(s1[0] == stack0[0]); }
}
// the top frame V, visited, is emitted: what depended on V's presence on the stack now has a later emitted parent; V's own parent is
// the nearest visited frame below it (par_inv), which stays on the stack -- unless V is the start rule at the bottom
proof fn scope_emit(fio: Seq<Frame>, base: int, stack0: Seq<Frame>, start: int, g: spec_fn(int, int) -> bool)
    requires scope_inv(fio, base, stack0, -1, 0, start, g), par_inv(stack0, Seq::empty(), -1, g), stack0.len() > 0, stack0.last().visited
    ensures scope_inv(fio.push(stack0.last()), base, stack0.drop_last(), -1, 0, start, g)
{
    reveal(scope_inv); reveal(par_inv);
    let v = stack0.last(); let s1 = stack0.drop_last(); let top = stack0.len() - 1; let fio2 = fio.push(v); let n = fio.len() as int;
    assert(fio2[n] == v);
    assert forall|p: int| #![trigger fio2[p]] base <= p < fio2.len() implies later_parent(fio2, g, p) || stack_parent(fio2, s1, g, p) || (s1.len() == 0 && p == fio2.len() - 1) by {
        if p < n {
            assert(fio2[p] == fio[p]);
            if later_parent(fio, g, p) {
                let p2 = choose|p2: int| p < p2 < fio.len() && g((#[trigger] fio[p2]).index as int, fio[p].index as int);
                assert(fio2[p2] == fio[p2]); assert(later_parent(fio2, g, p));
            } else {
                assert(stack_parent(fio, stack0, g, p));
                let q = choose|q: int| 0 <= q < stack0.len() && (#[trigger] stack0[q]).visited && g(stack0[q].index as int, fio[p].index as int);
                if q == top { assert(g(fio2[n].index as int, fio2[p].index as int)); assert(later_parent(fio2, g, p)); }
                else { assert(s1[q] == stack0[q]); assert(stack_parent(fio2, s1, g, p)); }
            }
        } else if top > 0 {
            assert(stack0[0].visited);
            np_ge(stack0, 0, top); np_props(stack0, top);
            let k = np(stack0, top);
            assert(g(stack0[k].index as int, stack0[top].index as int));
            assert(s1[k] == stack0[k]); assert(stack_parent(fio2, s1, g, p));
        }
    }
    if s1.len() > 0 { assert(s1[0] == stack0[0]); }
}
proof fn scope_nrev(fio: Seq<Frame>, base: int, stack: Seq<Frame>, cur: int, nrev: int, nrev2: int, start: int, g: spec_fn(int, int) -> bool)
    requires scope_inv(fio, base, stack, cur, nrev, start, g), cur >= 0 ensures scope_inv(fio, base, stack, cur, nrev2, start, g)
{ reveal(scope_inv); }
proof fn scope_sibling(fio: Seq<Frame>, base: int, stack: Seq<Frame>, cur: int, nrev: int, start: int, g: spec_fn(int, int) -> bool, pos: int)
    requires scope_inv(fio, base, stack, cur, nrev, start, g), cur >= 0, 0 <= pos < stack.len(), !stack[pos].visited
    ensures scope_inv(fio, base, stack.remove(pos), cur, nrev + 1, start, g)
{
    reveal(scope_inv);
    let t = stack.remove(pos);
    assert(pos != 0);
    assert(t[0] == stack[0]);
    assert forall|p: int| #![trigger fio[p]] base <= p < fio.len() implies later_parent(fio, g, p) || stack_parent(fio, t, g, p) by {
        if !later_parent(fio, g, p) {
            assert(stack_parent(fio, stack, g, p));
            let q = choose|q: int| 0 <= q < stack.len() && (#[trigger] stack[q]).visited && g(stack[q].index as int, fio[p].index as int);
            assert(q != pos);
            if q < pos { assert(t[q] == stack[q]); } else { assert(t[q - 1] == stack[q]); }
        }
    }
}
proof fn scope_visit(fio: Seq<Frame>, base: int, stack: Seq<Frame>, cur: int, nrev: int, start: int, g: spec_fn(int, int) -> bool, fv: Frame)
    requires scope_inv(fio, base, stack, cur, nrev, start, g), cur >= 0, fv.index == cur, fv.visited
    ensures scope_inv(fio, base, stack.push(fv), -1, nrev, start, g)
{
    reveal(scope_inv);
    let s2 = stack.push(fv);
    if stack.len() > 0 { assert(s2[0] == stack[0]); } else { assert(s2[0] == fv); }
    assert forall|p: int| #![trigger fio[p]] base <= p < fio.len() implies later_parent(fio, g, p) || stack_parent(fio, s2, g, p) by {
        let fp = fio[p];
        if !later_parent(fio, g, p) {
            assert(stack_parent(fio, stack, g, p));
            let q = choose|q: int| 0 <= q < stack.len() && (#[trigger] stack[q]).visited && g(stack[q].index as int, fio[p].index as int);
            assert(s2[q] == stack[q]);
        }
    }
}
proof fn scope_unrev(fio: Seq<Frame>, base: int, stack: Seq<Frame>, nrev: int, start: int, g: spec_fn(int, int) -> bool, f: Frame)
    requires scope_inv(fio, base, stack, -1, nrev, start, g), nrev > 0, stack.len() > 0
    ensures scope_inv(fio, base, stack.push(f), -1, nrev - 1, start, g)
{
    reveal(scope_inv);
    let s2 = stack.push(f);
    assert(s2[0] == stack[0]);
    assert forall|p: int| #![trigger fio[p]] base <= p < fio.len() implies later_parent(fio, g, p) || stack_parent(fio, s2, g, p) by {
        let fp = fio[p];
        if !later_parent(fio, g, p) {
            assert(stack_parent(fio, stack, g, p));
            let q = choose|q: int| 0 <= q < stack.len() && (#[trigger] stack[q]).visited && g(stack[q].index as int, fio[p].index as int);
            assert(s2[q] == stack[q]);
        }
    }
}
// every rule-to-rule edge of the plan points to an EARLIER node, and at one of that node's targets
spec fn edges_back(nodes: Seq<Node>) -> bool {
    forall|i: int, k: int| 0 <= i < nodes.len() && 0 <= k < nodes[i].source_indices@.len() ==>
        (#[trigger] nodes[i].source_indices@[k] matches SourceIndex::Pair(p, sub) ==> p < i && sub < nodes[p as int].targets@.len())
}
spec fn leaf_edges_ok(nodes: Seq<Node>, n_leaves: int) -> bool {
    forall|i: int, k: int| 0 <= i < nodes.len() && 0 <= k < nodes[i].source_indices@.len() ==> (#[trigger] nodes[i].source_indices@[k] matches SourceIndex::Leaf(l) ==> l < n_leaves)
}
// what the build relies on (ChannelPack::new's precondition, acyclic waiting, get_ticket(sub) in bounds)
spec fn plan_ok(pack: NodePack) -> bool { edges_back(pack.nodes@) && leaf_edges_ok(pack.nodes@, pack.leaves@.len() as int) }
proof fn plan_order(nodes: Seq<Node>, fio: Seq<Frame>, leaves: Seq<String>, m: Map<String, (usize, usize)>, fb: Seq<FrameBufferValue>, tl: Seq<int>)
    requires rest_ok(fb, fio, m, tl), nodes.len() == fio.len(), forall|i: int| 0 <= i < nodes.len() ==> node_of(#[trigger] nodes[i], fio[i], leaves, m, fb),
        forall|key: String| #![trigger m[key]] m.contains_key(key) ==> m[key].0 < tl.len() && m[key].1 < tl[m[key].0 as int],
    ensures edges_back(nodes), leaf_edges_ok(nodes, leaves.len() as int)
{
    reveal(rest_ok);
    assert forall|i: int, k: int| 0 <= i < nodes.len() && 0 <= k < nodes[i].source_indices@.len() implies (#[trigger] nodes[i].source_indices@[k] matches SourceIndex::Leaf(l) ==> l < leaves.len()) by {
        assert(node_of(nodes[i], fio[i], leaves, m, fb)); assert(src_bound(nodes[i].source_indices@[k], fio[i].sources@[k], leaves, m, fb));
    }
    assert forall|i: int, k: int| 0 <= i < nodes.len() && 0 <= k < nodes[i].source_indices@.len() implies
        (#[trigger] nodes[i].source_indices@[k] matches SourceIndex::Pair(p, sub) ==> p < i && sub < nodes[p as int].targets@.len()) by {
        if let SourceIndex::Pair(p, sub) = nodes[i].source_indices@[k] {
            assert(node_of(nodes[i], fio[i], leaves, m, fb));
            let src = fio[i].sources@[k];
            assert(src_bound(nodes[i].source_indices@[k], src, leaves, m, fb));
            let b = m[src].0 as int;
            assert(dep_upto(fio[i], m, b, fio[i].sources@.len() as int));
            assert(dep(fio[i], m, b));
            assert(emitted(fb, fio, b) && fb[b].final_index < i);
            assert(fok(fio[p as int], tl));
            assert(node_of(nodes[p as int], fio[p as int], leaves, m, fb));
        }
    }
}
// node i feeds a later node: some later node has a source bound to (i, some target of i)
spec fn feeds_later(nodes: Seq<Node>, i: int) -> bool {
    exists|j: int, k: int| i < j < nodes.len() && 0 <= k < nodes[j].source_indices@.len() && (#[trigger] nodes[j].source_indices@[k] matches SourceIndex::Pair(p, _) && p == i)
}
// every node but the last feeds a later node: by induction every node is something the LAST node needs -- nothing out of scope is in the plan
spec fn scoped(nodes: Seq<Node>) -> bool { forall|i: int| 0 <= i < nodes.len() - 1 ==> #[trigger] feeds_later(nodes, i) }
proof fn plan_scope(nodes: Seq<Node>, fio: Seq<Frame>, leaves: Seq<String>, m: Map<String, (usize, usize)>, fb: Seq<FrameBufferValue>, tl: Seq<int>, ft: Seq<Frame>, start: int)
    requires rest_ok(fb, fio, m, tl), nodes.len() == fio.len(), forall|i: int| 0 <= i < nodes.len() ==> node_of(#[trigger] nodes[i], fio[i], leaves, m, fb),
        all_in_g(fio, ft), scope_done(fio, 0, start, gf(ft, m)), 0 <= start < ft.len(),
        forall|x: String| leaves.contains(x) ==> !(#[trigger] m.contains_key(x)),
    ensures scoped(nodes), nodes.len() > 0 ==> nodes.last().targets == ft[start].targets,
{
    reveal(rest_ok);
    let g = gf(ft, m);
    assert forall|i: int| 0 <= i < nodes.len() - 1 implies #[trigger] feeds_later(nodes, i) by {
        let fi = fio[i];
        assert(later_parent(fio, g, i));
        let j = choose|p2: int| i < p2 < fio.len() && g((#[trigger] fio[p2]).index as int, fio[i].index as int);
        let b = fio[i].index as int;
        assert(in_g(fio[j], ft));
        dep_same(ft[fio[j].index as int], fio[j], m, b);
        assert(dep_upto(fio[j], m, b, fio[j].sources@.len() as int));
        let k = choose|k: int| 0 <= k < fio[j].sources@.len() && k < fio[j].sources@.len() && m.contains_key(#[trigger] fio[j].sources@[k]) && m[fio[j].sources@[k]].0 == b;
        let key = fio[j].sources@[k];
        assert(node_of(nodes[j], fio[j], leaves, m, fb));
        assert(src_bound(nodes[j].source_indices@[k], key, leaves, m, fb));
        match nodes[j].source_indices@[k] {
            SourceIndex::Leaf(l) => { assert(leaves[l as int] == key); assert(leaves.contains(key)); assert(false); },
            SourceIndex::Pair(pp, sub) => {
                assert(fok(fio[i], tl)); assert(fb[b].final_index == i); assert(pp == i);
                assert(i < j < nodes.len() && 0 <= k < nodes[j].source_indices@.len());
                assert(nodes[j].source_indices@[k] matches SourceIndex::Pair(p, _) && p == i);
                assert(feeds_later(nodes, i));
            },
        }
    }
    if nodes.len() > 0 { let l = nodes.len() - 1; assert(node_of(nodes[l], fio[l], leaves, m, fb)); assert(in_g(fio[l], ft)); }
}
impl TopologicalSortMachine {
    // every emitted frame knows where each of its sources comes from (needed by get_result's unwrap)
    spec fn wf_e(&self) -> bool {
        &&& all_known(self.frames_in_order@, self.to_buffer_index@, self.source_leaves@, false)
        &&& forall|x: String| self.source_leaves@.contains(x) ==> !(#[trigger] self.to_buffer_index@.contains_key(x))      // a recorded leaf is no rule's target
    }
    // every frame still in the table is a node of the graph g (its dependencies are edges of g)
    spec fn wf_g(&self, ft: Seq<Frame>) -> bool {
        &&& forall|b: int| 0 <= b < self.frame_buffer@.len() ==> ((#[trigger] self.frame_buffer@[b]).opt_frame matches Some(f) ==> in_g(f, ft))
        &&& all_in_g(self.frames_in_order@, ft)
    }
    // between calls: the emitted list is in dependency order and every rule taken from the table is in it
    spec fn wf_o(&self, tl: Seq<int>) -> bool { rest_ok(self.frame_buffer@, self.frames_in_order@, self.to_buffer_index@, tl) }
    // machine well-formedness, safety part: buffered frames sit at their own index with at least one target; the target index
    // only mentions existing (rule, position) pairs
    spec fn wf_s(&self, tl: Seq<int>) -> bool {
        &&& self.frame_buffer@.len() == tl.len()
        &&& forall|b: int| 0 <= b < tl.len() ==> ((#[trigger] self.frame_buffer@[b]).opt_frame matches Some(f) ==> f.index == b && f.sub_index == 0 && !f.visited && fok(f, tl))
        &&& forall|key: String| #![trigger self.to_buffer_index@[key]] self.to_buffer_index@.contains_key(key) ==> self.to_buffer_index@[key].0 < tl.len() && self.to_buffer_index@[key].1 < tl[self.to_buffer_index@[key].0 as int]
    }

//@ extract sort.rs impl /^TopologicalSortMachine$/ fn sort_once
//@ props C12 C05
//@ ret res
//@ rewrite 1 /HashSet::new\(\)/ => HashSet::<usize>::new()
//@ rewrite 1 /stack\.iter\(\)\.position\(\|f\| f\.index == \*buffer_index && !f\.visited\)/ => position_unvisited(&stack, *buffer_index)
//@ rewrite 1 /source\.to_owned\(\)/ => string_to_owned(source)
//@ retype 1 /let mut reverser = vec!\[\];/ => let mut reverser : Vec<Frame> = Vec::new();
//@ retype 1 /let mut target_cycle = vec!\[\];/ => let mut target_cycle : Vec<String> = Vec::new();
//@ param Ghost(tl): Ghost<Seq<int>>, Ghost(ft): Ghost<Seq<Frame>>
//@ spec
        requires old(self).wf_s(tl), old(self).wf_e(), old(self).wf_o(tl), old(self).wf_g(ft), ft.len() == tl.len(), index < tl.len(), sub_index < tl[index as int],
        ensures final(self).wf_s(tl),                                                     //# O-S-machine-wf [C12,C05]
            res is Ok ==> final(self).wf_e(),                                             //# O-S-sources-known [C12,C05]
            // a rule is emitted only after every rule it depends on: the emitted list stays in dependency order             //# O-S-order [C12,C03,C05]
            res is Ok ==> final(self).wf_o(tl),
            // an error is reported only for a REAL cycle of the rule graph (a rule depending on itself is a cycle of length one):
            // acyclic rule sets are never rejected                                                                          //# O-S-cycle-real [C12]
            res matches Err(e) ==> (e is CircularDependence || e is SelfDependentRule) && cyclic(gf(ft, old(self).to_buffer_index@), tl.len() as int),
            final(self).wf_g(ft),
            // scope: every rule this call emitted, except the last, is needed by a rule it emitted later; the last is the start rule     //# O-S-scope [C09,C12]
            res is Ok ==> scope_done(final(self).frames_in_order@, old(self).frames_in_order@.len() as int, index as int, gf(ft, old(self).to_buffer_index@)),
            res is Ok ==> final(self).frame_buffer@[index as int].opt_frame is None,
            final(self).to_buffer_index@ == old(self).to_buffer_index@,
//@ hint start
        broadcast use vstd::std_specs::hash::group_hash_axioms;
        proof { string_key_model(); usize_key_model(); }
        let ghost m = self.to_buffer_index@; let ghost fbs = self.frame_buffer@; let ghost fios = self.frames_in_order@; let ghost n = tl.len() as int; let ghost g = gf(ft, m); let ghost base = self.frames_in_order@.len() as int; let ghost start = index as int;
//@ hint before 1/1 /return Ok\(\(\)\);/
                proof { assert(self.frame_buffer@ =~= fbs); scope_none(fios, start, g); }
//@ hint after 1/1 /let mut stack = vec!\[starting_frame\];/
        proof {
            let e = Seq::<Frame>::empty();
            dfs_start(fbs, fios, m, tl);
            assert(self.frame_buffer@ =~= fbs.update(index as int, slot_none(fbs[index as int])));
            dfs_take(fbs, fios, m, tl, e, e, -1, Set::empty(), index as int, stack@[0], self.frame_buffer@);
            assert(e.push(stack@[0]).drop_last() =~= e);
            dfs_unrev(self.frame_buffer@, fios, m, tl, e, e.push(stack@[0]), Set::empty(), stack@[0]);
            assert(stack@ =~= e.push(stack@[0]));
            assert(indices_in_stack@ =~= Set::<usize>::empty().insert(index));
            par_first(stack@[0], g); scope_first(fios, stack@[0], g);
            in_g_same(fbs[index as int].opt_frame->Some_0, stack@[0], ft);
        }
        let ghost mut gst = stack@;      // the stack as it was at the loop head (a `while let .. pop()` leaves no name for it)
//@ hint before 2/2 /Ok\(\(\)\)/
        proof { dfs_finish(self.frame_buffer@, self.frames_in_order@, m, tl, stack@, indices_in_stack@); scope_finish(self.frames_in_order@, base, stack@, start, g); }
//@ loop 1 invariant
            invariant self.wf_s(tl), all_fok(stack@, tl), obeys_key_model::<String>(), obeys_key_model::<usize>(),
                self.wf_e(), all_known(stack@, self.to_buffer_index@, self.source_leaves@, true), self.to_buffer_index@ == old(self).to_buffer_index@,
                m == self.to_buffer_index@, dfs_inv(self.frame_buffer@, self.frames_in_order@, m, tl, stack@, Seq::empty(), -1, indices_in_stack@), gst == stack@,
                n == tl.len(), n == ft.len(), g == gf(ft, m), self.frame_buffer@[index as int].opt_frame is None, self.wf_g(ft), all_in_g(stack@, ft), par_inv(stack@, Seq::empty(), -1, g),
                scope_inv(self.frames_in_order@, base, stack@, -1, 0, start, g),
            ensures stack@.len() == 0,
            decreases count_some(self.frame_buffer@) + count_unv(stack@), stack@.len(),
//@ hint after 1/1 /while let Some\(frame\) = stack\.pop\(\)\s*\{/
            let ghost fb0 = self.frame_buffer@; let ghost st0 = stack@;     // (stack already popped: st0 is the rest)
            let ghost m0 = count_some(fb0) + count_unv(st0) + unv(frame);
            proof { count_unv_nonneg(st0); count_some_nonneg(fb0); assert(st0.push(frame).drop_last() =~= st0); }
            let ghost stk0 = gst; let ghost is0 = indices_in_stack@; let ghost fio0 = self.frames_in_order@; let ghost fr_cur = frame; let ghost cur = frame.index as int;
//@ hint after 1/1 /self\.frame_buffer\[frame\.index\]\.final_index = self\.frames_in_order\.len\(\);/
                proof { count_some_update(fb0, frame.index as int, self.frame_buffer@[frame.index as int]); assert(self.frame_buffer@ =~= fb0.update(frame.index as int, self.frame_buffer@[frame.index as int])); }
//@ hint after 1/1 /self\.frames_in_order\.push\(frame\);/
                proof {
                    dfs_emit(fb0, fio0, m, tl, stk0, is0, fr_cur, self.frame_buffer@[fr_cur.index as int], self.frame_buffer@);
                    assert(stk0.drop_last() =~= stack@);
                    scope_emit(fio0, base, stk0, start, g);
                    par_emit(stk0, g);
                    gst = stack@;
                }
//@ hint after 1/1 /let mut reverser = vec!\[\];/
                proof { dfs_pop(fb0, fio0, m, tl, stk0, is0, fr_cur); assert(stk0.drop_last() =~= stack@); par_pop(stk0, g); scope_pop(fio0, base, stk0, start, g); }
                let ghost mut grv = reverser@;      // the reverser as it was at the head of the loop that empties it
//@ hint before 1/1 /while let Some\(f\) = reverser\.pop\(\)/
                proof { grv = reverser@; }
//@ loop 2 binder it
//@ loop 2 invariant
                    invariant self.wf_s(tl), all_fok(stack@, tl), all_fok(reverser@, tl), fok(frame, tl), obeys_key_model::<String>(), obeys_key_model::<usize>(),
                        all_unv(reverser@), !frame.visited,
                        self.wf_e(), all_known(stack@, self.to_buffer_index@, self.source_leaves@, true), self.to_buffer_index@ == old(self).to_buffer_index@,
                        srcs_known(frame, self.to_buffer_index@, self.source_leaves@, it.index@),
                        count_some(self.frame_buffer@) + count_unv(stack@) + reverser@.len() == m0 - 1,
                        m == self.to_buffer_index@, fr_cur == frame, cur == frame.index,
                        dfs_inv(self.frame_buffer@, self.frames_in_order@, m, tl, stack@, reverser@, cur, indices_in_stack@),
                        srcs_placed(frame, m, it.index@, self.frame_buffer@, self.frames_in_order@, reverser@),
                        n == tl.len(), n == ft.len(), g == gf(ft, m), self.frame_buffer@[index as int].opt_frame is None, self.wf_g(ft), all_in_g(stack@, ft), all_in_g(reverser@, ft), in_g(frame, ft), par_inv(stack@, reverser@, cur, g),
                        scope_inv(self.frames_in_order@, base, stack@, cur, reverser@.len() as int, start, g),
//@ loop 3 binder it3
//@ loop 3 invariant
                                                invariant all_fok(stack@, tl), fok(frame, tl), cyclic(g, n), n == tl.len(), g == gf(ft, m),
//@ loop 4 invariant
                    invariant self.wf_s(tl), all_fok(stack@, tl), all_fok(reverser@, tl), obeys_key_model::<usize>(),
                        all_unv(reverser@),
                        self.wf_e(), all_known(stack@, self.to_buffer_index@, self.source_leaves@, true), self.to_buffer_index@ == old(self).to_buffer_index@,
                        count_some(self.frame_buffer@) + count_unv(stack@) + reverser@.len() == m0 - 1,
                        dfs_inv(self.frame_buffer@, self.frames_in_order@, m, tl, stack@, reverser@, -1, indices_in_stack@), grv == reverser@,
                        n == tl.len(), n == ft.len(), g == gf(ft, m), self.frame_buffer@[index as int].opt_frame is None, self.wf_g(ft), all_in_g(stack@, ft), all_in_g(reverser@, ft), par_inv(stack@, reverser@, -1, g),
                        scope_inv(self.frames_in_order@, base, stack@, -1, reverser@.len() as int, start, g), stack@.len() > 0,
                    ensures reverser@.len() == 0,
                    decreases reverser@.len(),
//@ hint before 1/1 /return Err\(TopologicalSortError::SelfDependentRule\(/
                                    proof { self_cycle(g, n, cur); }
//@ hint before 1/1 /let mut target_cycle = vec!\[\];/
                                            proof {
                                                dfs_on_stack(fb1, fio1, m, tl, st1, rv1, cur, is1, *buffer_index);
                                                let q = choose|q: int| 0 <= q < st1.len() && (#[trigger] st1[q]).index == b1;
                                                assert(st1[q].visited);
                                                assert forall|p: int| 0 <= p < st1.len() implies (#[trigger] st1[p]).index < n by { assert(in_g(st1[p], ft)); }
                                                cycle_found(st1, rv1, cur, g, n, q);
                                            }
//@ hint before 1/1 /if let Some\(mut frame\) = self\.frame_buffer\[\*buffer_index\]\.opt_frame\.take\(\)/
                            let ghost fb1 = self.frame_buffer@; let ghost rv1 = reverser@; let ghost st1 = stack@; let ghost is1 = indices_in_stack@; let ghost fio1 = self.frames_in_order@;
                            let ghost k1 = it.index@; let ghost b1 = *buffer_index as int;
                            proof { assert(m.contains_key(*source) && m[*source].0 == *buffer_index); assert(fr_cur.sources@[k1] == *source); dep_intro(fr_cur, m, k1, b1); g_edge(fr_cur, ft, m, b1); assert(g(cur, b1)); }
//@ hint after 1/1 /frame\.sub_index = \*sub_index;\s*reverser\.push\(frame\);/
                                proof {
                                    assert(self.frame_buffer@ =~= fb1.update(*buffer_index as int, self.frame_buffer@[*buffer_index as int]));
                                    count_some_update(fb1, *buffer_index as int, self.frame_buffer@[*buffer_index as int]);
                                    assert(self.frame_buffer@ =~= fb1.update(b1, slot_none(fb1[b1])));
                                    dfs_take(fb1, fio1, m, tl, st1, rv1, cur, is1, b1, reverser@.last(), self.frame_buffer@);
                                    assert(reverser@ =~= rv1.push(reverser@.last()));
                                    placed_step(fr_cur, m, k1, fb1, fio1, rv1, self.frame_buffer@, reverser@);
                                    par_take(st1, rv1, cur, g, reverser@.last());
                                    scope_nrev(fio1, base, st1, cur, rv1.len() as int, rv1.len() as int + 1, start, g);
                                    in_g_same(fb1[b1].opt_frame->Some_0, reverser@.last(), ft);
                                }
//@ hint after 1/1 /sibling\.sub_index = \*sub_index;\s*reverser\.push\(sibling\);/
                                            proof {
                                                count_unv_remove(st1, position as int); assert(self.frame_buffer@ =~= fb1);
                                                dfs_sibling(fb1, fio1, m, tl, st1, rv1, cur, is1, position as int, reverser@.last());
                                                assert(reverser@ =~= rv1.push(reverser@.last()));
                                                placed_step(fr_cur, m, k1, fb1, fio1, rv1, fb1, reverser@);
                                                par_sibling(st1, rv1, cur, g, position as int, reverser@.last());
                                                scope_sibling(fio1, base, st1, cur, rv1.len() as int, start, g, position as int);
                                                in_g_same(st1[position as int], reverser@.last(), ft);
                                            }
//@ hint before 1/1 /self\.source_leaves\.insert\(/
                            let ghost lv0 = self.source_leaves@;
//@ hint after 1/1 /self\.source_leaves\.insert\(source\.to_owned\(\)\);/
                            proof {
                                known_mono(self.frames_in_order@, self.to_buffer_index@, lv0, self.source_leaves@, false);
                                known_mono(stack@, self.to_buffer_index@, lv0, self.source_leaves@, true);
                                assert(srcs_known(frame, self.to_buffer_index@, lv0, it.index@));
                                assert(fr_cur.sources@[it.index@] == *source);
                                placed_step(fr_cur, m, it.index@, self.frame_buffer@, self.frames_in_order@, reverser@, self.frame_buffer@, reverser@);
                            }
//@ hint before 1/1 /\},\s*None =>\s*\{\s*self\.source_leaves\.insert/
                            proof {
                                if reverser@.len() == rv1.len() {
                                    assert(self.frame_buffer@ =~= fb1);
                                    dfs_elsewhere(fb1, fio1, m, tl, st1, rv1, cur, is1, b1);
                                    placed_step(fr_cur, m, k1, fb1, fio1, rv1, fb1, rv1);
                                }
                            }
//@ hint after 1/1 /stack\.push\(frame\.visit\(\)\);/
                proof { count_unv_push(st_before_visit, stack@.last()); }
//@ hint after 1/1 /indices_in_stack\.insert\(frame_index\);/
                proof {
                    placed_same_sources(fr_cur, stack@.last(), m, fr_cur.sources@.len() as int, self.frame_buffer@, self.frames_in_order@, reverser@);
                    dfs_visit(self.frame_buffer@, self.frames_in_order@, m, tl, st_before_visit, reverser@, cur, is_before_visit, stack@.last());
                    assert(stack@ =~= st_before_visit.push(stack@.last()));
                    par_visit(st_before_visit, reverser@, cur, g, stack@.last());
                    scope_visit(self.frames_in_order@, base, st_before_visit, cur, reverser@.len() as int, start, g, stack@.last());
                    in_g_same(fr_cur, stack@.last(), ft);
                }
//@ hint before 1/1 /stack\.push\(frame\.visit\(\)\);/
                let ghost st_before_visit = stack@; let ghost is_before_visit = indices_in_stack@;
//@ hint after 1/1 /while let Some\(f\) = reverser\.pop\(\)\s*\{/
                    let ghost st4 = stack@; let ghost rv4 = grv; let ghost is4 = indices_in_stack@; let ghost fg = f;
                    proof { assert(rv4.drop_last() =~= reverser@); }
//@ hint after 1/1 /indices_in_stack\.insert\(f\.index\);\s*stack\.push\(f\);/
                    proof { count_unv_push(st4, fg); dfs_unrev(self.frame_buffer@, self.frames_in_order@, m, tl, st4, rv4, is4, fg); assert(stack@ =~= st4.push(fg)); par_unrev(st4, rv4, g); scope_unrev(self.frames_in_order@, base, st4, rv4.len() as int, start, g, fg); grv = reverser@; }
//@ hint after 1/1 /indices_in_stack\.insert\(f\.index\);\s*stack\.push\(f\);\s*\}/
                proof { assert(reverser@ =~= Seq::<Frame>::empty()); gst = stack@; }
//@ end

//@ extract sort.rs impl /^TopologicalSortMachine$/ fn new
//@ props C12 C05
//@ ret res
//@ rewrite 1 /BTreeSet::new\(\)/ => BTreeSet::<String>::new()
//@ spec
        ensures res.frame_buffer == frame_buffer, res.to_buffer_index == to_buffer_index, res.frames_in_order@.len() == 0, res.source_leaves@ == Set::<String>::empty(),
//@ end

//@ extract sort.rs impl /^TopologicalSortMachine$/ fn get_result
//@ props C12 C05 C01
//@ attr #[verifier::loop_isolation(false)]
//@ ret res
//@ param Ghost(tl): Ghost<Seq<int>>, Ghost(ft): Ghost<Seq<Frame>>, Ghost(start): Ghost<int>
//@ insert before 1/1 /for leaf in self\.source_leaves/ => let leaf_vec = btree_into_vec(self.source_leaves);
//@ rewrite 1 /(?<=for leaf in )self\.source_leaves/ => leaf_vec
//@ rewrite 1 /self\.frames_in_order\.drain\(\.\.\)/ => self.frames_in_order
//@ rewrite 1 /frame\.sources\.drain\(\.\.\)/ => frame.sources
//@ rewrite 1 /get_result\(mut self/ => get_result(self
//@ retype 1 /let mut num_leaves = 0;/ => let mut num_leaves : usize = 0;
//@ retype 1 /let mut nodes = Vec::new\(\);/ => let mut nodes : Vec<Node> = Vec::new();
//@ retype 1 /let mut leaves = Vec::new\(\);/ => let mut leaves : Vec<String> = Vec::new();
//@ retype 1 /let mut leaf_to_index = HashMap::new\(\);/ => let mut leaf_to_index : HashMap<String, usize> = HashMap::new();
//@ retype 1 /let mut source_indices = vec!\[\];/ => let mut source_indices : Vec<SourceIndex> = Vec::new();
//@ spec
        requires self.wf_s(tl), self.wf_e(), self.wf_o(tl), self.wf_g(ft),
        ensures
            // scope: when the emitted list is the work of ONE traversal from `start`, every node but the last feeds a later node and the
            // last node is the start rule -- so the plan holds nothing but the start rule and what it needs                          //# O-S-plan-scope [C09,C12]
            res matches Ok(pack) ==> ((scope_done(self.frames_in_order@, 0, start, gf(ft, self.to_buffer_index@)) && 0 <= start < ft.len()) ==> scoped(pack.nodes@) && (pack.nodes@.len() > 0 ==> pack.nodes@.last().targets == ft[start].targets)),
            // dependency order: every rule-to-rule edge points to an earlier node and to one of its targets (so the plan is acyclic,
            // a rule's thread only waits for threads before it, and get_ticket(sub) is in bounds)                                     //# O-S-plan-order [C12,C03,C05]
            res matches Ok(pack) ==> plan_ok(pack),
            // never fails, never panics: every source of every emitted rule is a recorded leaf or an indexed target (the unwrap)      //# O-S-result-total [C05,C12]
            res matches Ok(pack) ==> pack.nodes@.len() == self.frames_in_order@.len()
                // leaves: exactly the recorded leaf paths, each once
                && (forall|x: String| self.source_leaves@.contains(x) <==> #[trigger] pack.leaves@.contains(x)) && pack.leaves@.no_duplicates()
                // node i is emitted frame i with every source bound by name: to the leaf of that name, or to (final position of the
                // rule owning that target, position of the target in that rule)                                                          //# O-S-binding [C12,C01,C02]
                && (forall|i: int| 0 <= i < pack.nodes@.len() ==> node_of(#[trigger] pack.nodes@[i], self.frames_in_order@[i], pack.leaves@, self.to_buffer_index@, self.frame_buffer@)),
            res is Ok,
//@ hint start
        broadcast use vstd::std_specs::hash::group_hash_axioms;
        proof { string_key_model(); }
        let ghost m = self.to_buffer_index@; let ghost fb = self.frame_buffer@; let ghost leafset = self.source_leaves@; let ghost fio = self.frames_in_order@;
//@ loop 1 binder it
//@ loop 1 invariant
            invariant num_leaves == it.index@, leaves@ =~= leaf_vec@.subrange(0, it.index@),
                forall|x: String| #![trigger leaf_to_index@.contains_key(x)] leaf_to_index@.contains_key(x) ==> leaf_to_index@[x] < it.index@ && leaf_vec@[leaf_to_index@[x] as int] == x,
                forall|j: int| 0 <= j < it.index@ ==> leaf_to_index@.contains_key(#[trigger] leaf_vec@[j]),
//@ hint after 1/1 /num_leaves \+= 1;/
            proof { assert(leaves@ =~= leaf_vec@.subrange(0, it.index@ + 1)); }
//@ hint before 1/1 /for mut frame in self\.frames_in_order\.drain\(\.\.\)/
        proof { assert(leaves@ =~= leaf_vec@); }
//@ loop 2 binder it2
//@ loop 2 invariant
            invariant nodes@.len() == it2.index@,
                forall|i: int| 0 <= i < it2.index@ ==> node_of(#[trigger] nodes@[i], fio[i], leaves@, m, fb),
//@ hint after 1/1 /let mut source_indices = vec!\[\];/
            let ghost fr0 = frame;
            proof { assert(fr0 == fio[it2.index@]); assert(srcs_known(fr0, m, leafset, fr0.sources@.len() as int)); }
//@ hint before 1/1 /Ok\(NodePack::new\(leaves, nodes\)\)/
        proof {
            plan_order(nodes@, fio, leaves@, m, fb, tl);
            if scope_done(fio, 0, start, gf(ft, m)) && 0 <= start < ft.len() {
                assert forall|x: String| leaves@.contains(x) implies !(#[trigger] m.contains_key(x)) by { assert(leaf_vec@.contains(x)); assert(leafset.contains(x)); }
                plan_scope(nodes@, fio, leaves@, m, fb, tl, ft, start);
            }
        }
//@ loop 3 binder it3
//@ loop 3 invariant
                invariant source_indices@.len() == it3.index@,
                    forall|k: int| 0 <= k < it3.index@ ==> src_bound(#[trigger] source_indices@[k], fr0.sources@[k], leaves@, m, fb),
//@ hint before 1/1 /match leaf_to_index\.get\(&source\)/
                proof {
                    assert(source == fr0.sources@[it3.index@]);
                    if !leaf_to_index@.contains_key(source) {
                        if leafset.contains(source) { assert(leaf_vec@.contains(source)); let j = choose|j: int| 0 <= j < leaf_vec@.len() && leaf_vec@[j] == source; assert(leaf_to_index@.contains_key(leaf_vec@[j])); }
                    }
                }
//@ end
}


spec fn some_target(tab: Seq<RuleSpec>, t: Seq<char>) -> bool { exists|b: int, s: int| #![trigger is_target(tab, b, s, t)] is_target(tab, b, s, t) }

// number of targets per sorted rule
spec fn tcounts(tab: Seq<RuleSpec>) -> Seq<int> { Seq::new(tab.len(), |b: int| tab[b].targets.len() as int) }
// parser-producible rule sets: every rule has at least one target
spec fn nonempty_targets(rs: Seq<Rule>) -> bool { forall|i: int| 0 <= i < rs.len() ==> (#[trigger] rs[i]).targets@.len() > 0 }
proof fn sorted_nonempty(rs: Seq<RuleSpec>, b: int)
    requires forall|i: int| 0 <= i < rs.len() ==> (#[trigger] rs[i]).targets.len() > 0, 0 <= b < sort_rules_spec(rs).len()
    ensures sort_rules_spec(rs)[b].targets.len() > 0
{
    sort_rules_axioms(rs);
    let x = sort_rules_spec(rs)[b];
    sort_rules_spec(rs).to_multiset_ensures(); rs.to_multiset_ensures();
    assert(sort_rules_spec(rs).to_multiset().count(x) > 0);
    assert(rs.contains(x));
    let j = choose|j: int| 0 <= j < rs.len() && rs[j] == x;
    assert(rs[j].targets.len() > 0);
}
// the frame table handed to the machine is well formed for the machine
proof fn table_wf(fb: Seq<FrameBufferValue>, m: Map<String, (usize, usize)>, tab: Seq<RuleSpec>)
    requires fb.len() == tab.len(), forall|b: int| 0 <= b < tab.len() ==> slot_ok(#[trigger] fb[b], tab[b], b), index_ok(m, tab, tab.len() as int),
        forall|b: int| 0 <= b < tab.len() ==> (#[trigger] tab[b]).targets.len() > 0,
    ensures
        forall|b: int| 0 <= b < tab.len() ==> ((#[trigger] fb[b]).opt_frame matches Some(f) ==> f.index == b && f.sub_index == 0 && !f.visited && fok(f, tcounts(tab))),
        forall|key: String| #![trigger m[key]] m.contains_key(key) ==> m[key].0 < tcounts(tab).len() && m[key].1 < tcounts(tab)[m[key].0 as int],
{
    assert forall|b: int| 0 <= b < tab.len() implies ((#[trigger] fb[b]).opt_frame matches Some(f) ==> f.index == b && f.sub_index == 0 && !f.visited && fok(f, tcounts(tab))) by {
        assert(slot_ok(fb[b], tab[b], b)); sort_axioms(tab[b].targets);
        let f = fb[b].opt_frame->Some_0;
        assert(strs(f.targets@).len() == f.targets@.len());
    }
    assert forall|key: String| #![trigger m[key]] m.contains_key(key) implies m[key].0 < tcounts(tab).len() && m[key].1 < tcounts(tab)[m[key].0 as int] by {
        assert(is_target(tab, m[key].0 as int, m[key].1 as int, key@));
    }
}

// the frames of the fresh table, by rule number
spec fn table_frames(fb: Seq<FrameBufferValue>) -> Seq<Frame> { Seq::new(fb.len(), |a: int| fb[a].opt_frame->Some_0) }
// the graph of the table's frames is (a sub-graph of) the table's rule graph
proof fn table_in_g(fb: Seq<FrameBufferValue>, m: Map<String, (usize, usize)>, tab: Seq<RuleSpec>)
    requires fb.len() == tab.len(), forall|b: int| 0 <= b < tab.len() ==> slot_ok(#[trigger] fb[b], tab[b], b), index_ok(m, tab, tab.len() as int),
    ensures forall|b: int| 0 <= b < fb.len() ==> ((#[trigger] fb[b]).opt_frame matches Some(f) ==> in_g(f, table_frames(fb))),
        forall|a: int, b: int| #[trigger] gf(table_frames(fb), m)(a, b) ==> g_tab(tab)(a, b),
{
    let ft = table_frames(fb);
    assert forall|a: int| 0 <= a < fb.len() implies ((#[trigger] fb[a]).opt_frame matches Some(f) ==> in_g(f, ft)) by { assert(slot_ok(fb[a], tab[a], a)); }
    assert forall|a: int, b: int| #[trigger] gf(ft, m)(a, b) implies g_tab(tab)(a, b) by {
        assert(slot_ok(fb[a], tab[a], a));
        let f = ft[a];
        sort_axioms(tab[a].sources);
        assert(dep_upto(f, m, b, f.sources@.len() as int));
        let j = choose|j: int| 0 <= j < f.sources@.len() && j < f.sources@.len() && m.contains_key(#[trigger] f.sources@[j]) && m[f.sources@[j]].0 == b;
        let key = f.sources@[j];
        assert(is_target(tab, m[key].0 as int, m[key].1 as int, key@));
        assert(strs(f.sources@)[j] == key@);
        assert(strs(f.sources@).len() == f.sources@.len());
        assert(is_target(tab, b, m[key].1 as int, sort_spec(tab[a].sources)[j]));
        assert(edge_t(tab, a, b));
    }
}
// a cycle of a sub-graph is a cycle of the graph
proof fn cyclic_mono(g1: spec_fn(int, int) -> bool, g2: spec_fn(int, int) -> bool, n: int)
    requires cyclic(g1, n), forall|a: int, b: int| #[trigger] g1(a, b) ==> g2(a, b) ensures cyclic(g2, n)
{
    let (a, b) = choose|a: int, b: int| #[trigger] reach(g1, n, a, b) && g1(b, a);
    let p = choose|p: Seq<int>| #[trigger] is_path(g1, n, p) && p[0] == a && p.last() == b;
    assert(is_path(g2, n, p)) by { assert forall|i: int| #![trigger p[i]] 0 <= i < p.len() - 1 implies g2(p[i], p[i + 1]) by { assert(g1(p[i], p[i + 1])); } }
    assert(reach(g2, n, a, b)); assert(g2(b, a));
}

//@ extract sort.rs fn topological_sort
//@ props C12 C05 C01
//@ ret res
//@ rewrite 1 /to_buffer_index\.get\(goal_target\)/ => map_get_str(&to_buffer_index, goal_target)
//@ addarg * /machine\.sort_once/ Ghost(tl), Ghost(ft)
//@ addarg * /machine\.get_result/ Ghost(tl), Ghost(ft), Ghost(gstart)
//@ spec
    requires rules@.len() <= usize::MAX, nonempty_targets(rules@),
    ensures
        // total: for every rule set the analysis returns a plan or an error -- no panic (index, unwrap), termination         //# O-S-total [C05,C12]
        // a goal that is no rule's target is reported as missing, by name (when no path is a target twice)                    //# O-S-missing [C12]
        (!some_target(sort_rules_spec(rules_view(rules@)), goal_target@) && !(res matches Err(TopologicalSortError::TargetInMultipleRules(_))))
            ==> (res matches Err(TopologicalSortError::TargetMissing(g)) && g@ == goal_target@),
        // a plan that is handed out is in dependency order: every rule-to-rule edge points to an earlier node (at one of its targets),
        // every leaf edge to a listed leaf                                                                                     //# O-S-plan-order [C12,C03,C05]
        res matches Ok(pack) ==> plan_ok(pack),
        // a cycle is reported only when the rule set has one: acyclic rule sets are never rejected as cyclic                     //# O-S-cycle-real [C12]
        res matches Err(e) ==> ((e is CircularDependence || e is SelfDependentRule) ==> cyclic(g_tab(sort_rules_spec(rules_view(rules@))), sort_rules_spec(rules_view(rules@)).len() as int)),
        // scope: the plan ends with the goal's rule, and every other node feeds a later node: it holds nothing the goal does not need     //# O-S-goal-scope [C09,C12]
        res matches Ok(pack) ==> scoped(pack.nodes@) && pack.nodes@.len() > 0
            && exists|s: int| 0 <= s < pack.nodes@.last().targets@.len() && (#[trigger] pack.nodes@.last().targets@[s])@ == goal_target@,
//@ hint start
    broadcast use vstd::std_specs::hash::group_hash_axioms;
    proof { string_key_model(); }
    let ghost tab = sort_rules_spec(rules_view(rules@));
    let ghost tl = tcounts(tab);
    let ghost rv = rules_view(rules@);
//@ hint after 1/1 /let \(frame_buffer, to_buffer_index\) = rules_to_frame_buffer\(rules\)\?;/
    proof {
        assert forall|key: String| key@ == goal_target@ && #[trigger] to_buffer_index@.contains_key(key) implies some_target(tab, goal_target@) by {
            assert(is_target(tab, to_buffer_index@[key].0 as int, to_buffer_index@[key].1 as int, key@));
        }
        assert forall|i: int| 0 <= i < rv.len() implies (#[trigger] rv[i]).targets.len() > 0 by { assert(rv[i] == rule_view(rules@[i])); assert(rules@[i].targets@.len() > 0); }
        assert forall|b: int| 0 <= b < tab.len() implies (#[trigger] tab[b]).targets.len() > 0 by { sorted_nonempty(rv, b); }
        table_wf(frame_buffer@, to_buffer_index@, tab);
        assert(rest_ok(frame_buffer@, Seq::<Frame>::empty(), to_buffer_index@, tl)) by { reveal(rest_ok); }
        table_in_g(frame_buffer@, to_buffer_index@, tab);
    }
    let ghost ft = table_frames(frame_buffer@); let ghost m = to_buffer_index@;
    proof { if cyclic(gf(ft, m), tab.len() as int) { cyclic_mono(gf(ft, m), g_tab(tab), tab.len() as int); } }
//@ hint before 1/1 /let mut machine = TopologicalSortMachine::new\(frame_buffer, to_buffer_index\);/
    let ghost gstart = index as int;
    proof {
        // the goal is target number sub_index of rule number index
        let key = choose|key: String| #![trigger m.contains_key(key)] key@ == goal_target@ && m.contains_key(key) && m[key] == (index, sub_index);
        assert(is_target(tab, m[key].0 as int, m[key].1 as int, key@));
        assert(slot_ok(frame_buffer@[index as int], tab[index as int], index as int));
        sort_axioms(tab[index as int].targets);
        assert(strs(ft[gstart].targets@)[sub_index as int] == goal_target@);
        assert(ft[gstart].targets@[sub_index as int]@ == goal_target@);
    }
//@ hint after 1/1 /let mut machine = TopologicalSortMachine::new\(frame_buffer, to_buffer_index\);/
    proof { assert(machine.frames_in_order@ =~= Seq::<Frame>::empty()); }
//@ hint after 1/1 /machine\.sort_once\(index, sub_index\)\?;/
    proof { reveal(rest_ok); assert(machine.frame_buffer@[gstart].opt_frame is None); assert(emitted(machine.frame_buffer@, machine.frames_in_order@, gstart)); }
//@ end

//@ extract sort.rs fn topological_sort_all
//@ props C12 C05 C01
//@ attr #[verifier::loop_isolation(false)]
//@ ret res
//@ addarg * /machine\.sort_once/ Ghost(tl), Ghost(ft)
//@ addarg * /machine\.get_result/ Ghost(tl), Ghost(ft), Ghost(gstart)
//@ spec
    requires rules@.len() <= usize::MAX, nonempty_targets(rules@),
    ensures true,       // total: no panic, termination (native obligations)                                                  //# O-S-total-all [C05,C12]
        res matches Ok(pack) ==> plan_ok(pack),                                                                               //# O-S-plan-order [C12,C03,C05]
        res matches Err(e) ==> ((e is CircularDependence || e is SelfDependentRule) ==> cyclic(g_tab(sort_rules_spec(rules_view(rules@))), sort_rules_spec(rules_view(rules@)).len() as int)),   //# O-S-cycle-real [C12]
//@ hint start
    let ghost tab = sort_rules_spec(rules_view(rules@));
    let ghost tl = tcounts(tab);
    let ghost rv = rules_view(rules@);
//@ hint after 1/1 /let \(frame_buffer, to_buffer_index\) = rules_to_frame_buffer\(rules\)\?;/
    proof {
        assert forall|i: int| 0 <= i < rv.len() implies (#[trigger] rv[i]).targets.len() > 0 by { assert(rv[i] == rule_view(rules@[i])); assert(rules@[i].targets@.len() > 0); }
        assert forall|b: int| 0 <= b < tab.len() implies (#[trigger] tab[b]).targets.len() > 0 by { sorted_nonempty(rv, b); }
        table_wf(frame_buffer@, to_buffer_index@, tab);
        assert(rest_ok(frame_buffer@, Seq::<Frame>::empty(), to_buffer_index@, tl)) by { reveal(rest_ok); }
        table_in_g(frame_buffer@, to_buffer_index@, tab);
    }
    let ghost ft = table_frames(frame_buffer@); let ghost m = to_buffer_index@;
    proof { if cyclic(gf(ft, m), tab.len() as int) { cyclic_mono(gf(ft, m), g_tab(tab), tab.len() as int); } }
//@ hint before 1/1 /let mut machine = TopologicalSortMachine::new\(frame_buffer, to_buffer_index\);/
    let ghost gstart = 0int;
//@ hint after 1/1 /let mut machine = TopologicalSortMachine::new\(frame_buffer, to_buffer_index\);/
    proof { assert(machine.frames_in_order@ =~= Seq::<Frame>::empty()); }
//@ loop 1 invariant
        invariant machine.wf_s(tl), machine.wf_e(), machine.wf_o(tl), machine.wf_g(ft), ft.len() == tl.len(), frame_buffer_len == tl.len(), tl.len() == tab.len(), machine.to_buffer_index@ == m,
            cyclic(gf(ft, m), tab.len() as int) ==> cyclic(g_tab(tab), tab.len() as int),
//@ end

// path t is a target at two different places of the table
spec fn is_dup(tab: Seq<RuleSpec>, t: Seq<char>) -> bool {
    exists|b1: int, s1: int, b2: int, s2: int| #![trigger is_target(tab, b1, s1, t), is_target(tab, b2, s2, t)] is_target(tab, b1, s1, t) && is_target(tab, b2, s2, t) && (b1 != b2 || s1 != s2)
}
proof fn dup_intro(tab: Seq<RuleSpec>, b1: int, s1: int, b2: int, s2: int, t: Seq<char>)
    requires is_target(tab, b1, s1, t), is_target(tab, b2, s2, t), b1 != b2 || s1 != s2 ensures is_dup(tab, t) {}
//# L-S-no-dup [C12]
// property-facing: an exact index map means no path is a target twice -- so Ok is returned only for duplicate-free rule sets
proof fn index_ok_no_dup(m: Map<String, (usize, usize)>, tab: Seq<RuleSpec>, key: String)
    requires index_ok(m, tab, tab.len() as int) ensures !is_dup(tab, key@)
{
    if is_dup(tab, key@) {
        let (b1, s1, b2, s2) = choose|b1: int, s1: int, b2: int, s2: int| #![trigger is_target(tab, b1, s1, key@), is_target(tab, b2, s2, key@)] is_target(tab, b1, s1, key@) && is_target(tab, b2, s2, key@) && (b1 != b2 || s1 != s2);
        assert(m[key].0 as int == b1 && m[key].1 as int == s1);
        assert(m[key].0 as int == b2 && m[key].1 as int == s2);
    }
}
// inserting the next target of rule k keeps the index map exact
proof fn index_insert_ok(m0: Map<String, (usize, usize)>, m1: Map<String, (usize, usize)>, tab: Seq<RuleSpec>, k: int, j: int)
    requires index_ok_partial(m0, tab, k, j), 0 <= k < tab.len(), 0 <= j < tab[k].targets.len(), k <= usize::MAX, j <= usize::MAX,
        exists|key: String| #![trigger m0.contains_key(key)] !m0.contains_key(key) && key@ == sort_spec(tab[k].targets)[j] && m1 == m0.insert(key, (k as usize, j as usize)),
    ensures index_ok_partial(m1, tab, k, j + 1)
{
    let key0 = choose|key: String| #![trigger m0.contains_key(key)] !m0.contains_key(key) && key@ == sort_spec(tab[k].targets)[j] && m1 == m0.insert(key, (k as usize, j as usize));
    sort_axioms(tab[k].targets);
    assert(is_target(tab, k, j, key0@));
    assert forall|b: int, s: int, key: String| #![trigger is_target(tab, b, s, key@)] (0 <= b < k || (b == k && s < j + 1)) && is_target(tab, b, s, key@) implies m1.contains_key(key) && m1[key].0 as int == b && m1[key].1 as int == s by {
        if b == k && s == j { string_ext(key, key0); }
        else { assert(m0.contains_key(key) && m0[key].0 as int == b && m0[key].1 as int == s); assert(key != key0); }
    }
}

} // verus!
fn main() {}
