//@ unit E
//@ default-props C03 C04 C05
// Unit E: build.rs -- the per-rule thread bodies (lifted closures), wait_for_sources_ticket, ChannelPack::new; packet.rs whole.
// The channel protocol is stated over a ghost event log `Net`; std::sync::mpsc and thread::spawn are ASSUMED.
use vstd::prelude::*;
use vstd::std_specs::cmp::*;
use vstd::std_specs::hash::*;
verus! {

uninterp spec fn sha256_raw(c: Seq<u8>) -> Seq<u8>;
spec fn sha256(c: Seq<u8>) -> Seq<u8> { if sha256_raw(c).len() == 32 { sha256_raw(c) } else { Seq::new(32, |i: int| 0u8) } }
uninterp spec fn enc62_sha(s: Seq<u8>) -> Seq<char>;

// ---------- ghost event log of one thread ----------
enum Event {
    Recv(int, Option<Seq<u8>>),     // received on channel c: Some(hash) or None (cancel)
    Send(int, Option<Seq<u8>>),     // sent on channel c
    Work,                           // the rule's own work: every file-system mutation and the command of handle_rule_node / handle_source_only_node
}
struct Net { log: Seq<Event>, next: int }      // next: the id the next channel created gets

// ---------- types copied from the repo ----------
//@ extract system/mod.rs enum SystemError
//@ end
//@ extract system/mod.rs enum ReadWriteError
//@ end
//@ extract ticket.rs struct Ticket
//@ end
//@ extract packet.rs enum PacketError
//@ end
//@ extract packet.rs struct Packet
//@ end
//@ extract blob.rs struct FileState
//@ end
//@ extract blob.rs struct FileInfo
//@ end
//@ extract blob.rs struct Blob
//@ end
//@ extract blob.rs struct FileStateVec
//@ end
//@ extract sort.rs enum SourceIndex
//@ end
//@ extract sort.rs struct Node
//@ end
//@ extract sort.rs struct NodePack
//@ end

//@ include prelude/ticket_stub.rs

// stand-ins for types the thread bodies only pass along (ASSUMED opaque)
struct WorkOption { x: u8 }
struct RuleHistory { x: u8 }
struct WorkError { x: u8 }
struct SysCache<SystemType> { s: SystemType }
struct DownloaderCache { x: u8 }
struct DownloaderRuleHistory { x: u8 }
struct RecvError { x: u8 }
struct SendError<T> { t: T }
struct OtherBuildError { x: u8 }
//@ extract work.rs struct WorkResult
//@ end
//@ extract work.rs struct RuleExt
//@ end
//@ extract work.rs struct HandleNodeInfo
//@ end
// build.rs::BuildError restricted to the variants the thread bodies produce (the others carry external types)
enum BuildError { Canceled, ReceiverError(RecvError), SenderError(SendError<Packet>), WorkError(WorkError), Other(OtherBuildError) }

trait System : Sized {}

impl Blob {
    #[verifier::external_body] fn empty() -> (r: Blob) ensures r.file_infos@.len() == 0 { unimplemented!() }
    // ASSUMED (R8): the derived Clone of Vec<FileInfo> copies
    #[verifier::external_body] fn get_file_infos(self : &Self) -> (r: Vec<FileInfo>) ensures r@ == self.file_infos@ { unimplemented!() }
}
impl<SystemType: System> HandleNodeInfo<SystemType> {
//@ extract work.rs impl /HandleNodeInfo<SystemType>$/ fn new
//@ props C05
//@ ret res
//@ spec
        ensures res.system == system,
//@ end
}
impl FileStateVec {
//@ extract blob.rs impl /^FileStateVec$/ fn get_ticket
//@ props C01 C03 C05
//@ ret res
//@ spec
        requires sub_index < self.infos@.len(),     //# O-D-get-ticket-bounds [C05]
        ensures res == self.infos@[sub_index as int].ticket,     //# O-D-get-ticket [C01,C03]
//@ end
}

// ASSUMED: std::sync::mpsc (unbounded channel; send never blocks; each message received at most once).
// Every operation appends to the ghost log.
struct Sender<T> { chan: Ghost<int>, t: Ghost<Option<T>> }
struct Receiver<T> { chan: Ghost<int>, t: Ghost<Option<T>> }
spec fn payload(p: Packet) -> Option<Seq<u8>> { match p.ticket_result { Ok(t) => Some(t.bytes()), Err(_) => None } }
impl Sender<Packet> {
    spec fn id(&self) -> int { self.chan@ }
    #[verifier::external_body]
    fn send(&self, p: Packet, Tracked(net): Tracked<&mut Net>) -> (r: Result<(), SendError<Packet>>)
        ensures final(net).log == old(net).log.push(Event::Send(self.id(), payload(p)))
    { unimplemented!() }
}
impl Receiver<Packet> {
    spec fn id(&self) -> int { self.chan@ }
    #[verifier::external_body]
    fn recv(&self, Tracked(net): Tracked<&mut Net>) -> (r: Result<Packet, RecvError>)
        ensures r matches Ok(p) ==> final(net).log == old(net).log.push(Event::Recv(self.id(), payload(p))),
            r is Err ==> final(net).log == old(net).log
    { unimplemented!() }
}

// ASSUMED (unit D proves the file-system side; here only what the protocol needs): the rule's work is one `Work` event --
// these functions have no access to any channel -- and the result has one hash per target (from O-D-hrn-true-hash / O-D-src-true-hash)
#[verifier::external_body]
fn handle_rule_node<SystemType: System>(info : HandleNodeInfo<SystemType>, rule_ext : RuleExt<SystemType>, Tracked(net): Tracked<&mut Net>) -> (res: Result<WorkResult, WorkError>)
    ensures final(net).log == old(net).log.push(Event::Work),
        res matches Ok(r) ==> r.file_state_vec.infos@.len() == info.blob.file_infos@.len()
{ unimplemented!() }
#[verifier::external_body]
fn handle_source_only_node<SystemType: System>(system : SystemType, blob : Blob, Tracked(net): Tracked<&mut Net>) -> (res: Result<WorkResult, WorkError>)
    ensures final(net).log == old(net).log.push(Event::Work),
        res matches Ok(r) ==> r.file_state_vec.infos@.len() == blob.file_infos@.len()
{ unimplemented!() }

// ---------- packet.rs ----------
impl Packet {
//@ extract packet.rs impl /^Packet$/ fn from_ticket
//@ props C01 C03 C05
//@ ret res
//@ spec
        ensures payload(res) == Some(ticket.bytes()),      //# O-E-packet-ticket [C01,C03]
//@ end
//@ extract packet.rs impl /^Packet$/ fn cancel
//@ props C04 C05
//@ ret res
//@ spec
        ensures payload(res) == None::<Seq<u8>>,      //# O-E-packet-cancel [C04]
//@ end
//@ extract packet.rs impl /^Packet$/ fn get_ticket
//@ props C03 C04 C05
//@ ret res
//@ spec
        ensures res matches Ok(t) ==> payload(self) == Some(t.bytes()),      //# O-E-packet-get [C03,C04]
            res is Err ==> payload(self) == None::<Seq<u8>>,
//@ end
}

// ---------- spec vocabulary of the protocol ----------
spec fn recv_ids(rs: Seq<Receiver<Packet>>) -> Seq<int> { rs.map_values(|r: Receiver<Packet>| r.id()) }
// the events appended to log `a` to get log `b`
spec fn ext(a: Seq<Event>, b: Seq<Event>) -> Seq<Event> { b.subrange(a.len() as int, b.len() as int) }
spec fn extends(a: Seq<Event>, b: Seq<Event>) -> bool { a.len() <= b.len() && b.subrange(0, a.len() as int) == a }
// `s` is exactly one Recv on each of the first k channels of `ids`, in order
spec fn is_recvs(s: Seq<Event>, ids: Seq<int>, k: int) -> bool {
    s.len() == k && forall|j: int| 0 <= j < k ==> (#[trigger] s[j]) is Recv && s[j]->Recv_0 == ids[j]
}
// concatenation of the hashes received, in order
spec fn recvd_bytes(s: Seq<Event>) -> Seq<u8>
    decreases s.len()
{
    if s.len() == 0 { Seq::empty() } else { recvd_bytes(s.drop_last()) + (match s.last() { Event::Recv(_, Some(h)) => h, _ => Seq::empty() }) }
}
spec fn any_cancel(s: Seq<Event>) -> bool { exists|j: int| 0 <= j < s.len() && (#[trigger] s[j]) matches Event::Recv(_, None) }
// `s` is exactly one Send on every channel of `ids`, in order, with payloads `pay(j)`
spec fn is_sends(s: Seq<Event>, ids: Seq<int>, pay: spec_fn(int) -> Option<Seq<u8>>, k: int) -> bool {
    s.len() == k && forall|j: int| 0 <= j < k ==> #[trigger] s[j] == Event::Send(ids[j], pay(j))
}
proof fn ext_push(a: Seq<Event>, b: Seq<Event>, e: Event) requires extends(a, b) ensures extends(a, b.push(e)), ext(a, b.push(e)) =~= ext(a, b).push(e)
{ assert(b.push(e).subrange(0, a.len() as int) =~= b.subrange(0, a.len() as int)); }
proof fn ext_refl(a: Seq<Event>) ensures extends(a, a), ext(a, a) =~= Seq::<Event>::empty() { assert(a.subrange(0, a.len() as int) =~= a); }
proof fn any_cancel_push(s: Seq<Event>, e: Event) ensures any_cancel(s.push(e)) == (any_cancel(s) || e matches Event::Recv(_, None))
{
    if any_cancel(s) { let j = choose|j: int| 0 <= j < s.len() && (#[trigger] s[j]) matches Event::Recv(_, None); assert(s.push(e)[j] == s[j]); }
    if e matches Event::Recv(_, None) { assert(s.push(e)[s.len() as int] == e); }
    if any_cancel(s.push(e)) {
        let j = choose|j: int| 0 <= j < s.push(e).len() && (#[trigger] s.push(e)[j]) matches Event::Recv(_, None);
        if j < s.len() { assert(s[j] == s.push(e)[j]); }
    }
}
proof fn recvd_push(s: Seq<Event>, e: Event) ensures recvd_bytes(s.push(e)) == recvd_bytes(s) + (match e { Event::Recv(_, Some(h)) => h, _ => Seq::empty() })
{ assert(s.push(e).drop_last() =~= s); }

// ---------- build.rs ----------
//@ extract build.rs fn wait_for_sources_ticket
//@ props C01 C02 C03 C04 C05 C06 C17
//@ ret res
//@ param Tracked(net): Tracked<&mut Net>
//@ addarg * /receiver\.recv/ Tracked(net)
//@ retype 1 /let mut tickets = vec!\[\];/ => let mut tickets : Vec<Ticket> = Vec::new();
//@ spec
    ensures extends(old(net).log, final(net).log),
        // every receiver is drained exactly once, in order, even after a cancel was seen (C05: no sender is left with a closed channel)   //# O-E-recv-all [C03,C05,C06]
        !(res matches Err(BuildError::ReceiverError(_))) ==> is_recvs(ext(old(net).log, final(net).log), recv_ids(receiver_vec@), receiver_vec@.len() as int),
        res matches Err(BuildError::ReceiverError(_)) ==> exists|k: int| 0 <= k < receiver_vec@.len() && is_recvs(ext(old(net).log, final(net).log), recv_ids(receiver_vec@), k),
        // Ok only if no source cancelled; the ticket is the hash of the received hashes in receiver order                              //# O-E-sources-ticket [C01,C03]
        res matches Ok(t) ==> !any_cancel(ext(old(net).log, final(net).log)) && t.bytes() == sha256(recvd_bytes(ext(old(net).log, final(net).log))),
        // a cancel from any source cancels this rule                                                                                    //# O-E-cancel-in [C04]
        (any_cancel(ext(old(net).log, final(net).log)) && !(res matches Err(BuildError::ReceiverError(_)))) ==> res matches Err(BuildError::Canceled),
        res matches Err(BuildError::Canceled) ==> any_cancel(ext(old(net).log, final(net).log)),
        res matches Err(e) ==> e is Canceled || e is ReceiverError,
//@ hint start
    proof { ext_refl(net.log); }
//@ loop 1 binder it
//@ loop 1 invariant
        invariant extends(old(net).log, net.log),
            is_recvs(ext(old(net).log, net.log), recv_ids(receiver_vec@), it.index@),
            canceled == any_cancel(ext(old(net).log, net.log)),
            ticket_bytes(tickets@) =~= recvd_bytes(ext(old(net).log, net.log)),
//@ hint before 1/1 /match receiver\.recv\(\)/
        let ghost log0 = net.log; let ghost k0 = it.index@; let ghost ts0 = tickets@;
        proof { assert(recv_ids(receiver_vec@)[k0] == receiver.id()); }
//@ hint after 1/1 /Err\(error\) => return Err\(BuildError::ReceiverError\(error\)\),\s*\}/
        proof {
            let e = net.log.last();
            assert(net.log =~= log0.push(e));
            ext_push(old(net).log, log0, e);
            any_cancel_push(ext(old(net).log, log0), e);
            recvd_push(ext(old(net).log, log0), e);
            if tickets@.len() > ts0.len() { assert(tickets@.drop_last() =~= ts0); } else { assert(tickets@ =~= ts0); }
        }
//@ loop 2 binder it2
//@ loop 2 invariant
        invariant factory.acc() == ticket_bytes(tickets@.subrange(0, it2.index@)),
//@ hint before 1/1 /let mut factory = TicketFactory::new\(\);/
    proof { assert(tickets@.subrange(0, 0) =~= Seq::<Ticket>::empty()); }
//@ hint after 1/1 /factory\.input_ticket\(ticket\);/
        proof { assert(tickets@.subrange(0, it2.index@ + 1).drop_last() =~= tickets@.subrange(0, it2.index@)); }
//@ hint before 1/1 /Ok\(factory\.result\(\)\)/
    proof { assert(tickets@.subrange(0, tickets@.len() as int) =~= tickets@); }
//@ end
spec fn ticket_bytes(ts: Seq<Ticket>) -> Seq<u8> decreases ts.len() { if ts.len() == 0 { Seq::empty() } else { ticket_bytes(ts.drop_last()) + ts.last().bytes() } }

spec fn sender_ids(ss: Seq<Sender<Packet>>) -> Seq<int> { ss.map_values(|s: Sender<Packet>| s.id()) }
spec fn tagged_ids(ss: Seq<(usize, Sender<Packet>)>) -> Seq<int> { ss.map_values(|s: (usize, Sender<Packet>)| s.1.id()) }

// ---- thread body of a leaf (source file): closure #1 of build() ----
//@ extract build.rs fn build closure 1
//@ props C03 C04 C05 C01 C02 C17
//@ sig fn leaf_thread<SystemType: System>(system_clone: SystemType, blob: Blob, sender_vec: Vec<Sender<Packet>>, Tracked(net): Tracked<&mut Net>) -> (res: Result<WorkResult, BuildError>)
//@ addarg * /handle_source_only_node|sender\.send/ Tracked(net)
//@ spec
    requires blob.file_infos@.len() == 1,
    ensures
        // the work happens first, then exactly one packet on every outgoing channel -- on every path on which no send failed     //# O-E-leaf-one-per-edge [C05,C03]
        res matches Ok(r) ==> r.file_state_vec.infos@.len() == 1 && extends(old(net).log.push(Event::Work), final(net).log)
            && is_sends(ext(old(net).log.push(Event::Work), final(net).log), sender_ids(sender_vec@), |j: int| Some(r.file_state_vec.infos@[0].ticket.bytes()), sender_vec@.len() as int),   //# O-E-leaf-payload [C01,C03]
        res matches Err(BuildError::WorkError(_)) ==> extends(old(net).log.push(Event::Work), final(net).log)                                                                          //# O-E-leaf-cancel-out [C04]
            && is_sends(ext(old(net).log.push(Event::Work), final(net).log), sender_ids(sender_vec@), |j: int| None::<Seq<u8>>, sender_vec@.len() as int),
        res matches Err(e) ==> e is WorkError || e is SenderError,
//@ hint before 1/2 /for sender in sender_vec/
                                let ghost base = net.log;
                                proof { ext_refl(base); }
//@ hint before 2/2 /for sender in sender_vec/
                                let ghost base = net.log;
                                proof { ext_refl(base); }
//@ loop 1 binder it
//@ loop 1 invariant
                                    invariant result.file_state_vec.infos@.len() == 1, base == old(net).log.push(Event::Work), extends(base, net.log),
                                        is_sends(ext(base, net.log), sender_ids(sender_vec@), |j: int| Some(result.file_state_vec.infos@[0].ticket.bytes()), it.index@),
//@ loop 2 binder it
//@ loop 2 invariant
                                    invariant base == old(net).log.push(Event::Work), extends(base, net.log),
                                        is_sends(ext(base, net.log), sender_ids(sender_vec@), |j: int| None::<Seq<u8>>, it.index@),
//@ hint before 1/2 /match sender\.send\(/
                                    let ghost l0 = net.log;
                                    proof { assert(sender_ids(sender_vec@)[it.index@] == sender.id()); }
//@ hint before 2/2 /match sender\.send\(/
                                    let ghost l0 = net.log;
                                    proof { assert(sender_ids(sender_vec@)[it.index@] == sender.id()); }
//@ hint after 1/2 /Err\(error\) => return Err\(BuildError::SenderError\(error\)\),\s*\}/
                                    proof { ext_push(base, l0, net.log.last()); assert(net.log =~= l0.push(net.log.last())); }
//@ hint after 2/2 /Err\(error\) => return Err\(BuildError::SenderError\(error\)\),\s*\}/
                                    proof { ext_push(base, l0, net.log.last()); assert(net.log =~= l0.push(net.log.last())); }
//@ end


proof fn extends_trans(a: Seq<Event>, b: Seq<Event>, c: Seq<Event>) requires extends(a, b), extends(b, c) ensures extends(a, c)
{ assert(c.subrange(0, a.len() as int) =~= b.subrange(0, a.len() as int)); }
proof fn extends_cut(a: Seq<Event>, c: Seq<Event>) requires extends(a, c) ensures c.subrange(0, a.len() as int) == a {}
proof fn extends_push_cut(a: Seq<Event>, e: Event, c: Seq<Event>) requires extends(a.push(e), c) ensures c.subrange(0, a.len() as int) =~= a, extends(a, c)
{ assert(c.subrange(0, a.len() as int) =~= c.subrange(0, a.len() as int + 1).subrange(0, a.len() as int)); }

// what a rule thread's log looks like, relative to the log `a` at its start: first the receives (all of them unless a channel
// broke), then -- only if no source cancelled -- the work, then one packet per outgoing channel
spec fn after_recvs(a: Seq<Event>, b: Seq<Event>, n: int) -> Seq<Event> { b.subrange(0, a.len() + n) }

// ---- thread body of a rule: closure #2 of build() ----
//@ extract build.rs fn build closure 2
//@ props C01 C02 C03 C04 C05 C17
//@ sig fn node_thread<SystemType: System>(system_clone: SystemType, blob: Blob, receiver_vec: Vec<Receiver<Packet>>, sender_vec: Vec<(usize, Sender<Packet>)>, node: Node, rule_history: RuleHistory, cache_clone: SysCache<SystemType>, downloader_cache_clone: DownloaderCache, downloader_rule_history: DownloaderRuleHistory, Tracked(net): Tracked<&mut Net>) -> (res: Result<WorkResult, BuildError>)
//@ addarg * /wait_for_sources_ticket|handle_rule_node|sender\.send/ Tracked(net)
//@ spec
    requires forall|j: int| 0 <= j < sender_vec@.len() ==> (#[trigger] sender_vec@[j]).0 < blob.file_infos@.len(),     //# O-E-sub-index-bounds [C05]
    ensures
        // C03: every receive precedes the work, every send follows it; C05: exactly one packet per outgoing channel on every path on
        // which no channel operation failed; C01/C03: the packet tagged `sub` carries the hash of target `sub`
        res matches Ok(r) ==> ({                                                                                        //# O-E-node-order [C03,C05,C01]
            let l1 = after_recvs(old(net).log, final(net).log, receiver_vec@.len() as int);
            &&& extends(old(net).log, l1) && is_recvs(ext(old(net).log, l1), recv_ids(receiver_vec@), receiver_vec@.len() as int) && !any_cancel(ext(old(net).log, l1))
            &&& extends(l1.push(Event::Work), final(net).log)
            &&& r.file_state_vec.infos@.len() == blob.file_infos@.len()
            &&& is_sends(ext(l1.push(Event::Work), final(net).log), tagged_ids(sender_vec@), |j: int| Some(r.file_state_vec.infos@[sender_vec@[j].0 as int].ticket.bytes()), sender_vec@.len() as int)
        }),
        // C04: a cancelled rule does no work at all and cancels everything downstream
        res matches Err(BuildError::Canceled) ==> ({                                                                    //# O-E-node-cancelled [C04,C05]
            let l1 = after_recvs(old(net).log, final(net).log, receiver_vec@.len() as int);
            &&& extends(old(net).log, l1) && is_recvs(ext(old(net).log, l1), recv_ids(receiver_vec@), receiver_vec@.len() as int) && any_cancel(ext(old(net).log, l1))
            &&& extends(l1, final(net).log)
            &&& is_sends(ext(l1, final(net).log), tagged_ids(sender_vec@), |j: int| None::<Seq<u8>>, sender_vec@.len() as int)
        }),
        // C04: a failed rule cancels everything downstream
        res matches Err(BuildError::WorkError(_)) ==> ({                                                                //# O-E-node-failed [C04,C05]
            let l1 = after_recvs(old(net).log, final(net).log, receiver_vec@.len() as int);
            &&& extends(old(net).log, l1) && is_recvs(ext(old(net).log, l1), recv_ids(receiver_vec@), receiver_vec@.len() as int) && !any_cancel(ext(old(net).log, l1))
            &&& extends(l1.push(Event::Work), final(net).log)
            &&& is_sends(ext(l1.push(Event::Work), final(net).log), tagged_ids(sender_vec@), |j: int| None::<Seq<u8>>, sender_vec@.len() as int)
        }),
//@ hint start
    let ghost log0 = net.log;
    let ghost nblob = blob.file_infos@.len();
//@ hint before 1/1 /match handle_rule_node\(/
                        let ghost log1 = net.log;
//@ hint before 1/3 /for \(_?sub_index, sender\) in sender_vec/
                                let ghost base = net.log;
                                proof { ext_refl(base); }
//@ hint before 2/3 /for \(_?sub_index, sender\) in sender_vec/
                                let ghost base = net.log;
                                proof { ext_refl(base); }
//@ hint before 3/3 /for \(_?sub_index, sender\) in sender_vec/
                                let ghost base = net.log;
                                proof { ext_refl(base); }
//@ loop 1 binder it
//@ loop 1 invariant
                                    invariant extends(base, net.log), extends(log0, base),
                                        error is Canceled ==> (is_recvs(ext(log0, base), recv_ids(receiver_vec@), receiver_vec@.len() as int) && any_cancel(ext(log0, base))),
                                        is_sends(ext(base, net.log), tagged_ids(sender_vec@), |j: int| None::<Seq<u8>>, it.index@),
//@ loop 2 binder it
//@ loop 2 invariant
                                    invariant base == log1.push(Event::Work), extends(base, net.log), recvs_done(log0, log1, recv_ids(receiver_vec@), receiver_vec@.len() as int),
                                        result.file_state_vec.infos@.len() == nblob,
                                        forall|j: int| 0 <= j < sender_vec@.len() ==> (#[trigger] sender_vec@[j]).0 < nblob,
                                        is_sends(ext(base, net.log), tagged_ids(sender_vec@), |j: int| Some(result.file_state_vec.infos@[sender_vec@[j].0 as int].ticket.bytes()), it.index@),
//@ loop 3 binder it
//@ loop 3 invariant
                                    invariant base == log1.push(Event::Work), extends(base, net.log), recvs_done(log0, log1, recv_ids(receiver_vec@), receiver_vec@.len() as int),
                                        is_sends(ext(base, net.log), tagged_ids(sender_vec@), |j: int| None::<Seq<u8>>, it.index@),
//@ hint before 1/3 /match sender\.send\(/
                                    let ghost l0 = net.log;
                                    proof { assert(tagged_ids(sender_vec@)[it.index@] == sender.id()); }
//@ hint before 2/3 /match sender\.send\(/
                                    let ghost l0 = net.log;
                                    proof { assert(tagged_ids(sender_vec@)[it.index@] == sender.id()); }      // (the binder of the tag is not named here: a change of its name must not cost the proof)
//@ hint before 3/3 /match sender\.send\(/
                                    let ghost l0 = net.log;
                                    proof { assert(tagged_ids(sender_vec@)[it.index@] == sender.id()); }
//@ hint after 1/3 /Err\(error\) => return Err\(BuildError::SenderError\(error\)\),\s*\}/
                                    proof { ext_push(base, l0, net.log.last()); assert(net.log =~= l0.push(net.log.last())); }
//@ hint after 2/3 /Err\(error\) => return Err\(BuildError::SenderError\(error\)\),\s*\}/
                                    proof { ext_push(base, l0, net.log.last()); assert(net.log =~= l0.push(net.log.last())); }
//@ hint after 3/3 /Err\(error\) => return Err\(BuildError::SenderError\(error\)\),\s*\}/
                                    proof { ext_push(base, l0, net.log.last()); assert(net.log =~= l0.push(net.log.last())); }
//@ hint before 1/1 /return Err\(error\);/
                                proof { if error is Canceled { node_cut(log0, base, net.log, receiver_vec@.len() as int); extends_trans(log0, base, net.log); } else { extends_trans(log0, base, net.log); } }
//@ hint before 1/1 /Ok\(result\)\s*\},\s*Err\(error\) =>\s*\{\s*for \(_sub_index, sender\) in sender_vec\s*\{\s*match sender\.send\(Packet::cancel\(\)\)\s*\{\s*Ok\(_\) => \{\},\s*Err\(error\) => return Err\(BuildError::SenderError\(error\)\),\s*\}\s*\}\s*Err\(BuildError::WorkError\(error\)\)/
                                proof { extends_push_cut(log1, Event::Work, net.log); node_cut(log0, log1, net.log, receiver_vec@.len() as int); extends_trans(log0, log1, net.log); }
//@ hint before 1/1 /Err\(BuildError::WorkError\(error\)\)\s*\},\s*\}\s*\}$/
                                proof { extends_push_cut(log1, Event::Work, net.log); node_cut(log0, log1, net.log, receiver_vec@.len() as int); extends_trans(log0, log1, net.log); }
//@ end
spec fn recvs_done(a: Seq<Event>, l1: Seq<Event>, rids: Seq<int>, n: int) -> bool { extends(a, l1) && is_recvs(ext(a, l1), rids, n) && !any_cancel(ext(a, l1)) }
// cutting the final log after the n receives gives back the log as it was when the receives were done
proof fn node_cut(a: Seq<Event>, l1: Seq<Event>, c: Seq<Event>, n: int)
    requires extends(a, l1), l1.len() == a.len() + n, extends(l1, c)
    ensures after_recvs(a, c, n) == l1
{}

// ================= channel wiring: ChannelPack::new =================
// ASSUMED: `mpsc::channel()` creates a fresh channel; the ghost id of the pair is the creation counter
#[verifier::external_body]
fn mpsc_channel(Tracked(net): Tracked<&mut Net>) -> (r: (Sender<Packet>, Receiver<Packet>))
    ensures r.0.id() == old(net).next && r.1.id() == old(net).next, final(net).next == old(net).next + 1, final(net).log == old(net).log
{ unimplemented!() }
struct ChannelPack { leaves: Vec<(String, Vec<Sender<Packet>>)>, nodes: Vec<(Node, Vec<(usize, Sender<Packet>)>, Vec<Receiver<Packet>>)> }
// R4: the two `into_iter().map(..).collect()` initialisations
#[verifier::external_body]
fn init_leaves(leaves: Vec<String>) -> (r: Vec<(String, Vec<Sender<Packet>>)>)
    ensures r@.len() == leaves@.len(), forall|l: int| 0 <= l < leaves@.len() ==> (#[trigger] r@[l]).0 == leaves@[l] && r@[l].1@.len() == 0
{ unimplemented!() }
#[verifier::external_body]
fn init_nodes(nodes: Vec<Node>) -> (r: Vec<(Node, Vec<(usize, Sender<Packet>)>, Vec<Receiver<Packet>>)>)
    ensures r@.len() == nodes@.len(), forall|n: int| 0 <= n < nodes@.len() ==> (#[trigger] r@[n]).0 == nodes@[n] && r@[n].1@.len() == 0 && r@[n].2@.len() == 0
{ unimplemented!() }

// the plan's sources: srcs[n][k]
spec fn srcs_of(nodes: Seq<Node>) -> Seq<Seq<SourceIndex>> { nodes.map_values(|n: Node| n.source_indices@) }
spec fn pack_ok(srcs: Seq<Seq<SourceIndex>>, n_leaves: int) -> bool {
    forall|n: int, k: int| 0 <= n < srcs.len() && 0 <= k < srcs[n].len() ==> match #[trigger] srcs[n][k] { SourceIndex::Leaf(i) => i < n_leaves, SourceIndex::Pair(i, _) => i < srcs.len() }
}
// channels are created in (node, source) order: the channel of source k of node n has id base + off(n) + k
spec fn off(srcs: Seq<Seq<SourceIndex>>, n: int) -> int decreases n { if n <= 0 { 0 } else { off(srcs, n - 1) + srcs[n - 1].len() } }
spec fn chan_id(srcs: Seq<Seq<SourceIndex>>, base: int, n: int, k: int) -> int { base + off(srcs, n) + k }
spec fn is_leaf(s: SourceIndex, l: int) -> bool { match s { SourceIndex::Leaf(i) => i as int == l, _ => false } }
// the sender ids leaf l holds after all sources before (n, k) were wired
spec fn leaf_list(srcs: Seq<Seq<SourceIndex>>, base: int, l: int, n: int, k: int) -> Seq<int>
    decreases n, k
{
    if k > 0 && 0 <= n < srcs.len() && k <= srcs[n].len() {
        let prev = leaf_list(srcs, base, l, n, k - 1);
        if is_leaf(srcs[n][k - 1], l) { prev.push(chan_id(srcs, base, n, k - 1)) } else { prev }
    } else if n > 0 && k <= 0 { leaf_list(srcs, base, l, n - 1, srcs[n - 1].len() as int) } else { Seq::empty() }
}
// the (target number, sender id) pairs rule i holds after all sources before (n, k) were wired
spec fn node_list(srcs: Seq<Seq<SourceIndex>>, base: int, i: int, n: int, k: int) -> Seq<(usize, int)>
    decreases n, k
{
    if k > 0 && 0 <= n < srcs.len() && k <= srcs[n].len() {
        let prev = node_list(srcs, base, i, n, k - 1);
        match srcs[n][k - 1] { SourceIndex::Pair(j, sub) => if j == i { prev.push((sub, chan_id(srcs, base, n, k - 1))) } else { prev }, _ => prev }
    } else if n > 0 && k <= 0 { node_list(srcs, base, i, n - 1, srcs[n - 1].len() as int) } else { Seq::empty() }
}
spec fn tagged(ss: Seq<(usize, Sender<Packet>)>) -> Seq<(usize, int)> { ss.map_values(|s: (usize, Sender<Packet>)| (s.0, s.1.id())) }
// wiring state after all sources before (n, k): every list is exactly the expected one; the receivers of the nodes done so far are complete
spec fn wired(leaves: Seq<(String, Vec<Sender<Packet>>)>, nodes: Seq<(Node, Vec<(usize, Sender<Packet>)>, Vec<Receiver<Packet>>)>, srcs: Seq<Seq<SourceIndex>>, base: int, n: int, k: int) -> bool {
    &&& forall|l: int| 0 <= l < leaves.len() ==> sender_ids((#[trigger] leaves[l]).1@) == leaf_list(srcs, base, l, n, k)
    &&& forall|i: int| 0 <= i < nodes.len() ==> tagged((#[trigger] nodes[i]).1@) == node_list(srcs, base, i, n, k)
    &&& forall|m: int| 0 <= m < nodes.len() ==> (#[trigger] nodes[m]).2@.len() == (if m < n { srcs[m].len() as int } else if m == n { k } else { 0 })
    &&& forall|m: int, j: int| 0 <= m < nodes.len() && 0 <= j < nodes[m].2@.len() ==> (#[trigger] nodes[m].2@[j]).id() == chan_id(srcs, base, m, j)
}

impl ChannelPack {
//@ extract build.rs impl /^ChannelPack$/ fn new
//@ props C03 C05 C01
//@ attr #[verifier::loop_isolation(false)]
//@ ret res
//@ param Tracked(net): Tracked<&mut Net>
//@ rewrite 1 /node_pack\.leaves\.into_iter\(\)\.map\(\|leaf\| \{\(leaf, vec!\[\]\)\}\)\.collect\(\)/ => init_leaves(node_pack.leaves)
//@ rewrite 1 /node_pack\.nodes\.into_iter\(\)\.map\(\|node\| \{\(node, vec!\[\], vec!\[\]\)\}\)\.collect\(\)/ => init_nodes(node_pack.nodes)
//@ rewrite 1 /mpsc::channel\(\)/ => mpsc_channel(Tracked(net))
//@ spec
        requires pack_ok(srcs_of(node_pack.nodes@), node_pack.leaves@.len() as int),      // from the sorter: O-S-binding
        ensures
            // the same leaves and nodes, and: receiver k of node n is channel (n, k); its sender sits exactly in the list named by source
            // index k of node n -- leaf i's list for Leaf(i), rule i's list tagged `sub` for Pair(i, sub) -- in creation order       //# O-E-wiring [C03,C05,C01]
            res.leaves@.len() == node_pack.leaves@.len(), res.nodes@.len() == node_pack.nodes@.len(),
            forall|l: int| 0 <= l < res.leaves@.len() ==> (#[trigger] res.leaves@[l]).0 == node_pack.leaves@[l],
            forall|n: int| 0 <= n < res.nodes@.len() ==> (#[trigger] res.nodes@[n]).0 == node_pack.nodes@[n],
            wired(res.leaves@, res.nodes@, srcs_of(node_pack.nodes@), old(net).next, node_pack.nodes@.len() as int, 0),
            final(net).log == old(net).log,
//@ hint start
        let ghost srcs = srcs_of(node_pack.nodes@); let ghost base = net.next; let ghost nl = node_pack.leaves@.len() as int; let ghost nn = node_pack.nodes@.len() as int;
        let ghost pn = node_pack.nodes@; let ghost pl = node_pack.leaves@;
//@ hint before 1/1 /for node_index in 0\.\.nodes\.len\(\)/
        proof {
            assert forall|l: int| 0 <= l < leaves@.len() implies sender_ids((#[trigger] leaves@[l]).1@) == leaf_list(srcs, base, l, 0, 0) by { assert(sender_ids(leaves@[l].1@) =~= Seq::<int>::empty()); }
            assert forall|i: int| 0 <= i < nodes@.len() implies tagged((#[trigger] nodes@[i]).1@) == node_list(srcs, base, i, 0, 0) by { assert(tagged(nodes@[i].1@) =~= Seq::<(usize, int)>::empty()); }
        }
//@ loop 1 invariant
            invariant nodes@.len() == nn, leaves@.len() == nl, srcs.len() == nn,
                forall|l: int| 0 <= l < nl ==> (#[trigger] leaves@[l]).0 == pl[l],
                forall|n: int| 0 <= n < nn ==> (#[trigger] nodes@[n]).0 == pn[n],
                wired(leaves@, nodes@, srcs, base, node_index as int, 0),
                net.next == base + off(srcs, node_index as int), net.log == old(net).log,
//@ loop 2 invariant
                invariant nodes@.len() == nn, leaves@.len() == nl, srcs.len() == nn, node_index < nn,
                    forall|l: int| 0 <= l < nl ==> (#[trigger] leaves@[l]).0 == pl[l],
                    forall|n: int| 0 <= n < nn ==> (#[trigger] nodes@[n]).0 == pn[n],
                    wired(leaves@, nodes@, srcs, base, node_index as int, source_indicies_index as int),
                    net.next == base + off(srcs, node_index as int) + source_indicies_index, net.log == old(net).log,
//@ hint before 1/1 /let \(sender, receiver\) : \(Sender<Packet>, Receiver<Packet>\) = mpsc::channel\(\);/
                let ghost lv0 = leaves@; let ghost nv0 = nodes@; let ghost n0 = node_index as int; let ghost k0 = source_indicies_index as int;
                proof { assert(srcs[n0] == pn[n0].source_indices@); assert(nodes@[n0].0 == pn[n0]); }
//@ hint before 1/1 /nodes\[node_index\]\.2\.push\(receiver\);/
                let ghost lv1 = leaves@; let ghost nv1 = nodes@;
                proof {
                    let cid = chan_id(srcs, base, n0, k0);
                    assert(sender.id() == cid);
                    match srcs[n0][k0] {
                        SourceIndex::Leaf(i) => {
                            assert(sender_ids(lv1[i as int].1@) =~= sender_ids(lv0[i as int].1@).push(cid));      //# O-E-wiring [C03,C05,C01]
                            assert forall|l: int| 0 <= l < lv1.len() && l != i implies #[trigger] lv1[l] == lv0[l] by {}
                            assert(nv1 == nv0);
                        },
                        SourceIndex::Pair(i, sub) => {
                            assert(tagged(nv1[i as int].1@) =~= tagged(nv0[i as int].1@).push((sub, cid)));      //# O-E-wiring [C03,C05,C01]
                            assert forall|m: int| 0 <= m < nv1.len() && m != i implies #[trigger] nv1[m] == nv0[m] by {}
                            assert(lv1 == lv0);
                        },
                    }
                }
//@ hint after 1/1 /nodes\[node_index\]\.2\.push\(receiver\);/
                proof {
                    assert forall|m: int| 0 <= m < nodes@.len() implies (#[trigger] nodes@[m]).1@ == nv1[m].1@ by {}
                    assert(leaves@ == lv1);
                    assert forall|l: int| 0 <= l < leaves@.len() implies sender_ids((#[trigger] leaves@[l]).1@) == (if is_leaf(srcs[n0][k0], l) { sender_ids(lv0[l].1@).push(chan_id(srcs, base, n0, k0)) } else { sender_ids(lv0[l].1@) }) by {
                        match srcs[n0][k0] { SourceIndex::Leaf(i) => { if l == i { } else { assert(lv1[l] == lv0[l]); } }, SourceIndex::Pair(i, sub) => { assert(lv1[l] == lv0[l]); } }
                    }
                    wired_step(lv0, nv0, leaves@, nodes@, srcs, base, n0, k0); }
//@ hint after 1/1 /nodes\[node_index\]\.2\.push\(receiver\);\s*\}/
            proof { wired_next_node(leaves@, nodes@, srcs, base, node_index as int); }
//@ end
}
// wiring one more source keeps `wired`
proof fn wired_step(lv0: Seq<(String, Vec<Sender<Packet>>)>, nv0: Seq<(Node, Vec<(usize, Sender<Packet>)>, Vec<Receiver<Packet>>)>,
                    lv: Seq<(String, Vec<Sender<Packet>>)>, nv: Seq<(Node, Vec<(usize, Sender<Packet>)>, Vec<Receiver<Packet>>)>,
                    srcs: Seq<Seq<SourceIndex>>, base: int, n: int, k: int)
    requires wired(lv0, nv0, srcs, base, n, k), 0 <= n < srcs.len(), 0 <= k < srcs[n].len(), nv0.len() == srcs.len(), nv.len() == nv0.len(), lv.len() == lv0.len(),
        // what the loop body did: one new sender with id chan_id(n,k) appended to the list the source names, one receiver with that id appended to node n
        forall|l: int| 0 <= l < lv.len() ==> sender_ids((#[trigger] lv[l]).1@) == (if is_leaf(srcs[n][k], l) { sender_ids(lv0[l].1@).push(chan_id(srcs, base, n, k)) } else { sender_ids(lv0[l].1@) }),
        forall|i: int| 0 <= i < nv.len() ==> tagged((#[trigger] nv[i]).1@) == (match srcs[n][k] { SourceIndex::Pair(j, sub) => if j == i { tagged(nv0[i].1@).push((sub, chan_id(srcs, base, n, k))) } else { tagged(nv0[i].1@) }, _ => tagged(nv0[i].1@) }),
        forall|m: int| 0 <= m < nv.len() && m != n ==> (#[trigger] nv[m]).2@ == nv0[m].2@,
        nv[n].2@.len() == nv0[n].2@.len() + 1, forall|j: int| 0 <= j < nv0[n].2@.len() ==> nv[n].2@[j] == nv0[n].2@[j], nv[n].2@[k].id() == chan_id(srcs, base, n, k),
    ensures wired(lv, nv, srcs, base, n, k + 1)
{
    assert forall|m: int, j: int| 0 <= m < nv.len() && 0 <= j < nv[m].2@.len() implies (#[trigger] nv[m].2@[j]).id() == chan_id(srcs, base, m, j) by {
        if m != n { assert(nv[m].2@ == nv0[m].2@); assert(nv0[m].2@[j].id() == chan_id(srcs, base, m, j)); }
        else if j < nv0[n].2@.len() { assert(nv0[n].2@[j].id() == chan_id(srcs, base, n, j)); }
    }
}
proof fn wired_next_node(lv: Seq<(String, Vec<Sender<Packet>>)>, nv: Seq<(Node, Vec<(usize, Sender<Packet>)>, Vec<Receiver<Packet>>)>, srcs: Seq<Seq<SourceIndex>>, base: int, n: int)
    requires 0 <= n < srcs.len(), wired(lv, nv, srcs, base, n, srcs[n].len() as int) ensures wired(lv, nv, srcs, base, n + 1, 0)
{}

// ---- what `wired` means: the lists and the source slots correspond one to one ----
spec fn is_pair(s: SourceIndex, i: int, sub: usize) -> bool { match s { SourceIndex::Pair(j, t) => j as int == i && t == sub, _ => false } }
spec fn slot_before(srcs: Seq<Seq<SourceIndex>>, m: int, j: int, n: int, k: int) -> bool { 0 <= m < srcs.len() && 0 <= j < srcs[m].len() && (m < n || (m == n && j < k)) }
spec fn pos_ok(srcs: Seq<Seq<SourceIndex>>, n: int, k: int) -> bool { 0 <= n <= srcs.len() && 0 <= k && (n < srcs.len() ==> k <= srcs[n].len()) && (n == srcs.len() ==> k == 0) }
// distinct slots get distinct channels                                                                         //# O-E-wiring-injective [C03,C05]
proof fn off_mono(srcs: Seq<Seq<SourceIndex>>, m: int, n: int)
    requires 0 <= m < n <= srcs.len() ensures off(srcs, m) + srcs[m].len() <= off(srcs, n) decreases n - m
{ if m + 1 < n { off_mono(srcs, m, n - 1); } }
proof fn chan_id_injective(srcs: Seq<Seq<SourceIndex>>, base: int, m: int, j: int, n: int, k: int)
    requires 0 <= m < srcs.len(), 0 <= j < srcs[m].len(), 0 <= n < srcs.len(), 0 <= k < srcs[n].len(), chan_id(srcs, base, m, j) == chan_id(srcs, base, n, k)
    ensures m == n && j == k
{ if m < n { off_mono(srcs, m, n); } else if n < m { off_mono(srcs, n, m); } }
// every entry of rule i's list is the channel of a slot whose source index is Pair(i, tag)                      //# O-E-wiring-sound [C03,C05,C01]
proof fn node_list_sound(srcs: Seq<Seq<SourceIndex>>, base: int, i: int, n: int, k: int, p: int)
    requires pos_ok(srcs, n, k), 0 <= p < node_list(srcs, base, i, n, k).len()
    ensures exists|m: int, j: int| slot_before(srcs, m, j, n, k) && is_pair(#[trigger] srcs[m][j], i, node_list(srcs, base, i, n, k)[p].0) && node_list(srcs, base, i, n, k)[p].1 == chan_id(srcs, base, m, j)
    decreases n, k
{
    let cur = node_list(srcs, base, i, n, k);
    if k > 0 && n < srcs.len() {
        let prev = node_list(srcs, base, i, n, k - 1);
        if p < prev.len() {
            node_list_sound(srcs, base, i, n, k - 1, p);
            let (m, j) = choose|m: int, j: int| slot_before(srcs, m, j, n, k - 1) && is_pair(#[trigger] srcs[m][j], i, prev[p].0) && prev[p].1 == chan_id(srcs, base, m, j);
            assert(cur[p] == prev[p]);
            assert(slot_before(srcs, m, j, n, k) && is_pair(srcs[m][j], i, cur[p].0));
        } else {
            assert(slot_before(srcs, n, k - 1, n, k) && is_pair(srcs[n][k - 1], i, cur[p].0));
        }
    } else if n > 0 && k <= 0 {
        node_list_sound(srcs, base, i, n - 1, srcs[n - 1].len() as int, p);
        let prev = node_list(srcs, base, i, n - 1, srcs[n - 1].len() as int);
        let (m, j) = choose|m: int, j: int| slot_before(srcs, m, j, n - 1, srcs[n - 1].len() as int) && is_pair(#[trigger] srcs[m][j], i, prev[p].0) && prev[p].1 == chan_id(srcs, base, m, j);
        assert(slot_before(srcs, m, j, n, k) && is_pair(srcs[m][j], i, cur[p].0));
    }
}
// every slot whose source index is Pair(i, sub) has its channel in rule i's list, tagged sub                    //# O-E-wiring-complete [C03,C05,C01]
proof fn node_list_complete(srcs: Seq<Seq<SourceIndex>>, base: int, i: int, n: int, k: int, m: int, j: int, sub: usize)
    requires pos_ok(srcs, n, k), slot_before(srcs, m, j, n, k), is_pair(srcs[m][j], i, sub)
    ensures exists|p: int| 0 <= p < node_list(srcs, base, i, n, k).len() && #[trigger] node_list(srcs, base, i, n, k)[p] == (sub, chan_id(srcs, base, m, j))
    decreases n, k
{
    let cur = node_list(srcs, base, i, n, k);
    if k > 0 && n < srcs.len() {
        let prev = node_list(srcs, base, i, n, k - 1);
        if m == n && j == k - 1 { assert(cur[prev.len() as int] == (sub, chan_id(srcs, base, m, j))); }
        else {
            node_list_complete(srcs, base, i, n, k - 1, m, j, sub);
            let p = choose|p: int| 0 <= p < prev.len() && #[trigger] prev[p] == (sub, chan_id(srcs, base, m, j));
            assert(cur[p] == prev[p]);
        }
    } else if n > 0 && k <= 0 {
        node_list_complete(srcs, base, i, n - 1, srcs[n - 1].len() as int, m, j, sub);
    }
}
// the same two facts for a leaf's list                                                                          //# O-E-wiring-leaf [C03,C05,C01]
proof fn leaf_list_sound(srcs: Seq<Seq<SourceIndex>>, base: int, l: int, n: int, k: int, p: int)
    requires pos_ok(srcs, n, k), 0 <= p < leaf_list(srcs, base, l, n, k).len()
    ensures exists|m: int, j: int| slot_before(srcs, m, j, n, k) && is_leaf(#[trigger] srcs[m][j], l) && leaf_list(srcs, base, l, n, k)[p] == chan_id(srcs, base, m, j)
    decreases n, k
{
    let cur = leaf_list(srcs, base, l, n, k);
    if k > 0 && n < srcs.len() {
        let prev = leaf_list(srcs, base, l, n, k - 1);
        if p < prev.len() {
            leaf_list_sound(srcs, base, l, n, k - 1, p);
            let (m, j) = choose|m: int, j: int| slot_before(srcs, m, j, n, k - 1) && is_leaf(#[trigger] srcs[m][j], l) && prev[p] == chan_id(srcs, base, m, j);
            assert(cur[p] == prev[p]);
            assert(slot_before(srcs, m, j, n, k) && is_leaf(srcs[m][j], l));
        } else {
            assert(slot_before(srcs, n, k - 1, n, k) && is_leaf(srcs[n][k - 1], l));
        }
    } else if n > 0 && k <= 0 {
        leaf_list_sound(srcs, base, l, n - 1, srcs[n - 1].len() as int, p);
        let prev = leaf_list(srcs, base, l, n - 1, srcs[n - 1].len() as int);
        let (m, j) = choose|m: int, j: int| slot_before(srcs, m, j, n - 1, srcs[n - 1].len() as int) && is_leaf(#[trigger] srcs[m][j], l) && prev[p] == chan_id(srcs, base, m, j);
        assert(slot_before(srcs, m, j, n, k) && is_leaf(srcs[m][j], l));
    }
}
proof fn leaf_list_complete(srcs: Seq<Seq<SourceIndex>>, base: int, l: int, n: int, k: int, m: int, j: int)
    requires pos_ok(srcs, n, k), slot_before(srcs, m, j, n, k), is_leaf(srcs[m][j], l)
    ensures exists|p: int| 0 <= p < leaf_list(srcs, base, l, n, k).len() && #[trigger] leaf_list(srcs, base, l, n, k)[p] == chan_id(srcs, base, m, j)
    decreases n, k
{
    let cur = leaf_list(srcs, base, l, n, k);
    if k > 0 && n < srcs.len() {
        let prev = leaf_list(srcs, base, l, n, k - 1);
        if m == n && j == k - 1 { assert(cur[prev.len() as int] == chan_id(srcs, base, m, j)); }
        else {
            leaf_list_complete(srcs, base, l, n, k - 1, m, j);
            let p = choose|p: int| 0 <= p < prev.len() && #[trigger] prev[p] == chan_id(srcs, base, m, j);
            assert(cur[p] == prev[p]);
        }
    } else if n > 0 && k <= 0 {
        leaf_list_complete(srcs, base, l, n - 1, srcs[n - 1].len() as int, m, j);
    }
}
} // verus!
fn main() {}
